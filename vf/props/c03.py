"""C03 - failing actions are contained and rails fail closed.

Domain : vf.pipeline configurations in the C01/C02 style (Colang 1.0 / 2.x; 1-3 input rails and 1-2 output rails drawn in
         order from check / rewrite(v1) / block-or-rewrite(v1) / shipped self check; dialog rails on/off (v2 also the library's
         `llm continuation`); enable_rails_exceptions on/off; v2 rails in config.yml or hand-written; v1 optionally one retrieval
         rail; one custom dialog action on the route `act_llm`) x conversations of 2-3 turns (route + verdict per (rail, turn),
         mostly accepting) x THE LLM REPEATS ITSELF: in 12-18% of the generated conversations (nominal weight 2/5) a later turn gets verbatim the LLM message
         text(s) of the turn before it (turn key `repeat_llm`; the user retries the question, half of the time with the very same user
         text), so the text an action failed on - or that a rail blocked / approved normally - is checked material of a later turn again,
         half of the time with a strict verdict (block / rewrite) of one custom output rail there.  In a faulted run the repeating
         turn gets the text of the same turn of the dry run (FaultSession.message_text), also when the faulted turn ended before the LLM
         was asked.  14 enumerated conversations of this shape come first.
Faults : ONE CASE = ONE CONVERSATION x ALL ITS FAULT PLANS.  `prop` first runs the conversation fault-free (the dry run) and
         reads the sequence of fake-action invocations from `Session.trace`; a call site is `[action, turn, j]` = the j-th
         invocation of that action within that turn.  case["plans"] says which plans are run:
             "singles"  every call site of the dry run, one at a time                       (quick tier)
             "pairs"    every single and every unordered pair of call sites                 (thorough tier, some v1 quick cases)
             [[site, ...], ...]   explicit plans (replay files of single plans)
         so the plan set is a pure function of the case (replays reproduce) and nothing is sampled.  The fault is an
         `InjectedFault(RuntimeError)` or, per case (case["exc"], pool EXC_KINDS, 13 equally weighted families), any other
         subclass of Exception: empty message, asyncio.TimeoutError, AssertionError, KeyError / LookupError / IndexError, a
         multi-line ValueError, UnicodeDecodeError, OSError, NotImplementedError (with / without message, a subclass),
         RecursionError, StopIteration / StopAsyncIteration (PEP 479 inside an `async def` action, as they are in a synchronous one), ArithmeticError /
         ZeroDivisionError, AttributeError / TypeError, two classes defined here (str() and repr() raise; non-string
         args) and three types of the LangChain hierarchy (LangChainException, OutputParserException, TracerException).  BaseException-only classes (CancelledError, KeyboardInterrupt) legitimately propagate: not generated.
         The exception is raised by the fake action through the harness hook `Session.should_fail` (overridden in
         `FaultSession` so that a site is addressed relative to its turn: an earlier fault that shortens a rail chain does not
         shift the address of a later site).  Only registered custom actions fail; the LLM never does (excluded by the statement).
Actions: HOW each custom action is implemented is a dimension of the configuration (cfg["impl"], kinds IMPL_KINDS, 5 families):
         `async def` function (the shared fake) / bound async method; plain `def` / lambda / bound plain method; class with a
         `run` method registered as a class / an instance of it; plain `def` that returns the coroutine of an async function;
         an INSTANCE THAT HOLDS ITS CONFIGURATION (what it checks is handed to its constructor by the application and lives
         on the object, like the word list of a word filter): constructor arguments mandatory (`instance-args`) or optional
         (`instance-config`; an object built without them has nothing to enforce and approves / hands back what it is given).
         For these two the registered OBJECT, not its class, is the rail: every later call of the conversation must reach it.
         The variants are registered over the shared fakes through the opt-in extension "c03-impl" of vf.pipeline and execute
         the same body, so a plain `def` raises exactly the injected exception (StopIteration stays StopIteration).  At least a
         quarter of the generated cases keep all actions `async def`.  Not generated: functools.partial objects, objects with only
         `__call__`, staticmethod objects - the unchanged dispatcher runs none of them (status "failed" on every call, probed).
Oracle : per plan, on the value returned by `generate`, the action trace and the scripted LLM's call log:
         (i)   every turn returns - no exception leaves `generate`, and every single `generate` call comes back within
               GENERATE_LIMIT seconds (normal: well under 1 s); a call that does not is repeated on fresh instances with
               GENERATE_LIMIT_CONFIRM and reported as `generate-hangs` only if it does not return there either;
         (ii)  turn hit by a fault:  output-rail action failed on an LLM text -> that text (also in rewritten form) is absent
               from the reply;  input-rail action failed -> no generation call reaches the LLM after it, no dialog action runs,
               the reply carries no LLM text;  in both cases the reply is the failing rail's refusal / rail exception or the
               fixed internal-error message;  whatever failed (also a dialog or retrieval action): every LLM text in the reply
               was generated in this turn and has passed the complete output chain, no rail of which failed or rejected;
         (iii) every turn without a fault - in particular the one after a faulted turn - shows exactly the rail trace
               (rails, order, verdicts) and the reply of the same turn of the dry run.  The conversations are built so that
               the action that failed in turn k is needed again in turn k+1 (the same rails run in every turn; labels
               faulted-action-needed-again-in-later-turn, ...-must-block-or-rewrite-in-later-turn, configured-instance-...).
Cost   : Colang 2.x turns cost ~0.2 s, so a faulted v2 run does not re-execute the turns before its first planned fault: it
         starts from the `state` document the dry run got back before that turn (see `_run`); v1 always re-runs everything.
         A violation is confirmed on fresh LLMRails instances (whole conversation, no shortcut) before it is reported.
Findings on the unchanged tree (classified by `known`, repros in replays/known/C03/): C03-F16 (v1: `hide_prev_turn` drops the
         ContextUpdate of `$allowed`, later turns are refused although the check rail accepts), C03-F17 (v1 without knowledge
         base: failed retrieval-rail action leaves `$relevant_chunks = None`, `retrieve_relevant_chunks` raises in every later
         turn), C03-F18 (v2 `llm continuation` + rail exceptions: aborted `_bot_say` leaves `$bot_talking_state = True`, every
         later utterance is ignored).
Not asserted (DESIGN 4/C03 S): the reply of a turn whose dialog / retrieval action failed (v2 may answer normally or with
         nothing, v1 answers with the internal-error message); which later rails still run inside the faulted turn; v2
         fail-closed for rails that are not of the library convention `if not $allowed` (not generated).
"""
import asyncio
import inspect
import itertools
import signal
import time

from hypothesis import strategies as st

from vf import fakes, pipeline
from vf.core import Violation, ok
from vf.fakes import GENERATION_TASKS, Session, block_message, refusal_text

PID = "C03"
LEVEL = "fault_enumeration"
CASE_TIMEOUT = 420  # one case runs many plans; a single `generate` call has its own limit (GENERATE_LIMIT)
WALL = {"quick": 150, "thorough": 1500}
INTERNAL_ERROR = "I'm sorry, an internal error has occurred."  # v1 runtime.py:370, v2 runtime.py:270
# "generate still returns normally": every single generate call runs under its own deadline (normal: < 1 s).  A call that
# exceeds it is repeated once on fresh instances with the longer limit before it is reported (kind generate-hangs).
GENERATE_LIMIT = 20
GENERATE_LIMIT_CONFIRM = 60
RULE = (
    "one case = configuration (v1 ~80% / v2 ~20% in the quick tier, 2:1 in the thorough tier; 1-3 ordered input rails and 1-2 ordered output rails from {check, rewrite(v1), "
    "block-or-rewrite(v1), shipped self check}; dialog rails on/off/(v2) llm continuation; enable_rails_exceptions on/off; v2 rails in "
    "config.yml or hand-written; v1 retrieval rail 0/1; a custom dialog action on route act_llm) x conversation of 2-3 turns "
    "(route and accept|reject|rewrite verdict per (rail, turn)) x repetition of LLM text (drawn with nominal weight 2/5, measured 12-18% of the generated quick cases at seeds 1-3 because Hypothesis favours the earlier entries of a choice list: every later turn, with probability 3/4, "
    "repeats verbatim the LLM message text(s) of the turn before it - same route, turn key repeat_llm - in half of them the user text is repeated verbatim too, and in "
    "half of them one custom output rail gets a strict verdict (reject / rewrite) for the repeated text; in a faulted run the repeating turn receives the texts of the same "
    "turn of the dry run; labels llm-repeats-text-of-previous-turn / llm-text-fresh-in-every-turn, llm-repeats-text-of-a-turn-with-strict-output-verdict, "
    "user-repeats-question-verbatim, repeated-llm-text-after-faulted-turn, text-of-failed-output-rail-comes-back[-and-must-be-blocked-or-rewritten]; counters "
    "fault.llm-text-repeated-in-later-turn, fault.output-rail-text-comes-back[.must-block-or-rewrite]; enumerated FIRST: 14 conversations = verdict rows of one custom output "
    "rail {accept, strict, accept} and {strict, strict, accept}, every turn repeating the text of the one before, x 7 configurations (5 Colang 1.0 with 3 turns: general mode / "
    "dialog action, rail exceptions, 1-2 output rails, check / block-or-rewrite / rewrite, retrieval rail; 2 Colang 2.x with 2 turns), user text repeated in every second one, single plans) "
    "x implementation kind of every custom action (cfg['impl']: at least 1/4 of the generated cases "
    "keep every action the shared `async def` function, in the others each action draws one of 10 kinds in 5 families - async-function 5/19 (async def, "
    "bound async method), sync-function 6/19 (plain def 3, bound plain method 2, lambda 1), object-with-run 3/19 (class registered as a class, "
    "instance built without arguments), sync-returning-coroutine 1/19 (plain def handing back the coroutine of an async function), configured-instance 4/19 "
    "(an instance that HOLDS ITS CONFIGURATION - what it checks is given to the constructor and lives on the object, as the word list of a word filter does: "
    "instance-args 2 = both constructor arguments mandatory, instance-config 2 = optional, an object built without them has nothing to enforce and approves / "
    "hands back what it gets); every variant runs the body of the shared "
    "fake, so a synchronous action raises the injected exception itself; labels impl=<family>, impl:mixed / impl:all-async-def, fault-in-impl=<family>, "
    "counters actions.impl.<kind>, fault.impl.<kind>, cases.fault.<impl family>.raises.<exception family>; functools.partial / __call__-only / "
    "staticmethod objects are not generated: the unchanged dispatcher never runs them). Because every turn of a conversation runs the same rails, the action "
    "that failed in turn k is normally needed again in turn k+1, ~1/6 of the time with a verdict other than accept: labels faulted-action-needed-again-in-later-turn, "
    "faulted-action-must-block-or-rewrite-in-later-turn, configured-instance-faulted-then-needed-again, configured-instance-faulted-then-must-block-or-rewrite; "
    "counters fault.action-needed-again-later, fault.action-must-block-or-rewrite-later, fault.impl.<configured kind>.needed-again-later / .must-block-or-rewrite-later "
    "x ALL fault plans of that conversation: prop runs the conversation "
    "fault-free, takes every fake-action invocation of that dry run as a call site [action, turn, j-th call in the turn] and then "
    "re-runs the conversation once per plan with the case's exception raised at the plan's sites (case['exc']: the harness's RuntimeError "
    "subclass with a one-line message, or one of the 24 other kinds of EXC_KINDS - 13 equally weighted families: plain-message, runtime-error "
    "(empty message, RecursionError), timeout, assertion, lookup (KeyError, LookupError, IndexError), value-error (multi-line ValueError, "
    "UnicodeDecodeError), os-error, not-implemented (NotImplementedError with / without message, a subclass), stop-iteration (StopIteration, "
    "StopAsyncIteration inside the async action), arithmetic, attribute-or-type, harness-class (str()/repr() raise; non-string args), langchain (exception types of the LangChain hierarchy raised by the custom action: langchain_core.exceptions.LangChainException, OutputParserException, TracerException; last in the enumeration order EXC_ORDER so that earlier kinds keep their positions); only "
    "Exception subclasses, never BaseException-only ones; share visible in the labels raises-family=<family> and the counters cases.raises.<kind>) - every single site (plans='singles') "
    "and additionally every unordered pair of sites (plans='pairs': all thorough-tier cases and ~1/6 of the v1 quick cases); "
    "plans are enumerated inside prop, never sampled; their numbers are reported in coverage.counters (plans, plans.single, "
    "plans.pair, fault.<version>.<site class>, fault.turn>=2, next-turn-compared). Enumerated part: 10 all-accepting 3-turn conversations "
    "(every site class in every turn, both versions, plain fault, async def actions) + 2-turn all-accepting conversations with input-rail, output-rail and "
    "dialog-action sites, single plans, covering the product exception kind (24) x implementation: Colang 1.0 every implementation kind (per exception kind two "
    "conversations whose 8 custom actions carry the 8 kinds, rotated with the exception kind), Colang 2.x every implementation family (per exception kind one "
    "conversation with 2 input rails, 2 output rails and the dialog action = one kind of each of the 4 families + a second synchronous function; kinds within a "
    "family and positions rotate) - so every (exception kind, implementation kind) pair and every (exception kind, implementation family, version) triple "
    "of the first 8 kinds / 4 families is executed at a call site. The configured-instance kinds have their own enumerated families: "
    "(a) 8 three-turn conversations `all accept / one rail rejects / all accept` with the dialog action in the first two turns, single plans: both versions x "
    "{instance-args, instance-config} x rejecting rail {input, output} (the rejecting category carries the kind, the other custom actions the other configured kind, "
    "`instance` or `class`; v1 with check + block-or-rewrite rails and 0/1 retrieval rail, v2 config.yml / hand-written; rail exceptions in 1 of 4), so an action of "
    "either kind fails in turn k and has to block in turn k+1 and to accept in turn k+2; (b) every exception kind (24) x both configured kinds on Colang 1.0: "
    "2-turn conversations with input rail, dialog action and output rail, the second turn rejected by the rail (input / output alternating) whose action carries the kind. "
    "Every generate call has its own deadline of 20 s (normal < 1 s); a call over the limit is repeated on fresh instances with 60 s and only then "
    "reported (generate-hangs), otherwise counted (generate-calls-over-limit-not-confirmed). evaluations counts cases (conversations), not plans. "
    "Non-trivial case = at least one executed plan whose fault hit an input- or output-rail action; distinct by the whole case "
    "(configuration + conversation + plan mode), so distinct_nontrivial counts conversations, each standing for all its plans."
)
ASSUMPTIONS = [
    "actions are fakes registered with register_action: async functions or, per action (cfg['impl']), a bound async method, a plain def, a lambda, a bound plain method, a class with a run method (registered as class or as instance), a plain def returning a coroutine or an instance of a class with a run method whose behaviour is configuration passed to its constructor (mandatory or optional arguments) - the ways of writing an action that the unchanged dispatcher executes; the fault is an exception raised inside the action body at its k-th invocation (Session.should_fail hook): a RuntimeError subclass or, per case, another subclass of Exception from the pool EXC_KINDS; LLM provider failures are excluded as the statement says",
    "'raises an exception' is read as 'raises any subclass of Exception': BaseException-only classes (asyncio.CancelledError, KeyboardInterrupt, SystemExit) propagate by design and are not injected; a StopIteration raised in an async action reaches the dispatcher as the RuntimeError Python turns it into (PEP 479), a synchronous action raises it unchanged",
    "functools.partial objects, objects that only define __call__ and staticmethod objects are not action implementations: the unchanged dispatcher answers every call of them with status 'failed' (probed), so there is no fault-free behaviour to compare with",
    "an action registered as an object stays that object for the whole life of the LLMRails instance: 'the next turn is processed with all rails active' means the rails as the application configured them, so an instance built by anybody else without the application's constructor arguments (instance-config: nothing to enforce, approves everything; instance-args: cannot be built) is not the rail; on the unchanged tree such an object is never created - the harness only defines what it would do",
    "actions registered as a class / instance receive only the parameters the flow passes explicitly (no `context`), as the runtime does for every non-function action; the oracle does not use the context the fakes record",
    "'generate still returns normally' includes 'returns at all': a generate call that is still running after 20 s and, repeated on fresh LLMRails instances with the same history, after 60 s (normal: well under 1 s) is a hang; after such a call the LLMRails instances and the event loop are discarded (pipeline.reset_runtime)",
    "a custom action that raises an exception type of the LangChain hierarchy (langchain_core.exceptions) is a failing custom action like any other: the exclusion of the statement is about failures of the LLM provider call made by the rails themselves, which the fakes never produce",
    "the scripted LLM answers a repeated question with the same text whether or not an action failed before: a turn marked repeat_llm produces, in a faulted run, the message texts it produced in the fault-free run (also when the faulted earlier turn ended before the LLM was asked); rail verdicts belong to the turn, so the same text may be approved in one turn and has to be blocked or rewritten in the next",
    "the shipped self check rails are part of the rail pool but are not fault sites: their only failure mode is the LLM call",
    "Colang 2.x rails are generated in the guardrails-library convention only (`$allowed = await A(...)` / `if not $allowed` / refuse / abort); a rail testing `if $flagged` fails open by construction and is out of scope",
    "the caller keeps the conversation like the server does: v1 passes previous user messages and returned replies back as `messages`, v2 the returned `state`",
    "Colang 2.x: a faulted run starts from the state document the fault-free run returned before the turn of its first planned fault (the skipped turns are the same deterministic computation); confirmation runs and Colang 1.0 execute every turn",
    "a dry run in which the Colang 1.0 runtime raises `Too many events.` (safety limit of 100 events per turn) is counted as skipped",
    "the reply of a turn whose dialog or retrieval action failed is not prescribed (only that generate returns, that no unchecked LLM text is in it and that later turns are unaffected)",
    "a conversation in which NO action fails is the degenerate instance of the statement: generate must return normally; if it raises there, that is reported as generate-raised-without-any-fault (before round 8 it was treated as a harness error, which let a dispatcher change that breaks one implementation kind pass as not-detected)",
]


def budget(tier):
    return 224 if tier == "quick" else 1400


# ------------------------------------------------------------------------------------------------
# fault injection: sites are addressed relative to their turn


def _multiline_error():
    return ValueError("first line\nsecond line {{ x }} $y\n")


class StubNotImplemented(NotImplementedError):
    """Subclass of NotImplementedError, as raised by a backend adapter whose method is a stub."""


class UnprintableError(Exception):
    """An exception whose message cannot be rendered: str() and repr() raise (a buggy __str__ in a third-party client)."""

    def __str__(self):
        raise TypeError("__str__ of UnprintableError is broken")

    __repr__ = __str__


class StructuredError(Exception):
    """An exception whose args are not strings (an error code, a payload dict, None)."""


def _lc(name):
    import langchain_core.exceptions as lce  # (imported at use: the module is a dependency of the code under test)

    return getattr(lce, name)


# what the failing custom action raises: "for all exceptions" = any subclass of Exception, not only ones that carry a one-line
# message.  BaseException-only classes (CancelledError, KeyboardInterrupt, SystemExit, GeneratorExit) legitimately propagate
# and are not generated.  In an `async def` action "stopiter" exercises PEP 479 (the coroutine turns StopIteration into
# RuntimeError) and "stopasync" leaves the coroutine unchanged; a synchronous action (see IMPL_KINDS) raises both as they are.
EXC_KINDS = {
    "empty": RuntimeError,  # str(e) == ""
    "timeout": asyncio.TimeoutError,  # what asyncio.wait_for raises around a slow service; empty message too
    "assert": AssertionError,
    "key": lambda: KeyError("missing"),
    "multiline": _multiline_error,
    "oserror": lambda: OSError(5, "Input/output error"),
    # classes that library code catches for its own purposes somewhere (sync fallback, iteration protocol, lookups)
    "notimpl": lambda: NotImplementedError("moderation backend is not implemented yet"),
    "notimpl-bare": NotImplementedError,
    "notimpl-sub": lambda: StubNotImplemented("stub"),
    "lookup": lambda: LookupError("no such entry"),
    "index": lambda: IndexError("list index out of range"),
    "unicode": lambda: UnicodeDecodeError("utf-8", b"\xff\xfe", 0, 1, "invalid start byte"),
    "recursion": lambda: RecursionError("maximum recursion depth exceeded"),
    "stopiter": lambda: StopIteration("exhausted"),
    "stopasync": StopAsyncIteration,
    "arith": lambda: ArithmeticError("overflow in score"),
    "zerodiv": lambda: ZeroDivisionError("division by zero"),
    "attr": lambda: AttributeError("'NoneType' object has no attribute 'run'"),
    "type": lambda: TypeError("unsupported operand"),
    # exception TYPES of the LangChain hierarchy (a custom action that uses an output parser / a chain of its own and lets the
    # error out): still an exception raised by a custom action, not a failure of the LLM provider
    "lc-parser": lambda: _lc("OutputParserException")("could not parse the moderation verdict"),
    "lc-base": lambda: _lc("LangChainException")("chain failed"),
    "lc-tracer": lambda: _lc("TracerException")("no run found"),
    # classes defined by the harness
    "badstr": UnprintableError,
    "args": lambda: StructuredError(503, {"detail": ["x", None]}, None),
}
# order of the kinds in the enumerated families and in the drawn pool: the kinds added later (LangChain hierarchy) come last, so the
# earlier ones keep their positions (rotation of implementation kinds / configurations with the index)
EXC_ORDER = sorted(k for k in EXC_KINDS if not k.startswith("lc-")) + ["lc-base", "lc-parser", "lc-tracer"]
# families shown in the labels (raises-family=...)
EXC_FAMILY = {
    "message": "plain-message", "empty": "runtime-error", "timeout": "timeout", "assert": "assertion", "key": "lookup", "lookup": "lookup",
    "index": "lookup", "multiline": "value-error", "unicode": "value-error", "oserror": "os-error", "notimpl": "not-implemented",
    "notimpl-bare": "not-implemented", "notimpl-sub": "not-implemented", "recursion": "runtime-error", "stopiter": "stop-iteration",
    "stopasync": "stop-iteration", "arith": "arithmetic", "zerodiv": "arithmetic", "attr": "attribute-or-type", "type": "attribute-or-type",
    "badstr": "harness-class", "args": "harness-class", "lc-parser": "langchain", "lc-base": "langchain", "lc-tracer": "langchain",
}


class FaultSession(Session):
    """case["plan"] = [[action_name, turn, j], ...]: the j-th invocation of the action within that turn raises."""

    def __init__(self, case, cfg=None):
        super().__init__(case, cfg)
        self.plan = {(a, int(t), int(j)) for a, t, j in case.get("plan", [])}
        # message texts the LLM produced in the fault-free conversation, per turn (only given to faulted runs, see `_sub`)
        self.script = {int(t): list(texts) for t, texts in (case.get("llm_script") or {}).items()}

    def message_text(self, turn, k, body):
        """A turn that REPEATS an earlier LLM text (turn key "repeat_llm") gets, in a faulted run, the n-th message text the
        LLM produced in the same turn of the fault-free conversation: what the LLM answers to a question is a function of the
        conversation script, not of whether an action failed earlier (the faulted earlier turn may have ended before the LLM
        was asked at all - the user who retries still gets the text the LLM has for that question).  Turns that do not
        repeat are untouched (fresh marker `LM{turn}C{k}Z`)."""
        if turn < len(self.turns) and self.turns[turn].get("repeat_llm") is not None and turn in self.script:
            n = len(self.message_texts.get(turn, []))
            if n < len(self.script[turn]):
                text = self.script[turn][n]
                self.message_texts.setdefault(turn, []).append(text)
                return text
        return super().message_text(turn, k, body)

    def should_fail(self, action_name, k):
        entry = self.trace[-1]  # appended by fakes._enter just before this call
        turn = entry["turn"]
        j = sum(1 for e in self.trace if e.get("action") == action_name and e["turn"] == turn) - 1
        entry["j"] = j
        if (action_name, turn, j) not in self.plan:
            return False
        kind = self.case.get("exc", "message")
        if kind == "message":
            return True  # fakes raises InjectedFault("VF-FAULT ...")
        entry["verdict"] = "raise"
        raise EXC_KINDS[kind]()


# ------------------------------------------------------------------------------------------------
# how a custom action is implemented: the dispatcher treats functions / methods (awaited if they return a coroutine, else
# called synchronously inside the event loop), classes (instantiated at first use) and other objects (`.run(**params)`)
# differently, and so does the code that decides which special parameters (`context`, ...) an action receives.
#
# cfg["impl"] = {"in": [kind per input rail], "out": [kind per output rail], "ret": [kind per retrieval rail], "dialog": kind}
# (the entry of a shipped self-check rail is ignored; a missing entry means "async"); the spec also carries "ext": IMPL_EXT, the
# opt-in extension of vf.pipeline through which the variants are registered OVER the shared `async def` fakes of the same name.
# Every variant executes the body of the shared fake (verdict tables, trace, fault hook), only the callable around it differs.

IMPL_EXT = "c03-impl"
IMPL_KINDS = {
    "async": "async-function",  # async def f(text=None, context=None)            - the shared fake itself
    "async-method": "async-function",  # bound `async def` method of an object holding the actions
    "sync": "sync-function",  # def f(text=None, context=None)
    "lambda": "sync-function",  # lambda text=None, context=None: ...
    "method": "sync-function",  # bound plain method of an object holding the actions
    "class": "object-with-run",  # class with `def run(self, **kwargs)`, registered as a class (instantiated at first use)
    "instance": "object-with-run",  # instance of such a class
    "sync-coro": "sync-returning-coroutine",  # plain def that hands back the coroutine of an async function (thin wrapper)
    # instances whose behaviour is CONFIGURATION HELD BY THE INSTANCE (handed to the constructor when the application builds the
    # object, like the word list of a word filter): the registered object itself - not merely its class - is what the rail is
    "instance-args": "configured-instance",  # constructor arguments are mandatory: `Configured(policy, label)`
    "instance-config": "configured-instance",  # constructor arguments are optional: `Defaulted(policy=None)`; without a policy the
    #                                            object has nothing to enforce (approves / hands back whatever it is given)
}
IMPL_ORDER = ["async", "sync", "class", "method", "sync-coro", "instance", "lambda", "async-method"]
CONFIGURED_KINDS = ["instance-args", "instance-config"]  # (not part of IMPL_ORDER: they have their own enumerated families)
# not generated because the unchanged dispatcher does not run them at all (every call ends in status "failed", probed):
# functools.partial objects, objects that only define __call__, staticmethod objects.

_VARIANTS = """
def plain({sig}):
    return call({args})

lam = lambda {sig}: call({args})

def wrapper({sig}):
    return acall({args})

class Actions:
    def method(self, {sig}):
        return call({args})

    async def amethod(self, {sig}):
        return await acall({args})

class Runner:
    def run(self, **kwargs):
        return call(**kwargs)

class Configured:
    def __init__(self, policy, label):
        self.policy = policy
        self.label = label

    def run(self, **kwargs):
        return self.policy(**kwargs)

class Defaulted:
    def __init__(self, policy=None, label="unconfigured"):
        self.policy = policy
        self.label = label

    def run(self, **kwargs):
        if self.policy is None:
            given = kwargs.get("text", kwargs.get("chunks"))
            return given if given else True
        return self.policy(**kwargs)
"""


def _step(afn, kwargs):
    """Executes the body of a shared fake synchronously.  The fakes are `async def` functions that never await, so one
    `send` runs the whole body.  An injected StopIteration reaches us as the RuntimeError PEP 479 makes of it inside a
    coroutine: the original exception object is raised instead - a synchronous action raises exactly what its body raises."""
    coro = afn(**kwargs)
    try:
        coro.send(None)
    except StopIteration as done:
        return done.value
    except RuntimeError as e:
        if isinstance(e.__cause__, StopIteration) and "raised StopIteration" in str(e):
            raise e.__cause__
        raise
    coro.close()
    raise RuntimeError("harness: a shared fake action awaited something, it cannot be given a synchronous implementation")


def implement(kind, afn, name):
    """The fake action `afn` (async def, all parameters optional) as an action object of implementation kind `kind`."""
    if kind == "async":
        return afn
    params = inspect.signature(afn).parameters
    if any(p.default is not None or p.kind != p.POSITIONAL_OR_KEYWORD for p in params.values()):
        raise RuntimeError(f"harness: unexpected signature of the fake action {name}: {list(params.values())}")
    ns = {"call": lambda **kw: _step(afn, kw), "acall": afn}
    exec(_VARIANTS.format(sig=", ".join(f"{p}=None" for p in params), args=", ".join(f"{p}={p}" for p in params)), ns)
    meta = getattr(afn, "action_meta", None)
    targets = {
        "sync": ns["plain"], "lambda": ns["lam"], "sync-coro": ns["wrapper"], "method": ns["Actions"].method,
        "async-method": ns["Actions"].amethod, "class": ns["Runner"], "instance": ns["Runner"],
        "instance-args": ns["Configured"], "instance-config": ns["Defaulted"],
    }
    target = targets[kind]
    target.__name__ = name  # vf.pipeline registers an action under its __name__
    if meta is not None:
        target.action_meta = dict(meta, name=name)  # (a bound method and an instance delegate the lookup to these objects)
    if kind in ("method", "async-method"):
        return getattr(ns["Actions"](), "method" if kind == "method" else "amethod")
    if kind == "instance":
        obj = target()
        obj.__name__ = name
        return obj
    if kind in CONFIGURED_KINDS:
        # what the object does is handed to its constructor and lives on the instance (the class alone knows nothing of it)
        obj = target(ns["call"], name) if kind == "instance-args" else target(policy=ns["call"], label=name)
        obj.__name__ = name
        return obj
    return target


def _impl_of(cfg, cat, idx=0):
    spec = (cfg.get("impl") or {}).get(cat)
    if cat == "dialog":
        return spec or "async"
    return spec[idx] if isinstance(spec, list) and idx < len(spec) and spec[idx] else "async"


def custom_actions(cfg):
    """(category, index, action name) of every custom action of a configuration, in registration order."""
    out = []
    for cat in ("in", "out"):
        out += [(cat, i, pipeline.rail_action_name(cat, i, cfg["v"])) for i, kind in enumerate(cfg.get(cat, [])) if kind != "self"]
    out += [("ret", i, pipeline.rail_action_name("ret", i, cfg["v"])) for i in range(int(cfg.get("ret", 0)))]
    out.append(("dialog", 0, pipeline.dialog_action_name(cfg["v"])))
    return out


def _impl_actions(cfg):
    """vf.pipeline extension hook: the action objects registered over the standard fakes (those that are not `async def`)."""
    out = []
    for cat, i, name in custom_actions(cfg):
        kind = _impl_of(cfg, cat, i)
        if kind == "async":
            continue
        if cat in ("in", "out"):
            base = fakes.make_rail_action(cat, i, name)
        elif cat == "ret":
            base = fakes.make_retrieval_action(i, name)
        else:
            base = fakes.make_dialog_action(name)
        out.append(implement(kind, base, name))
    return out


pipeline.register_extension(IMPL_EXT, actions=_impl_actions)


def with_impl(cfg, kinds):
    """cfg + the implementation kinds `kinds` (one per custom action, registration order; cycled if shorter)."""
    acts = custom_actions(cfg)
    impl = {"in": ["async"] * len(cfg.get("in", [])), "out": ["async"] * len(cfg.get("out", [])), "ret": ["async"] * int(cfg.get("ret", 0)), "dialog": "async"}
    for n, (cat, i, _) in enumerate(acts):
        k = kinds[n % len(kinds)]
        if cat == "dialog":
            impl["dialog"] = k
        else:
            impl[cat][i] = k
    if all(_impl_of({"impl": impl}, cat, i) == "async" for cat, i, _ in acts):
        return cfg  # the plain shape: nothing but the shared `async def` fakes
    return dict(cfg, ext=IMPL_EXT, impl=impl)


def impl_by_action(cfg):
    return {name: _impl_of(cfg, cat, i) for cat, i, name in custom_actions(cfg)}


# ------------------------------------------------------------------------------------------------
# a deadline for every single generate call


class _InnerTimeout(BaseException):
    pass


class _Deadline:
    """Inner SIGALRM limit that restores an outer ITIMER_REAL (the runner's per-case watchdog) afterwards."""

    def __init__(self, seconds):
        self.seconds = seconds

    def _fire(self, *_):
        raise _InnerTimeout()

    def __enter__(self):
        self.t0 = time.monotonic()
        self.left, _ = signal.getitimer(signal.ITIMER_REAL)
        self.active = not self.left or self.left > self.seconds  # otherwise the outer watchdog fires first anyway
        if self.active:
            self.old = signal.signal(signal.SIGALRM, self._fire)
            signal.setitimer(signal.ITIMER_REAL, self.seconds)
        return self

    def __exit__(self, *exc):
        if self.active:
            signal.setitimer(signal.ITIMER_REAL, 0)
            signal.signal(signal.SIGALRM, self.old)
            if self.left:
                signal.setitimer(signal.ITIMER_REAL, max(0.05, self.left - (time.monotonic() - self.t0)))
        return False


def _sub(case, plan, dry=None):
    sub = {"config": case["config"], "turns": case["turns"], "api": case.get("api", "sync"), "plan": [list(s) for s in plan], "exc": case.get("exc", "message")}
    if dry is not None and plan and any(spec.get("repeat_llm") is not None for spec in case["turns"]):
        sub["llm_script"] = {t: list(texts) for t, texts in dry.session.message_texts.items()}
    return sub


def _turn(p, s, t, limit=GENERATE_LIMIT):
    """pipeline.Pipeline.turn under the per-call deadline `limit` (a call that does not return in time is recorded as
    {"hang": limit}); an exception that leaves `generate` and cannot be rendered (str() raises: kind "badstr") is recorded by
    its class name instead of breaking the harness."""
    n_trace, n_llm = len(s.trace), len(s.llm_calls)
    try:
        with _Deadline(limit):
            return p.turn(s, t)
    except _InnerTimeout:
        # the call did not return: the instance and its event loop are in an undefined state, the caller discards them
        s.messages.append({"role": "user", "content": s.turns[t]["user"]})
        return {"reply": None, "raised": None, "hang": limit, "log": None, "trace": s.trace[n_trace:], "llm": s.llm_calls[n_llm:]}
    except TypeError as e:
        if "UnprintableError" not in str(e):
            raise
        s.messages.append({"role": "user", "content": s.turns[t]["user"]})
        return {"reply": None, "raised": "UnprintableError: <str() raises>", "log": None, "trace": s.trace[n_trace:], "llm": s.llm_calls[n_llm:]}


def _run(case, plan, fresh=False, dry=None, limit=GENERATE_LIMIT):
    """Runs the conversation with `plan` (like pipeline.run_conversation, plus a snapshot of the caller-side state after every
    turn).  Colang 2.x only, reused instance only: when `dry` is given the turns before the first planned fault are not
    executed again - the run starts from the `state` value the dry run got back before that turn (the state is a
    self-contained JSON document and everything up to that point is the same deterministic computation); the observations of
    the skipped turns are the dry run's.  Colang 1.0 keeps its history in the instance's events cache, so it always re-runs
    the whole conversation; confirmation runs on fresh instances always run everything."""
    sub = _sub(case, plan, dry)
    try:
        p = pipeline.get_pipeline(sub["config"], fresh=fresh)
        s = p.new_session(sub, FaultSession)
        n = len(sub["turns"])
        t0 = 0
        if dry is not None and plan and not fresh and p.v == 2:
            t0 = min(int(site[1]) for site in plan)
            if not 0 <= t0 < n:
                t0 = 0
        turns = []
        if t0:
            s.state = dry.snapshots[t0 - 1]["state"]
            s.messages = list(dry.snapshots[t0 - 1]["messages"])
            turns = list(dry.turns[:t0])
        snapshots = [None] * t0
        hung = False
        for t in range(t0, n):
            turns.append(_turn(p, s, t, limit))
            snapshots.append({"state": s.state, "messages": list(s.messages)})
            if turns[-1].get("hang"):
                # the conversation ends here (obs.turns is shorter than case["turns"]); the LLMRails instance, the event
                # loop with the never-finishing task and every cached instance living on that loop are discarded
                hung = True
                pipeline.reset_runtime()
                break
        obs = pipeline.Observations(sub, s, turns, p)
        obs.snapshots = snapshots
        obs.executed = len(turns) - t0
        obs.hung = hung
        return obs
    except BaseException:
        pipeline.reset_runtime()
        raise


def _sites(dry):
    """Call sites of the dry run in execution order."""
    return [[e["action"], e["turn"], e["j"]] for e in dry.session.trace if e.get("via") == "action" and "j" in e]


def _plans(case, sites):
    mode = case.get("plans", "singles")
    if isinstance(mode, list):
        return [[list(s) for s in p] for p in mode]
    plans = [[s] for s in sites]
    if mode == "pairs":
        plans += [[a, b] for a, b in itertools.combinations(sites, 2)]
    return plans


# ------------------------------------------------------------------------------------------------
# generators


def _mk_cfg(v, ins, outs, dialog, exc, style="config", ret=0):
    cfg = {"v": v, "in": list(ins), "out": list(outs), "dialog": dialog, "exc": bool(exc)}
    if v == 1:
        cfg["ret"] = ret
    else:
        cfg["style"] = style
    return cfg


USER_TAILS = ["how is the weather", "tell me a joke", "what is the status", "hello there", "tell me two facts", "and now"]


@st.composite
def _case(draw, tier):
    v = draw(st.sampled_from([1, 1, 1, 1, 2] if tier == "quick" else [1, 1, 2]))
    ins = draw(pipeline.st_rail_kinds(v, 1, 3, "in"))
    outs = draw(pipeline.st_rail_kinds(v, 1, 2, "out"))
    if v == 1:
        dialog = draw(st.sampled_from([True, True, False]))
        cfg = _mk_cfg(1, ins, outs, dialog, draw(st.sampled_from([False, False, True])), ret=draw(st.sampled_from([0, 0, 0, 1])))
    else:
        dialog = draw(st.sampled_from([True, True, False, "llmc"]))
        cfg = _mk_cfg(2, ins, outs, dialog, draw(st.sampled_from([False, False, True])), style=draw(st.sampled_from(["config", "hand"])))
    routes = list(pipeline.routes_for(cfg))
    if "act_llm" in routes:
        routes += ["act_llm"] * 3  # the custom dialog action is one of the three site classes
    turns = []
    for t in range(draw(st.sampled_from([2, 3, 3] if (v == 1 or tier != "quick") else [2, 2, 3]))):
        turns.append(
            {
                "user": f"{fakes.mk_user(t)} {draw(st.sampled_from(USER_TAILS))}",
                "route": draw(st.sampled_from(routes)),
                "in": [draw(pipeline.st_verdict(k, p_accept=10)) for k in cfg["in"]],
                "out": [draw(pipeline.st_verdict(k, p_accept=8)) for k in cfg["out"]],
                "body": draw(pipeline.st_body()),
            }
        )
    if tier == "thorough":
        plans = "pairs"
    else:
        plans = draw(st.sampled_from(["singles"] * 5 + ["pairs"])) if v == 1 else "singles"
    api = draw(st.sampled_from(["sync", "sync", "async"]))
    exc = draw(st_exc_kind())
    # implementation kind of every custom action: a quarter of the cases keep the plain shape (every action the shared
    # `async def` fake), the others draw one kind per action (drawn last: earlier draws keep their meaning)
    if draw(st.sampled_from(["mixed", "mixed", "mixed", "async"])) == "mixed":
        cfg = with_impl(cfg, [draw(st_impl_kind()) for _ in custom_actions(cfg)])
    # the LLM repeats itself (drawn last): in 2 of 5 conversations a later turn gets, verbatim, the message text(s) the LLM produced
    # in the turn before it - the user retries the question (half of the time with the very same user text) - so the text an action
    # failed on (or that a rail blocked / approved normally) comes back as checked material of a turn of its own, whose verdicts are
    # drawn like any other turn's or, half of the time, made strict for one custom output rail (block / rewrite the repeated text)
    if draw(st.sampled_from(["fresh", "fresh", "fresh", "repeat", "repeat"])) == "repeat":
        for t in range(1, len(turns)):
            if not draw(st.sampled_from([True, True, True, False])):
                continue
            _repeat_turn(turns, t, same_user=draw(st.booleans()))
            strict = draw(st.sampled_from(["as-drawn", "strict"]))
            i = draw(st.integers(0, len(cfg["out"]) - 1))
            if strict == "strict":
                turns[t]["out"][i] = {"check": "reject", "self": "reject", "rewrite": "rewrite"}.get(cfg["out"][i]) or draw(st.sampled_from(["reject", "rewrite"]))
    return {"config": cfg, "turns": turns, "api": api, "plans": plans, "exc": exc}


def _repeat_turn(turns, t, same_user=False):
    """Turn t repeats turn t-1: same route, same LLM message text(s) (fakes turn key "repeat_llm"); `same_user`: the user text is
    the one of turn t-1 too, marker included (turn key "umark" = the marker it carries)."""
    turns[t]["route"] = turns[t - 1]["route"]
    turns[t]["repeat_llm"] = t - 1
    if same_user:
        turns[t]["user"] = turns[t - 1]["user"]
        turns[t]["umark"] = turns[t - 1].get("umark", t - 1)


def st_impl_kind():
    """Implementation kind of one custom action: async functions 5/19, synchronous functions 6/19 (plain def 3, bound method 2,
    lambda 1), objects with a run method 3/19, plain def returning a coroutine 1/19, instances that hold their configuration
    4/19 (mandatory constructor arguments 2, optional ones 2; appended last: the earlier entries keep their positions)."""
    return st.sampled_from(
        ["async"] * 4 + ["sync"] * 3 + ["method"] * 2 + ["class"] * 2 + ["lambda", "async-method", "instance", "sync-coro"] + ["instance-args"] * 2 + ["instance-config"] * 2
    )


def st_exc_kind():
    """What the failing action raises: every family has the same weight (so none is diluted when the pool grows), the kinds of a
    family share it (families have 1, 2 or 3 kinds: 6 / size entries per kind in one flat list; "message" first = simplest)."""
    pool = []
    for k in ["message"] + EXC_ORDER:
        size = sum(1 for g in EXC_FAMILY.values() if g == EXC_FAMILY[k])
        pool += [k] * (6 // size)
    return st.sampled_from(pool)


def strategy(tier):
    return _case(tier)


def enumerate_cases(tier):
    """Deterministic core: all-accepting 3-turn conversations, every site class in every turn, both versions."""
    core = [
        (_mk_cfg(1, ["check", "both"], ["check", "self"], True, False), ["act_llm", "ll", "pl"]),
        (_mk_cfg(1, ["check", "rewrite"], ["rewrite", "check"], True, True), ["llm", "act_llm", "lp"]),
        (_mk_cfg(1, ["check", "check"], ["check"], True, False), ["predef", "act_llm", "next_llm"]),
        (_mk_cfg(1, ["rewrite", "check", "self"], ["both"], False, False, ret=1), ["llm", "llm", "llm"]),
        (_mk_cfg(1, ["self", "check"], ["check", "check"], False, True), ["llm", "llm", "llm"]),
        (_mk_cfg(2, ["check", "check"], ["check", "self"], True, False), ["act_llm", "ll", "llm"]),
        (_mk_cfg(2, ["check"], ["check", "check"], True, True, style="hand"), ["llm", "act_llm", "pl"]),
        (_mk_cfg(2, ["check", "self"], ["check"], False, False, style="hand"), ["llm", "llm", "llm"]),
        (_mk_cfg(2, ["check", "check"], ["check"], "llmc", False), ["llm", "predef", "llm"]),
        (_mk_cfg(2, ["check"], ["check"], False, True), ["llm", "llm", "llm"]),
    ]
    # placed first (cheap): the LLM REPEATS in turn k+1 the text of turn k (the user retries the question).  Verdict rows of the output
    # rail that carries the row's name: accept / strict (the repeated text must be blocked or rewritten when it comes back after the
    # turn whose action failed) / accept, and strict / strict / accept (it comes back after a turn the rail blocked normally as well);
    # x configuration (general mode / dialog rails with the custom dialog action, rail exceptions, one or two output rails, v2 once per
    # row) x the user text repeated verbatim or not.  Every single site.
    rep_cfgs = [
        (_mk_cfg(1, ["check"], ["check"], False, False), 0, "reject"),
        (_mk_cfg(1, ["check"], ["check"], True, False), 0, "reject"),
        (_mk_cfg(1, ["check"], ["check", "both"], True, True), 1, "reject"),
        (_mk_cfg(1, ["rewrite"], ["both", "check"], True, False), 0, "rewrite"),
        (_mk_cfg(1, ["check"], ["rewrite"], False, False, ret=1), 0, "rewrite"),
        (_mk_cfg(2, ["check"], ["check"], True, False), 0, "reject"),
        (_mk_cfg(2, ["check"], ["check", "check"], False, True, style="hand"), 1, "reject"),
    ]
    n = 0
    for rows in (["accept", "strict", "accept"], ["strict", "strict", "accept"]):
        for cfg, idx, strict in rep_cfgs:
            n += 1
            route = "act_llm" if cfg["dialog"] else "llm"
            turns = []
            for t, row in enumerate(rows if cfg["v"] == 1 else rows[:2]):
                spec = {"user": f"{fakes.mk_user(t)} what is the status", "route": route, "in": ["accept"] * len(cfg["in"]), "out": ["accept"] * len(cfg["out"]), "body": "some answer"}
                if row == "strict":
                    spec["out"][idx] = strict
                turns.append(spec)
                if t:
                    _repeat_turn(turns, t, same_user=n % 2 == 0)
            yield {"config": cfg, "turns": turns, "api": "async" if n % 4 == 0 else "sync", "plans": "singles", "exc": "message" if n % 3 else "key"}
    for cfg, routes in core:
        turns = [
            {"user": f"{fakes.mk_user(t)} how is the weather", "route": r, "in": ["accept"] * len(cfg["in"]), "out": ["accept"] * len(cfg["out"]), "body": "some answer"}
            for t, r in enumerate(routes)
        ]
        yield {"config": cfg, "turns": turns, "api": "sync", "plans": "pairs" if (tier == "thorough" or cfg["v"] == 1) else "singles"}
    # every exception kind of the pool x every implementation kind (Colang 1.0) / every implementation family (Colang 2.x, whose
    # turns cost 20x more; the dispatcher is the same): 2-turn all-accepting conversations with input-rail, output-rail and
    # dialog-action sites in each turn, single plans.
    #   v1: per exception kind two conversations; the 8 kinds (rotated with the exception kind) are dealt to the custom actions of
    #       the first (configurations rotate over the exception kinds as before) and the remaining ones to those of the second,
    #       whose configuration has as many actions as are left;
    #   v2: per exception kind one conversation with two input rails, two output rails and the dialog action, implemented by one
    #       kind of each of the 4 families + a second synchronous function (kinds within a family and positions rotate)
    small = [_mk_cfg(1, ["check"], ["check"], True, False), _mk_cfg(1, ["check", "rewrite"], ["check"], True, True), _mk_cfg(1, ["both"], ["rewrite", "check"], True, False, ret=1)]
    rest = {3: _mk_cfg(1, ["both"], ["check"], True, True), 4: _mk_cfg(1, ["check", "both"], ["check"], True, False), 5: _mk_cfg(1, ["check", "check"], ["rewrite", "check"], True, False)}
    v2 = [_mk_cfg(2, ["check", "check"], ["check", "check"], True, False), _mk_cfg(2, ["check", "check"], ["check", "check"], True, True, style="hand")]
    fam = {f: [k for k in IMPL_ORDER if IMPL_KINDS[k] == f] for f in IMPL_KINDS.values()}
    for i, kind in enumerate(EXC_ORDER):
        order = IMPL_ORDER[i % len(IMPL_ORDER):] + IMPL_ORDER[: i % len(IMPL_ORDER)]
        first = small[i % len(small)]
        n_first = len(custom_actions(first))
        five = [fam["async-function"][i % 2], fam["sync-function"][i % 3], fam["object-with-run"][i % 2], fam["sync-returning-coroutine"][0], fam["sync-function"][(i + 1) % 3]]
        for cfg, kinds, routes in (
            (first, order[:n_first], ["act_llm", "llm"] if i % 2 else ["llm", "act_llm"]),
            (rest[len(order) - n_first], order[n_first:], ["llm", "act_llm"] if i % 2 else ["act_llm", "llm"]),
            (v2[i % len(v2)], five[i % 5:] + five[: i % 5], ["act_llm", "llm"] if i % 2 else ["llm", "act_llm"]),
        ):
            turns = [
                {"user": f"{fakes.mk_user(t)} what is the status", "route": r, "in": ["accept"] * len(cfg["in"]), "out": ["accept"] * len(cfg["out"]), "body": "some answer"}
                for t, r in enumerate(routes)
            ]
            yield {"config": with_impl(cfg, kinds), "turns": turns, "api": "async" if i % 3 == 2 else "sync", "plans": "singles", "exc": kind}
    # instances that hold their configuration (CONFIGURED_KINDS), faulted in one turn and NEEDED AGAIN in the next one, where the
    # rail has to block: 3-turn conversations `accept / one rail rejects / accept` with the dialog action in the first two turns,
    # every single site.  Both versions x both kinds x the rejecting rail (input / output); the other custom actions of the
    # conversation carry the other configured kind or `instance` / `class`.
    n = 0
    for v in (1, 2):
        for kind in CONFIGURED_KINDS:
            other = CONFIGURED_KINDS[1 - CONFIGURED_KINDS.index(kind)]
            for blocked in ("in", "out"):
                n += 1
                if v == 1:
                    cfg = _mk_cfg(1, ["check", "both"] if blocked == "in" else ["check"], ["check"] if blocked == "in" else ["both", "check"], True, n % 4 == 0, ret=n % 2)
                else:
                    cfg = _mk_cfg(2, ["check"], ["check"], True, n % 4 == 0, style="hand" if n % 2 else "config")
                acts = custom_actions(cfg)
                kinds = [kind if cat == blocked else (other, "instance", "class")[(n + j) % 3] for j, (cat, _, _) in enumerate(acts)]
                turns = []
                for t, route in enumerate(["act_llm", "act_llm", "llm"]):
                    spec = {"user": f"{fakes.mk_user(t)} what is the status", "route": route, "in": ["accept"] * len(cfg["in"]), "out": ["accept"] * len(cfg["out"]), "body": "some answer"}
                    if t == 1:
                        spec[blocked][-1] = "reject"
                    turns.append(spec)
                yield {"config": with_impl(cfg, kinds), "turns": turns, "api": "async" if n % 3 == 0 else "sync", "plans": "singles", "exc": "message" if n % 2 else "timeout"}
    # ... and every exception kind of the pool x the two configured kinds (Colang 1.0; the dispatcher is the same for both versions):
    # 2-turn conversations, the second turn rejected by the input or the output rail, whose action failed in the first
    for i, kind in enumerate(EXC_ORDER):
        cfg = _mk_cfg(1, ["check"], ["check"], True, i % 3 == 1)
        a, b = CONFIGURED_KINDS[i % 2], CONFIGURED_KINDS[(i + 1) % 2]
        blocked = ("in", "out")[(i // 2) % 2]
        turns = []
        for t in range(2):
            spec = {"user": f"{fakes.mk_user(t)} what is the status", "route": "act_llm", "in": ["accept"], "out": ["accept"], "body": "some answer"}
            if t == 1:
                spec[blocked][0] = "reject"
            turns.append(spec)
        yield {"config": with_impl(cfg, [a, b, a] if blocked == "in" else [b, a, b]), "turns": turns, "api": "async" if i % 3 == 0 else "sync", "plans": "singles", "exc": kind}


# ------------------------------------------------------------------------------------------------
# oracle


def _norm_reply(o):
    rep = o["reply"]
    if not isinstance(rep, dict):
        return repr(rep)
    excs = sorted((str(e.get("type")), str(e.get("message"))) for e in pipeline.reply_exceptions(o))
    content = rep.get("content")
    return [rep.get("role"), content if isinstance(content, str) else None, excs]


def _rail_sig(o):
    return [[e["rail"], e.get("verdict")] for e in o["trace"]]


def _site_class(e):
    return {"in": "input-rail", "out": "output-rail", "dialog": "dialog-action", "ret": "retrieval-rail"}[e["cat"]]


def _detail(cfg, plan, t, **kw):
    d = {"v": cfg["v"], "exc": bool(cfg["exc"]), "plan": plan, "turn": t}
    d.update(kw)
    return d


def _stale_context_signature(cfg, d_turn, f_turn):
    """Signature of finding C03-F16 (Colang 1.0): the turn stops right after a check rail that ACCEPTED, and the reply is
    that rail's refusal - `$allowed` of the rebuilt flow state is stale because the hidden (faulted) turn took the only
    ContextUpdate(allowed=True) with it."""
    if cfg["v"] != 1:
        return False
    got, want = _rail_sig(f_turn), _rail_sig(d_turn)
    if not got or got != want[: len(got)]:
        return False
    last = f_turn["trace"][-1]
    if last["cat"] not in ("in", "out") or last.get("verdict") != "accept":
        return False
    kind = cfg[last["cat"]][last["idx"]]
    if kind not in ("check", "self"):  # the two rail shapes that test `$allowed`
        return False
    text = pipeline.reply_text(f_turn)
    if cfg["exc"]:
        return any(e.get("message") == block_message(last["cat"], last["idx"], kind) for e in pipeline.reply_exceptions(f_turn))
    return refusal_text(last["cat"], last["idx"], kind) in text


def _judge(case, dry, obs, plan):
    """Checks one faulted run against the statement; returns {"labels": set, "counters": dict, "view": dict}."""
    cfg = case["config"]
    v = cfg["v"]
    ver = f"v{v}"
    labels, counters = set(), {}

    def count(key, n=1):
        counters[key] = counters.get(key, 0) + n

    impls = impl_by_action(cfg)
    what0 = f"{ver} plan {plan}"
    if any(k != "async" for k in impls.values()):
        what0 += " (actions implemented as " + ", ".join(f"{a}: {k}" for a, k in impls.items()) + ")"
    first_fault_turn = None
    reached = 0
    faulted_turns = []
    out_fault_turns = set()  # turns in which an output-rail action failed on an LLM text
    classes_hit = set()
    hit_impl = set()
    for t, (spec, o, d) in enumerate(zip(case["turns"], obs.turns, dry.turns)):
        what = f"{what0}, turn {t}"
        # (i) generate returns
        if o.get("hang"):
            at = [e["action"] for e in o["trace"] if e.get("verdict") == "raise"]
            if not at and first_fault_turn is None:
                raise RuntimeError(f"harness: {what}: generate did not return within {o['hang']} s although no fault was injected so far")
            why = f"after the action {at[-1]} ({impls.get(at[-1], '?')}) raised {case.get('exc', 'message')!r}" if at else f"in a turn without a fault, after the fault(s) of turn(s) {faulted_turns}"
            raise Violation(
                "generate-hangs",
                f"{what}: generate did not return within {o['hang']} s (a turn normally takes well under 1 s) {why}",
                _detail(cfg, plan, t, impl=impls.get(at[-1]) if at else None),
            )
        if o["raised"]:
            raise Violation("generate-raised", f"{what}: generate raised {o['raised'][:300]}", _detail(cfg, plan, t))
        rep = o["reply"]
        if not isinstance(rep, dict) or "content" not in rep:
            raise Violation("generate-raised", f"{what}: generate returned {rep!r} instead of a message"[:400], _detail(cfg, plan, t))
        text = pipeline.reply_text(o)
        excs = pipeline.reply_exceptions(o)
        faults = [e for e in o["trace"] if e.get("verdict") == "raise"]
        if not faults:
            # (iii) a turn without a fault is processed exactly like the same turn of the fault-free conversation
            same = _rail_sig(o) == _rail_sig(d) and _norm_reply(o) == _norm_reply(d)
            if first_fault_turn is None:
                if not same:
                    raise RuntimeError(f"harness: {what} precedes every fault but differs from the dry run: {_rail_sig(o)} / {_rail_sig(d)}; {_norm_reply(o)} / {_norm_reply(d)}")
                continue
            count("next-turn-compared")
            src = spec.get("repeat_llm")
            if src is not None and src in faulted_turns and set(dry.session.message_texts.get(t, [])) & set(dry.session.message_texts.get(src, [])):
                # the LLM text of this fault-free turn is the one it had for the faulted turn: it is checked material again
                labels.add("repeated-llm-text-after-faulted-turn")
                count("fault.llm-text-repeated-in-later-turn")
                if src in out_fault_turns:
                    labels.add("text-of-failed-output-rail-comes-back")
                    count("fault.output-rail-text-comes-back")
                    if any(e["cat"] == "out" and e.get("verdict") in ("reject", "rewrite") for e in d["trace"]):
                        labels.add("text-of-failed-output-rail-comes-back-and-must-be-blocked-or-rewritten")
                        count("fault.output-rail-text-comes-back.must-block-or-rewrite")
            if t == first_fault_turn + 1 or (faulted_turns and t == faulted_turns[-1] + 1):
                labels.add("turn-after-fault-compared")
            if not same:
                stale = _stale_context_signature(cfg, d, o)
                # signature of C03-F17: after a failed retrieval-rail action the turn ends in the internal-error message
                # although nothing failed in it (the shipped retrieve_relevant_chunks raises on `$relevant_chunks = None`)
                chunks_none = bool(v == 1 and "retrieval-rail" in classes_hit and INTERNAL_ERROR in text and not stale)
                # signature of C03-F18: Colang 2.x `llm continuation` + rail exceptions: the aborted `_bot_say` never finishes,
                # `$bot_talking_state` stays True and every later user utterance is ignored (no LLM call, empty reply)
                silent = bool(v == 2 and cfg["dialog"] == "llmc" and cfg["exc"] and "output-rail" in classes_hit and not text.strip() and not o["llm"] and not excs)
                kind = "later-turn-refused-after-fault" if stale else "later-turn-ignored-after-fault" if silent else ("later-turn-rails-differ" if _rail_sig(o) != _rail_sig(d) else "later-turn-reply-differs")
                raise Violation(
                    kind,
                    f"{what} (no fault in this turn, faults hit turn(s) {faulted_turns}): rail trace {_rail_sig(o)} reply {_norm_reply(o)!r}; "
                    f"the fault-free conversation has rail trace {_rail_sig(d)} reply {_norm_reply(d)!r} in this turn"[:900],
                    _detail(cfg, plan, t, stale_context=stale, internal_error_after_retrieval_fault=chunks_none, bot_talking_state_stuck=silent, faulted_turns=list(faulted_turns)),
                )
            continue

        # ---- a turn hit by at least one fault -------------------------------------------------------
        if first_fault_turn is None:
            first_fault_turn = t
        faulted_turns.append(t)
        reached += len(faults)
        in_reply = fakes.lineage(text)
        generated = pipeline.generated_texts(o)
        out_entries = [e for e in o["trace"] if e["cat"] == "out"]
        acceptable = [INTERNAL_ERROR]
        acceptable_exc = []
        needs_refusal = False
        for fe in faults:
            cls = _site_class(fe)
            classes_hit.add(cls)
            labels.add(f"fault-in-{cls}")
            labels.add(f"{ver}-fault-in-{cls}")
            count(f"fault.{ver}.{cls}")
            how = impls.get(fe["action"], "async")
            labels.add(f"fault-in-impl={IMPL_KINDS[how]}")
            count(f"fault.impl.{how}")
            hit_impl.add(how)
            # is the action that failed here needed again in a later turn of the fault-free conversation (the failure must not have
            # changed what is registered under its name), and does it have to block / rewrite there?
            again = [e for e in dry.session.trace if e.get("action") == fe["action"] and e["turn"] > t and e.get("via") == "action"]
            if again:
                strict = any(e.get("verdict") in ("reject", "rewrite") for e in again)
                labels.add("faulted-action-needed-again-in-later-turn")
                count("fault.action-needed-again-later")
                if strict:
                    labels.add("faulted-action-must-block-or-rewrite-in-later-turn")
                    count("fault.action-must-block-or-rewrite-later")
                if how in CONFIGURED_KINDS:
                    labels.add("configured-instance-faulted-then-needed-again")
                    count(f"fault.impl.{how}.needed-again-later")
                    if strict:
                        labels.add("configured-instance-faulted-then-must-block-or-rewrite")
                        count(f"fault.impl.{how}.must-block-or-rewrite-later")
            if t >= 1:
                labels.add("fault-in-turn>=2")
                labels.add(f"{ver}-fault-in-turn>=2")
                count("fault.turn>=2")
            if t == len(case["turns"]) - 1:
                labels.add("fault-in-last-turn")
            if fe["cat"] in ("in", "out"):
                kind = cfg[fe["cat"]][fe["idx"]]
                acceptable.append(refusal_text(fe["cat"], fe["idx"], kind))
                acceptable_exc.append(block_message(fe["cat"], fe["idx"], kind))
            if fe["cat"] == "out":
                guarded = fakes.lineage(fe["text"])
                if not guarded:
                    labels.add("output-rail-fault-on-non-llm-text")
                    continue
                needs_refusal = True
                out_fault_turns.add(t)
                labels.add("output-rail-fault-on-llm-text")
                # (ii) the text the failed action was guarding is withheld
                for ln in guarded:
                    if ln in in_reply:
                        raise Violation(
                            "unchecked-llm-text-in-reply",
                            f"{what}: output-rail action {fe['action']} raised while checking the LLM text {fakes.mk_llm(*ln)}, the reply still carries it: {text[:160]!r}",
                            _detail(cfg, plan, t, site=cls),
                        )
            elif fe["cat"] == "in":
                needs_refusal = True
                later_llm = [c["task"] for c in o["llm"] if c["task"] in GENERATION_TASKS and c["seq"] > fe["seq"]]
                if later_llm:
                    raise Violation(
                        "llm-call-after-failed-input-rail",
                        f"{what}: input-rail action {fe['action']} raised, the LLM was still called for {later_llm}",
                        _detail(cfg, plan, t, site=cls),
                    )
                if any(e["cat"] == "dialog" and e["seq"] > fe["seq"] for e in o["trace"]):
                    raise Violation("dialog-step-after-failed-input-rail", f"{what}: input-rail action {fe['action']} raised, a dialog action still ran on the message", _detail(cfg, plan, t, site=cls))
                if in_reply:
                    raise Violation("llm-text-after-failed-input-rail", f"{what}: input-rail action {fe['action']} raised, the reply carries LLM text: {text[:160]!r}", _detail(cfg, plan, t, site=cls))
        # (ii, all site classes) never unchecked LLM text: whatever LLM text is in the reply passed the whole output chain
        want_chain = [f"out{i}" for i in range(len(cfg["out"]))]
        for ln in in_reply:
            if ln not in generated:
                raise Violation("foreign-llm-text-in-reply", f"{what}: the reply carries LLM text {ln} that was not generated in this turn: {text[:160]!r}", _detail(cfg, plan, t))
            entries = [e for e in out_entries if ln in fakes.lineage(e["text"])]
            ran = [e["rail"] for e in entries if e.get("verdict") in ("accept", "rewrite")]
            bad = [f"{e['rail']}:{e.get('verdict')}" for e in entries if e.get("verdict") not in ("accept", "rewrite")]
            if bad or [r for r in want_chain if r not in ran]:
                raise Violation(
                    "unchecked-llm-text-in-reply",
                    f"{what} (fault in {[fe['action'] for fe in faults]}): the reply carries the LLM text {fakes.mk_llm(*ln)} but the output rails that approved it are {ran} "
                    f"(not approving: {bad}), configured chain {want_chain}; reply {text[:160]!r}",
                    _detail(cfg, plan, t, site=_site_class(faults[0])),
                )
        # (ii) the reply of a turn whose rail failed is a refusal or the fixed internal-error message
        if needs_refusal:
            has = any(a in text for a in acceptable) or any(e.get("message") in acceptable_exc for e in excs)
            if not has:
                raise Violation(
                    "no-refusal-after-failed-rail",
                    f"{what}: rail action(s) {[fe['action'] for fe in faults]} raised; the reply is neither the rail's refusal / rail exception nor the internal-error message: {rep!r}"[:700],
                    _detail(cfg, plan, t, site=_site_class(faults[0])),
                )
            if INTERNAL_ERROR in text:
                labels.add("reply=internal-error")
            elif excs:
                labels.add("reply=rail-exception")
            else:
                labels.add("reply=rail-refusal")
        else:
            labels.add("reply-after-non-rail-fault=" + ("internal-error" if INTERNAL_ERROR in text else "llm-text" if in_reply else "empty" if not text.strip() else "other"))
    if reached < len(plan):
        labels.add("second-fault-not-reached" if reached else "fault-not-reached")
        count("plans.with-unreached-site")
    if len(faulted_turns) >= 2:
        labels.add("faults-in-two-turns")
    elif reached >= 2:
        labels.add("two-faults-in-one-turn")
    rail_hit = any(lab.startswith("fault-in-input-rail") or lab.startswith("fault-in-output-rail") for lab in labels)
    return {"labels": labels, "counters": counters, "rail_hit": rail_hit, "reached": reached, "faulted_turns": faulted_turns, "hit_impl": hit_impl}


def _plan_view(obs, plan, info):
    out = {"plan": plan, "turns": []}
    for o in obs.turns:
        rep = o["reply"]
        out["turns"].append(
            {
                "rail_calls": [f"{e['rail']}:{e.get('verdict')}" for e in o["trace"]],
                "llm_tasks": [c["task"] for c in o["llm"]],
                "reply": o["raised"][:120] if o["raised"] else (str(rep.get("content"))[:120] if isinstance(rep, dict) else None),
                "exceptions": [e.get("type") for e in pipeline.reply_exceptions(o)],
            }
        )
    return out


def prop(case):
    cfg = case["config"]
    v = cfg["v"]
    dry = _run(case, [])
    for t, o in enumerate(dry.turns):
        if o.get("hang"):
            raise RuntimeError(f"generate did not return within {o['hang']} s in turn {t} of the fault-free run")
        if o["raised"]:
            if pipeline.EVENT_BUDGET in o["raised"]:
                return ok(skip="v1 runtime gave up in the fault-free run: more than 100 new events in one turn (documented safety limit)", labels=["event-budget-exceeded"])
            # the degenerate instance of the statement (no action fails at all): generate must return normally all the more
            raise Violation("generate-raised-without-any-fault", f"v{v} turn {t} of the fault-free conversation (actions implemented as {impl_by_action(cfg)}): generate raised {o['raised'][:300]}")
    if any(e.get("verdict") == "raise" for e in dry.session.trace):
        raise RuntimeError("harness: fault in the dry run")
    sites = _sites(dry)
    plans = _plans(case, sites)
    labels = {f"v{v}", ("llm-continuation" if cfg["dialog"] == "llmc" else "dialog") if cfg["dialog"] else "general-mode", f"turns={len(case['turns'])}", case.get("api", "sync")}
    labels.add("plans=" + (case.get("plans", "singles") if isinstance(case.get("plans", "singles"), str) else "explicit"))
    if cfg["exc"]:
        labels.add("rails-exceptions")
    # the runner keeps the 60 most frequent labels: the family is a label, the kind within it a counter (cases.raises.<kind>)
    labels.add("raises-family=" + EXC_FAMILY[case.get("exc", "message")])
    if v == 2:
        labels.add("v2-" + cfg.get("style", "config"))
    if cfg.get("ret"):
        labels.add("retrieval-rail")
    # how the custom actions of the configuration are implemented (family = label, kind = counter, like the exception)
    impls = impl_by_action(cfg)
    labels |= {"impl=" + IMPL_KINDS[k] for k in impls.values()}
    labels.add("impl:all-async-def" if set(impls.values()) == {"async"} else "impl:mixed")
    if any(any(x != "accept" for x in spec.get("in", []) + spec.get("out", [])) for spec in case["turns"]):
        labels.add("conversation-with-reject-or-rewrite")
    if any(spec.get("repeat_llm") is not None for spec in case["turns"]):
        labels.add("llm-repeats-text-of-previous-turn")
        prev_strict = [t for t, spec in enumerate(case["turns"]) if spec.get("repeat_llm") is not None and any(x != "accept" for x in case["turns"][t - 1].get("out", []))]
        if prev_strict:
            labels.add("llm-repeats-text-of-a-turn-with-strict-output-verdict")
        if any(spec.get("umark") is not None for spec in case["turns"]):
            labels.add("user-repeats-question-verbatim")
    else:
        labels.add("llm-text-fresh-in-every-turn")
    counters = {"plans": 0, "plans.single": 0, "plans.pair": 0, "sites": len(sites), "runs": 1, "turns-executed": len(case["turns"]), "cases.raises." + case.get("exc", "message"): 1}
    for k in impls.values():
        counters["actions.impl." + k] = counters.get("actions.impl." + k, 0) + 1
    nt = False
    views = []
    hit_impl = set()
    for plan in plans:
        obs = _run(case, plan, dry=dry)
        try:
            info = _judge(case, dry, obs, plan)
        except Violation as first:
            # instance reuse must not be able to fabricate a finding: confirm on fresh LLMRails instances; a generate call
            # that ran into its deadline is repeated there (same history) with three times the limit
            hang = first.kind == "generate-hangs"
            dry2 = _run(case, [], fresh=True)
            try:
                _judge(case, dry2, _run(case, plan, fresh=True, dry=dry2, limit=GENERATE_LIMIT_CONFIRM if hang else GENERATE_LIMIT), plan)
            except Violation:
                raise
            if hang:
                # slow, not stuck (machine load): the statement is about returning, not about speed - counted, not reported;
                # the repeated run is the one that is judged
                counters["generate-calls-over-limit-not-confirmed"] = counters.get("generate-calls-over-limit-not-confirmed", 0) + 1
                labels.add("generate-call-over-limit-not-confirmed")
                continue
            raise RuntimeError(f"harness: violation seen only on a reused LLMRails instance, not on fresh ones: {first}")
        counters["plans"] += 1
        counters["plans.single" if len(plan) == 1 else "plans.pair"] += 1
        counters["runs"] += 1
        counters["turns-executed"] += obs.executed
        for k, n in info["counters"].items():
            counters[k] = counters.get(k, 0) + n
        labels |= info["labels"]
        hit_impl |= info["hit_impl"]
        if info["rail_hit"]:
            nt = True
            counters["plans.nontrivial"] = counters.get("plans.nontrivial", 0) + 1
        if len(plan) == 2 and info["reached"] == 2:
            labels.add("pair-both-faults-reached")
        if len(views) < 3 and info["reached"] and (len(views) == 0 or info["faulted_turns"][0] >= 1):
            views.append(_plan_view(obs, plan, info))
    if not plans:
        labels.add("no-call-site")
    # the product implementation family x exception family, counted once per case in which such a fault was executed
    for fam in sorted({IMPL_KINDS[k] for k in hit_impl}):
        counters[f"cases.fault.{fam}.raises.{EXC_FAMILY[case.get('exc', 'message')]}"] = 1
    view = {"dry_run": pipeline.view(case, dry), "sites": sites, "plans_run": len(plans), "sample_plans": views}
    return ok(nt=nt, labels=sorted(labels), view=view, counters=counters)


def known(case, violation):
    """C03-F16 (Colang 1.0): after a faulted turn that `hide_prev_turn` removed from the history, a check rail whose action
    returns the same value as in the hidden turn creates no ContextUpdate event; the flow state rebuilt from the trimmed history
    has no `$allowed`, so every later turn is refused right after that rail accepted."""
    d = violation.detail or {}
    if violation.kind == "later-turn-refused-after-fault" and d.get("v") == 1 and d.get("stale_context"):
        return "C03-F16"
    # C03-F17 (Colang 1.0, no knowledge base): a failed retrieval-rail action leaves `$relevant_chunks = None`; the shipped
    # `retrieve_relevant_chunks` then raises (None + "\n") in every later turn, which is answered with the internal-error message.
    if violation.kind in ("later-turn-rails-differ", "later-turn-reply-differs") and d.get("v") == 1 and d.get("internal_error_after_retrieval_fault"):
        return "C03-F17"
    # C03-F18 (Colang 2.x, `llm continuation`, enable_rails_exceptions): an output rail that blocks (or whose action fails) aborts
    # `_bot_say`; core.co `tracking bot talking state` waits for `bot said something` only, `$bot_talking_state` stays True and
    # `generating user intent for unhandled user utterance` aborts on every later utterance.  (A plain rejection does the same.)
    if violation.kind == "later-turn-ignored-after-fault" and d.get("v") == 2 and d.get("bot_talking_state_stuck"):
        return "C03-F18"
    return None
