"""C15 - conversations served by one LLMRails instance do not influence each other.

Oracle (both legs): differential against an *isolated replay*.  Every conversation is first run alone on a fresh
LLMRails instance; then all conversations are served by ONE shared instance (in a generated sequential interleaving,
or as concurrent asyncio tasks on a virtual-time loop) and every turn must give the same value returned by
`generate`/`generate_async` (message, and - where the conversation asked for them - the generation log, the streamed
chunks), the same prompts and the same LLM parameters observed by the LLM object at call start and call end.
Invariant: whenever the harness sees no request in flight the LLM object's parameters equal the configured ones.

The LLM is a *pure function of the prompt* (`DigestSession.llm_answer`: the user intent is chosen by a digest of the last
user text in the prompt, every generated text by a digest of the whole prompt; about a third of the generated bot texts come
from the same collision-prone alphabet as the user texts), the fake rails are pure functions of the text they are given, so
"the LLM's answers to the prompts built from them" is well defined and any difference between the two runs is
cross-conversation influence.

Leg "seq" (DESIGN 4/C15 a)
    2-4 conversations; texts are built from a collision-prone alphabet (`a`, `b`, `a:b`, `:`, `b:`, JSON-looking strings,
    the predefined bot message) plus *references* resolved by the harness from the isolated replays: ["ref", j, k] = the reply
    conversation j got in its turn k, ["key", j, k] = the ':'-joined transcript of conversation j up to that reply.
    A conversation may start with a supplied history (user / assistant / context messages), so assistant-role messages can
    spell other conversations' user turns.  Full message histories are passed every turn, as a stateless server would.
    Conversations carry their own generation options (none at all - then no `options` argument is passed -, `llm_params`, log).
    Call modes ("api"): "sync" = `generate`, "async" = one `run_until_complete(generate_async)` per turn (both: every call runs
    in a fresh copy of the caller's context), "onecoro" = all turns of the interleaving are awaited one after the other inside
    ONE coroutine, as an async handler or batch script does, so whatever a call leaves in the context variables
    (generation options, streaming handler, explain info) is visible to the next call.
    A harness-side model of the events cache (exact message lists next to their ':'-joined keys) labels the cases and gives the
    *signature* of a cache-key collision: the request found, under the ':'-joined key of one of its proper prefixes, an entry
    that was stored for a different message list.  It is not part of the oracle.
    Not judged: a conversation whose supplied history is *exactly* (roles and contents) the transcript another conversation
    produced on the instance - for the instance that is the same conversation being continued (the documented purpose of the cache).

Leg "conc" (DESIGN 4/C15 b)
    2-5 conversations (unique texts, so no cache sharing) run as asyncio tasks on one instance under `vclock.VirtualLoop`,
    with generated start offsets, per-call LLM latencies, per-conversation `llm_params` (temperature / max_tokens) passed
    through generation options, log / streaming requests, and an LLM object that keeps its parameters either in real fields
    (`temperature`, `max_tokens`) or in `model_kwargs`.

    The case feature "between" (a quarter of the generated cases: 3 / 8 / 40 / 135 of them; enumerated family "many
    conversations in between": 140-300 between two turns of a multi-turn conversation on a dialog-rails configuration) serves
    that many single-turn conversations of other users (unique texts, no options) on the shared instance after a given step of
    the interleaving; the first and the last of them are judged like every other conversation.

Leg "conc" also has the parameter shape "disjoint" (a third of the cases that use llm_params, plus an enumerated family): the
    request whose `with llm_params` block is entered first alters nothing or one parameter, a request entered while that block
    is open alters only the other one.

Configuration mode "multi-step generation" of the legs "seq" and "conc" (cfg {"dialog": True, "ext": "c15-ms", "ms": policy};
    a third of the generated cases on a dialog-rails configuration, plus the enumerated family "generated flow bodies")
    `enable_multi_step_generation: True`: for a user intent no flow handles the LLM's generate_next_steps answer is a flow
    BODY, which the runtime parses, adds to the instance under a fresh id and starts.  Half of the intents the LLM picks in
    this mode are unhandled ones.  The body is a pure function of the prompt, shaped by the case's policy "ms": `bodies` = size
    of the pool of bodies (1 / 2 / 3 / 6: one to three bot steps, predefined and LLM-generated messages), `by` = what selects
    the body - "intent": the last user intent in the prompt (the same kind of request gets the same body, whoever asks),
    "prompt": a digest of the whole prompt (the shipped template shows intents, not texts, so first turns with the same intent
    still agree) -, `span`/3 = share of bodies that go on after a wait for a later user turn (`user ...` or a named intent), i.e.
    are still running when the turn ends.  So the instance starts the SAME body for several conversations, before / between /
    during the turns of a conversation whose own generated flow is waiting.  Oracle unchanged (isolated replay).

    Policy `inline`/3 (+ `iseed`): that share of the LLM's next-steps answers carries the MESSAGE of (about three in four of)
    its bot steps inline - `bot <intent>` followed by an indented quoted text, the form the shipped prompt's examples show -
    also for bot intents the configuration has no message for.  Which answers, and the text, are functions of what selects
    the body: another kind of request / another history gets another text or none, so one conversation is handed a text
    for a bot intent that a conversation served later comes to without one (or with its own, or through a configured flow).
    Enumerated family "inline bot messages" (A, then B; A1 B1 A2).

Configuration dimension "max_length" of legs "seq" and "conc" (cfg key "maxlen": {task: characters}, ext "c15-ml" or, together with
    multi-step generation, "c15-ms"): the shipped template of the task is configured again with a lowered `max_length`, so that
    the renderer's overflow handling - events are dropped from the START of the history until the prompt fits - is reached after
    a few turns.  Conversation spec key "pad": n makes every user text of the conversation long (n items appended).  A fifth
    of the ordinary sequential cases, about a sixth of the concurrent ones, the sequential shape "overflow in between" (a
    seventh of the sequential cases: B short, A long, B.. | all of A | B.. or A.. B.. or drawn) and the enumerated family of the
    same name.  B's prompts and replies must equal those of B served alone, where the renderer drops nothing or only what B's
    own length makes it drop.  Oracle unchanged.

Option shape "rail name lists" (spec key "rails": {"in" | "out" | "ret": [indices of configured rails]} -> options.rails.input /
    output / retrieval = lists of rail NAMES, the documented form of GenerationRailsOptions) on configurations with several
    rails per category (RL_CFGS): an eighth of the ordinary sequential cases; a quarter of the concurrent cases, where the request
    with the lists has a slow first LLM call and a request without any rails option starts while it is in flight; enumerated
    family "rail name lists in flight".  Oracle unchanged: every request - in particular the one without options - must run as
    when served alone, i.e. with its full configured rails.

Shape "separator shift" of leg "seq" (a seventh of the generated sequential cases + enumerated family "separator shift")
    Two conversations X, Y with the same role pattern whose transcripts have, turn by turn, the same ':'-joined text and
    differ only in WHERE a ':' is a message boundary between a user text and the bot's reply (`a:b` -> `c` vs `a` -> `b:c`;
    one or two such turns, either direction, in the first or a later turn), followed by 0-2 turns that are the same in both
    (with or without ':' in them) and by turns of their own; schedules "X's common turns, Y's turns (Y stored its history
    last), X goes on", the mirror image, or a drawn interleaving; optionally a third ordinary conversation.  For that the bot
    texts must be constructible: the case carries a table "replies" {user text: bot text} and the LLM's message for a prompt
    whose last user text is in the table is the table's text (general mode: the reply itself; dialog rails: the generated bot
    message; there a second table "intents" {user text: user intent} names the intent the LLM picks for these texts - one
    that is answered by a single LLM-generated message) - still a pure function of the prompt, the same in both runs;
    everything else stays digest-driven.  Only a
    user->bot boundary can move (after identical histories a pure LLM says the same).  The same relation is also generated
    through supplied histories: a third of the re-spelled transcripts get one or two boundaries MOVED across a ':' (half of
    them with nothing else changed, mostly under the other conversation's options).  Labels: a key-function independent model
    says whether a request's proper prefix spells (same ':'-joined text) a different message list another conversation was
    served before, with the same roles or not, and whether that list was stored after this conversation's previous turn.

Case dimension "LLM errors" of leg "seq" (case key "err": {"tasks": [...]}, conversation spec key "boom": [turns]; a fifth of the
    ordinary sequential cases + enumerated family "failed LLM call").  The provider fails - the fake LLM raises ProviderError instead
    of completing - for a prompt of one of the named tasks whose current user text carries ERR_MARKER: a pure function of the
    prompt, so the request fails in the isolated replay as well.  The tasks are the `with llm_params(...)` sites of a Colang 1.0
    turn (self check input / output, intent generation, bot message, the general call with an llm_params option).  The other
    conversations are served after / between the failed requests.  Oracle unchanged: parameters at rest after every turn
    (the failed one included), parameters of every later call vs the isolated replay.

Configuration dimension "context variable in a predefined message" of leg "seq" (cfg key "greetvar", ext "c15-gv" or one of the other
    two; a sixth of the ordinary sequential cases with dialog rails + enumerated family of the same name).  The predefined greeting is
    "... dear $user_name!"; some conversations supply user_name in a context message, others do not, and about half of the
    turns ask for the greeting.  The isolated replays must not depend on what was served before in the worker process (earlier
    cases, the other replays): class Canary - a throw-away instance serves a conversation with a name of its own right
    before every isolated replay and right before the shared run.

Leg "v2" (Colang 2.x, `import llm` / `activate llm continuation`, cfg {"v": 2, "dialog": "llmc"})
    2-3 conversations of 1-2 turns; every call passes the new user message and the state object returned by the previous call
    ({} on the first turn).  The LLM (pure function of the prompt, parameterised by the case's "llmc" policy) picks the user
    intent, names a bot intent and a bot action: `bot say "..."`, a flow the configuration defines, or - `undef`/3 of the
    answers - a bot flow that is NOT defined, which makes the library ask the LLM to write `flow <name>` and add it with
    AddFlowsAction (`multi`/3 of these bodies wait for the next user utterance, i.e. are still running when the turn ends).
    `names` = 0: the undefined name derives from the user's own text (unique per conversation); 1-3: it comes from a pool of
    that size, so two conversations make the instance add a flow under the same name.  Modes: "seq" (a generated interleaving,
    sync / async / one coroutine) and "conc" (asyncio tasks under the virtual loop, latencies on a coarse grid so that LLM calls
    of different tasks end at the same virtual instant).  Same differential (role + text of the returned messages, prompt
    multiset, LLM parameters).  A conversation for which the LLM wrote a waiting flow is left by its caller after that
    turn (the waiting flow and the library's reaction to the next utterance race even when the conversation is served alone -
    probed - so later turns cannot be compared; what matters for the OTHER conversations is that the flow is still there).

The defect model (class DefectModel, function `known`).  Findings C15-F9b / C15-F9c are open; instead of a loose signature the
    module carries an executable statement of exactly these two defects (save-on-enter / restore-on-exit of LLMParams, with the
    None it writes for an unconfigured model_kwargs entry) and runs it over the schedule of `with llm_params` blocks it
    recorded for the case (a probe around LLMParams.__enter__/__exit__ notes tick, LLM object, requested parameters and the
    conversation in charge, then calls the repository's code unchanged).  A parameter observation that departs from the
    isolated replay is set aside as a listed finding only if every judged conversation opened the same blocks as in its
    isolated replay AND the observed value is exactly what the model predicts for that instant; everything else - e.g. a
    parameter left altered where the unchanged code restores it - is a violation.

Reporting.  Every departure found in a case is collected; the one raised is the first that does NOT carry the signature of a
finding listed open on the unchanged tree (see `known`), so a listed finding cannot hide anything else.  Violation kinds are root-cause
buckets computed from the observations: `cache-key-collision` (divergence at/after a request that the cache model flags),
`seq-<what>` / `conc-<what>` (divergence of reply / prompts / returned-log / stream with no such signature), `llm-params-leak`
(parameter at call start), `llm-params-changed-during-call` (at call end), `llm-params-not-restored` and
`llm-params-none-left-in-model-kwargs` (parameters at rest).  Overlap of LLM calls is measured in *ticks* (the order of the
harness's observation points), which refines virtual time: LangChain's agenerate yields to the loop even with zero latency.
A violation is re-checked by running the whole case a second time from scratch (same kind required, else harness error).

Nothing here edits vf.fakes / vf.pipeline; the module subclasses `Session`, `ScriptedLLM` and `Pipeline` (leg v2 uses the
existing cfg {"v": 2, "dialog": "llmc"} of vf.pipeline as it is; multi-step generation is switched on through the existing
opt-in extension point `pipeline.register_extension`, under the name "c15-ms").
"""
import asyncio
import hashlib
import json
import re
from collections import Counter, defaultdict
from typing import Any, Dict, List, Optional

from hypothesis import strategies as st
from langchain_core.language_models.llms import LLM

from vf import fakes, pipeline, vclock
from vf.core import Violation, ok

import nemoguardrails  # noqa: F401,E402  (multi-second import: at module import time, never under the case watchdog)
from nemoguardrails.rails.llm.options import GenerationOptions  # noqa: E402
from nemoguardrails.streaming import StreamingHandler  # noqa: E402

PID = "C15"
LEVEL = "exploration"
CASE_TIMEOUT = 60
HANG_IS_VIOLATION = False
WALL = {"quick": 130, "thorough": 1400}
MAX_STEPS = 400_000
RULE = (
    "three legs: seq and conc 4/9 of the generated cases each, v2 1/9, plus twelve enumerated families. "
    "Shape ':'-FREE JSON TEXT / EMPTY CONTEXT of leg seq (an eighth of the generated seq cases; also: the empty object {} is one of the context contents of every supplied history): conversation A either begins with the EMPTY "
    "context message {role: context, content: {}} (2/3) or has the first user text '{}' / '[]' / '{ }' (1/3; '{}' 3/5) - the JSON texts without ':' - followed by 1-3 (+0-1 later) turns of distinct ':'-free tokens with replies from the "
    "case table; conversation B arrives with a client-supplied history that re-spells A's transcript after a drawn turn: every role swapped, the context message as its JSON text in a user message - or, the other way round (respell "
    "key 'ctx'), a leading text that is the JSON text of an object as the context message it spells - optionally one more assistant message, then 1-2 turns of its own; schedule A.. | B.. | A goes on (3/4) or drawn; optional third "
    "ordinary conversation; half in general mode, half on any configuration; enumerated family of the same name (both forms, general mode / dialog rails - quick 3 cases, thorough 36 over texts x lengths x configuration). Oracle unchanged (differential + cache model). "
    "LLM variant DECLARED PARAMETER CONFIGURED AS None (llm = opt0/opt1/opt2, a quarter of the LLM draws of the seq / conc legs): temperature / max_tokens are declared fields of the LLM object of which max_tokens / temperature / both "
    "are configured as None (Optional field, the provider's 'unset'), next to a model_kwargs dict ({} or {top_p}); a call runs with the model_kwargs entry of a parameter if there is one, else with the field; two thirds of the seq cases "
    "with such an LLM have a conversation whose options.llm_params names a None-configured parameter (the tasks' own llm_params(temperature=...) of dialog rails / self-check reach an unset temperature without any option); enumerated "
    "family of the same name (A with llm_params, B without, A1 B1 A2 B2; general mode / dialog rails - quick 3 cases, thorough 27). Oracle unchanged: parameters at rest (attributes AND model_kwargs) = configured after every turn, call parameters vs isolated replay. "
    "Case dimension LLM ERRORS of leg seq (a fifth of the ordinary seq cases): the provider FAILS (the fake LLM raises instead of completing) for the prompts of 1-2 drawn tasks of the configuration - general, "
    "generate_user_intent, generate_bot_message, self_check_input, self_check_output: every `with llm_params` site of a Colang 1.0 turn whose prompt shows the current user text - when that text carries a marker; 1-2 "
    "conversations have 1-2 such turns (spec key 'boom'), so a request fails inside a parameterised call (generate raises LLMCallException, the same in the isolated replay) before / between the turns of the other "
    "conversations of the drawn interleaving; enumerated family 'failed LLM call' (A's turn fails in self-check input / intent generation / self-check output / bot message / general call with llm_params option, then B, "
    "A goes on; A1 B1 A2 B2 and A A B B - quick 3 cases, thorough 90 over LLM variant x call mode). Oracle unchanged: parameters at rest after EVERY turn incl. the failed one, and every later call's parameters vs the isolated replay. "
    "Configuration dimension CONTEXT VARIABLE IN A PREDEFINED MESSAGE of leg seq (cfg key 'greetvar'; a sixth of the ordinary seq cases that have dialog rails): the predefined greeting refers to $user_name; about half of the "
    "conversations supply the variable in a context message (each its own value), about half of all turns are texts the prompt-pure LLM reads as a request answered by the greeting (flows greeting / joke, via the case table "
    "'intents'), so a conversation WITHOUT the variable reaches the message after / between the turns of conversations WITH it; enumerated family of the same name (all of A then all of B / A1 B1 A2 B2 / three conversations with "
    "two names / B first - quick 2 cases, thorough 24). In these cases a throw-away instance of the same configuration serves a canary conversation (its own user_name) immediately before every isolated replay and before the "
    "shared run, so that the replays do not depend on what other instances did earlier in the worker process. "
    "Configuration dimension MAX_LENGTH of the Colang 1.0 legs (a fifth of the ordinary seq cases, the seq shape 'overflow in between' = a seventh of the seq cases, about a sixth of the conc cases): the shipped "
    "template of general / generate_user_intent / generate_next_steps / generate_bot_message (1-3 of the dialog tasks) is configured again with a lowered max_length (general 420/480/600, user intent 2800/3000, "
    "next steps 1200/1260, bot message 3150/3350 characters - a few turns above the size of the prompt without history), so the renderer drops events from the start of the history; conversations of LONG messages "
    "(every user text padded with 5-12 items, up to 5 turns) overflow after 2-4 turns, conversations of short texts fit or overflow late by themselves. Shape 'overflow in between': B 2-4 short turns, A 2-5 long turns, "
    "optional third conversation, schedule B.. | all of A | B.. (1/2), all of A then all of B (1/4), drawn (1/4); enumerated family 'overflow in between' (B1 B2 | A1..A4 | B3 and A.. B.. over general mode / dialog "
    "rails x limit x call mode - quick 3 cases, thorough 33). "
    "Option shape RAIL NAME LISTS (an eighth of the ordinary seq cases, a quarter of the conc cases; configurations with 2-3 input rails, 0-2 output rails, 0-2 retrieval rails of kinds check/rewrite/self): a request passes "
    "options.rails.input/output/retrieval as a LIST of configured rail names (any sub-list incl. the empty and the full one, 3/4 leaving out a configured rail); conc: that request A starts at 0 with a slow first LLM call "
    "(0.3-1.0 virtual s), request B without rails option (no options at all, or log / llm_params only) starts 0.01-0.2 s later, further tasks as drawn; enumerated family 'rail name lists in flight' (B's text is one that a rail "
    "left out by A's lists rewrites or refuses, a third request on the idle instance afterwards - quick 3 cases in general mode, thorough 18 incl. dialog rails, self-check, retrieval rails, B with log). "
    "seq: Colang 1.0 config (dialog rails on ~75%, 0-1 input rail of check/rewrite/shipped "
    "self-check, 0-1 output rail; LLM parameters in real fields or in model_kwargs; configuration mode MULTI-STEP GENERATION in a third of the seq / non-quiet conc cases with dialog rails: "
    "enable_multi_step_generation, half of the intents the LLM picks are handled by no flow, the generate_next_steps answer is then a flow BODY the runtime parses, adds and starts - a pure "
    "function of the prompt under a drawn policy: pool of 1/2/3/6 bodies of 1-3 bot steps, selected by the last user intent (same kind of request -> same body) or by the whole prompt, "
    "0/1/3 of 3 bodies (drawn from 0,1,3,3) continuing after a wait for a later user turn, 0-3 of 3 answers (drawn from 0,1,2,3,3; choice varied by a drawn seed) carrying the "
    "message of their bot steps INLINE (`bot <intent>` + indented quoted text, also for bot intents without configured message; text = function of what selects the body, so another "
    "kind of request / another history gets another text or none; enumerated family 'inline bot messages': A then B then a third user / A1 B1 A2 where B comes to the bot intent A was "
    "handed a text for - quick 2 cases, thorough up to 18); so the instance starts the same body for several conversations, also while an earlier conversation's generated flow is "
    "waiting; enumerated family 'generated flow bodies': same-intent conversations one after the other / A1 B1 A2 with waiting bodies / three conversations behind an input rail with "
    "prompt-selected bodies / three concurrent tasks - quick 4 cases, thorough 33) x 2-4 conversations of 1-3 turns; texts = 1-3 parts "
    "joined by ':' where a part is an atom of a collision-prone alphabet (a, b, a:b, ':', b:, JSON-looking strings, the predefined bot "
    "message) or a reference resolved from the isolated replays (the reply / the ':'-joined transcript of an earlier conversation); "
    "optional supplied history: user/assistant/context messages, or (2/3 of the later conversations) the transcript of an earlier "
    "conversation re-spelled - adjacent messages merged with ':', roles swapped, context turned into its JSON text, cut; optional "
    "per-conversation generation options (none at all, or llm_params temperature/max_tokens and/or log), in a third of the sequential cases one conversation is the twin of its predecessor (same messages, different options incl. rails switches), streaming requests; call "
    "a seventh of the generated seq cases have the shape SEPARATOR SHIFT PAIR: two conversations with the same role pattern built from distinct ':'-free tokens whose transcripts have "
    "turn by turn the same ':'-joined text and differ only in where a ':' is the boundary between a user text and the bot's reply ('a:b'->'c' vs 'a'->'b:c'; 1-2 turns, the boundary "
    "moved in one or two of them, either direction), then 0-2 turns that are the same in both (1/4 of their texts contain ':'), then 1-2 / 0-1 turns of their own; half in general mode, "
    "half on any configuration; schedule 'X common turns, Y all turns, X goes on' (1/2), its mirror image (1/4) or drawn; optional third ordinary conversation; the bot texts come "
    "from a case table {user text: bot text} the prompt-pure LLM consults for the last user text of a message-generating prompt (with dialog rails a second table names the intent it picks for these texts: one answered by a single generated message via flow / flow with action / next-step generation; else digest-driven as before); the same relation through "
    "supplied histories: a third of the re-spelled transcripts have 1-2 message boundaries moved across a ':' (half of them otherwise unchanged, 3/4 of those under the other conversation's "
    "options); enumerated family 'separator shift' (pair x boundary in first/second turn x direction x common tail; supplied history with a moved boundary, three variants - quick 4 cases, thorough 34). "
    "Call mode sync generate / one run_until_complete(generate_async) per turn / ALL turns awaited one after the other inside ONE coroutine "
    "(shared context, ~50%); a generated interleaving of all turns on ONE shared instance, full message histories passed every turn; in a quarter "
    "of the cases 3 / 8 / 40 / 135 single-turn conversations of other users (unique texts) are served between two steps of the interleaving "
    "(enumerated family 'many conversations in between': 140-300 of them between two turns of a 2-3 turn conversation on a dialog-rails "
    "configuration - quick 2 cases, thorough 18 over all dialog configurations x n in 130/200/300 x call mode). Each conversation is also replayed alone on a fresh instance; returned value (message, log, streamed "
    "chunks), per-turn prompt multiset and LLM parameters at call start/end must be equal, and the LLM object's parameters must be the "
    "configured ones after every turn. conc: 2-5 conversations (1-2 turns, unique texts) as asyncio tasks on one instance under a "
    "virtual-time loop with generated start offsets, per-call LLM latencies, per-task llm_params (temperature, max_tokens), log / "
    "streaming requests; same differential (calls compared in order) plus the configured-parameters invariant whenever no request is "
    "in flight; a third of the cases that use llm_params have the parameter shape 'disjoint' (the request whose block is entered first alters "
    "nothing or one parameter, a request entered while that block is open alters only the other one; also an enumerated family over general "
    "mode / dialog rails x LLM variant x parameter pair x which request ends first). While a finding is listed open, 3/4 of the conc cases come "
    "from the sub-domain that cannot trigger it (general mode, no self-check rail, no llm_params); the open findings C15-F9b/F9c are classified "
    "by an executable defect model run over the recorded schedule of `with llm_params` blocks: only an observation that equals the model's "
    "prediction exactly is set aside. v2: Colang 2.x with the library's llm continuation, 2-3 conversations of 1-2 turns passing the returned "
    "state object back, LLM policy drawn per case (share of answers naming an undefined bot flow 0-3/3, pool of such names: per-conversation, "
    "or - once finding C15-F23 is listed / VF_C15_V2_SHARED=1 - shared pool of 1-3, share of generated bodies that wait for the next user "
    "turn 0/1/3 of 3), sequential interleaving (sync/async/one coroutine) or concurrent tasks under the virtual loop with latencies on a "
    "coarse grid; same differential (returned message roles+texts, prompt multiset, LLM parameters); enumerated family of 2 (4) cases. "
    "Non-trivial: seq = a request finds, under the ':'-joined key of a proper prefix of its messages, "
    "an entry written by another conversation (identical prefix or colliding key), or overwrites another conversation's entry (harness "
    "model of the cache), or has a proper prefix with the same ':'-joined text and roles as a DIFFERENT message list another conversation was served before (key-function independent); conc = LLM calls of two different tasks overlap without nesting in the loop's order of call starts/ends "
    "(which refines virtual time); seq and conc in multi-step generation mode also: the instance started the same LLM-written flow body for two different conversations, or one conversation's body carried an inline text for a bot intent that another conversation came to later (with no / another text of its own); "
    "seq and conc with a lowered max_length also: a request was served after / between two turns of its conversation / while in flight ANOTHER conversation's prompt overflowed on the shared instance (observed by a counting probe around the renderer); "
    "conc with rail name lists also: a request without rails option was in flight together with a request whose lists leave out a configured rail; "
    "seq with LLM errors also: another conversation was served after a request whose LLM call failed; seq with the greeting that refers to $user_name also: a conversation without the variable got the greeting from the shared instance after one with it; "
    "v2 = LLM-generated flows were added for at least two conversations on the shared instance. Distinct by case hash; only cases on which the property held are counted."
)
ASSUMPTIONS = [
    "empty context / ':'-free JSON texts: a context message with an empty object and user texts such as '{}' are ordinary messages (the message format puts no constraint on them); a supplied history that has '{}' as a TEXT where another conversation had the empty CONTEXT message (or vice versa) is a different message list, hence a different conversation - only compared with its isolated replay",
    "LLM variant opt<n>: a declared field whose configured value is None is still an attribute of the LLM object - the unchanged tree's LLMParams sets and restores it as an attribute and never touches model_kwargs (observed: at rest max_tokens None, model_kwargs unchanged), which is what the statement's last sentence demands; the defect model of F9b treats these variants like the field variant (model_kwargs constant), F9c (an explicit None ADDED to model_kwargs, attributes unchanged) cannot arise and is not matched for them",
    "LLM errors: a provider failure is part of 'the LLM's answers to the prompts': the fake LLM raises for a prompt as a pure function of (case policy, task, prompt), so the same request fails alone and on the shared instance; what generate does with the failure (the unchanged tree raises LLMCallException to the caller) is not judged beyond the differential; the caller keeps the failed user message in the history it sends next, as it does in the isolated replay. That LLMParams restores the parameters when the call inside the block raises is the unchanged tree's behaviour and what the statement's last sentence demands (no request in flight -> configured parameters); the defect model of F9b/F9c treats a block's exit the same whether the body raised or not",
    "context variable in a predefined message: `$user_name` in a bot message is filled from the context of the conversation being served (documented); a conversation that never set it gets whatever the unchanged tree renders for an undefined variable (an empty text) - not judged, only compared with its isolated replay. The canary conversation runs on an instance of its own (never the shared one or a replay's), which by the statement cannot influence anything; its name is used by no conversation of a case",
    "the LLM is a pure function of the prompt (statement: 'and the LLM's answers to the prompts built from them'); fake rails are pure functions of the text they see",
    "multi-step generation mode: the LLM writes well-formed bodies only (sequences of `bot <intent>` steps, optionally `user ...` / `user <intent>` followed by one more bot step; a bot step may carry its message inline as an indented quoted text, the documented Colang 1.0 form the shipped prompt's examples use); hostile bodies are C17's subject. The body is a function of the prompt alone, so two conversations asking the same kind of thing get the same body - what the instance does with a body it has seen before is the subject here",
    "a text the LLM writes inline for a bot step of ONE conversation's generated flow belongs to that conversation: whether the instance uses it for that turn or asks the LLM for the message is not judged (both runs do the same); another conversation must see neither",
    "separator-shift cases: the LLM's message (and, with dialog rails, the user intent it picks) for a prompt whose last user text is in the case table is the table's - a function of the prompt alone, identical in the shared run and the isolated replays; only boundaries between a user text and the reply that follows are moved (after identical histories a pure LLM gives identical replies)",
    "legs seq/conc: Colang 1.0 configurations (the events cache and the three-step generation are Colang 1.0 mechanisms); leg v2: Colang 2.x `llm continuation`, the caller hands the returned state object back ({} on the first turn)",
    "leg v2: the LLM is a pure function of the prompt, and the shipped generate_flow_from_name prompt does not contain the conversation - so a conversation that runs a flow another conversation made the LLM write shows in the prompts (one prompt less), not in the reply text",
    "leg v2: a conversation ends (its caller sends nothing more) after a turn in which the LLM wrote a flow that waits for the next user utterance - that flow and the library's reaction to the utterance race even when the conversation is served alone, so later turns could not be compared",
    "leg v2: while finding C15-F23 (fresh states share the runtime's flow table) is neither listed in known_findings.json nor enabled with VF_C15_V2_SHARED=1, undefined flow names are derived from each conversation's own text",
    "the schedule of `with llm_params` blocks is observed by a probe around LLMParams.__enter__/__exit__ (tick + requested parameters, then the repository's code runs unchanged); the defect model of C15-F9b/F9c uses that schedule and nothing else of the implementation",
    "lowered max_length: the `prompts:` entry repeats the SHIPPED template of the task (content, stop, output parser as get_prompt selects them for the configured main model) and changes only max_length; what the renderer drops on overflow (events from the start of the history, documented in render_task_prompt) is not modelled - only compared between the shared run and the isolated replays; whether a prompt was cut is observed by counting the renderings per render_task_prompt call (labels / non-triviality only)",
    "rail name lists: GenerationRailsOptions accepts `Union[bool, List[str]]` per category ('If a list of names is specified, then only the specified ... rails will be applied'); what a list does to the request that passes it is NOT judged beyond the differential (the user guide says selecting individual rails is not yet supported; the unchanged tree treats a non-empty list as True and an empty one as False) - the request with the lists must behave as when served alone, and every other request must run its full configured rails as when served alone",
    "the conversations served 'in between' are single-turn, without options, with texts no other conversation uses; only the first and the last are replayed in isolation",
    "the caller keeps each conversation the way a stateless server does: the full message history (supplied history, user messages, returned replies) is passed every turn",
    "a conversation whose supplied history is exactly (roles and contents) the transcript of another conversation served by the instance is the same conversation for the instance and is not judged",
    "asyncio interleavings at the suspension points of the code (LLM calls with generated latencies) only; no OS threads",
    "the generation log is compared without timing fields and ids (the random uuid under which an LLM-written flow is started shows as a rail name: replaced by a constant); internal events (uids, timestamps) are not compared",
    "parameters at call end are compared too (a call 'runs with' its parameters until it returns)",
]

UNSET = "<unset>"

# ------------------------------------------------------------------------------------------------
# pure-function fakes


def _dg(s):
    return int(hashlib.sha256(str(s).encode("utf-8", "surrogatepass")).hexdigest()[:12], 16)


ATOMS = ["a", "b", "a:b", ":", "b:", "b:a", "hi", "hello there", '{"k": "a"}', '{"k": "a"}:a', fakes.PREDEF["greet"], "tell me a joke", "c"]
REPLY_ATOMS = ["a", "b", "a:b", ":", "b:", "hi", "c"]
CONTEXTS = [{"k": "a"}, {"k": "a:b"}, {"relevant_chunks": "a:b"}, {"user_name": "b"}, {}]
INTENTS = [fakes.ROUTES[r][0] for r in ("predef", "predef", "llm", "pl", "lp", "ll", "next_llm", "next_predef", "act_llm")]


def _last_user_text(prompt):
    i = prompt.rfind('\nuser "')
    if i < 0:
        return prompt
    j = prompt.rfind('"')
    return prompt[i + 7: j] if j > i + 7 else prompt[i:]


def _asked_text(prompt):
    """The user text a message-generating prompt asks an answer for: the last `user "..."` line of the dialog prompts, the
    last `User: ...` line of the general prompt (texts of this module contain no line breaks)."""
    for line in reversed(str(prompt).split("\n")):
        if line.startswith('user "') and line.rstrip().endswith('"'):
            return line.rstrip()[6:-1]
        if line.startswith("User: "):
            return line[6:]
    return None


# ---- Colang 1.0 multi-step generation (cfg["ext"] == EXT_MS): the generate_next_steps answer is a flow BODY ----
EXT_MS = "c15-ms"


EXT_ML = "c15-ml"  # configuration dimension "max_length" alone (together with multi-step generation: ext EXT_MS + key "maxlen")


def _ms_build_config(cfg, colang, yaml_text):
    import yaml

    y = yaml.safe_load(yaml_text)
    if cfg.get("ext") == EXT_MS:
        y["enable_multi_step_generation"] = True
    if cfg.get("maxlen"):
        y["prompts"] = list(y.get("prompts") or []) + _maxlen_prompts(colang, yaml_text, cfg["maxlen"])
    if cfg.get("greetvar"):
        # configuration dimension "context variable in a predefined message": the greeting refers to $user_name
        old = f'define bot express greeting\n  "{fakes.PREDEF["greet"]}"'
        if colang.count(old) != 1:
            raise RuntimeError("c15: configuration without the predefined greeting (greetvar needs dialog rails)")
        colang = colang.replace(old, f'define bot express greeting\n  "{fakes.PREDEF["greet"]} dear $user_name!"')
    return colang, yaml.safe_dump(y, sort_keys=False)


def _maxlen_prompts(colang, yaml_text, maxlen):
    """Configuration dimension "max_length": `prompts:` entries that keep the SHIPPED template of a task (content / messages, stop,
    output parser - whatever `get_prompt` selects for the configured main model) and only lower its `max_length` (shipped
    default: 16000 characters), so that the renderer's documented reaction to an overflow - events are dropped from the
    start of the history until the prompt fits - is reached by conversations of a few turns."""
    from nemoguardrails import RailsConfig
    from nemoguardrails.llm.prompts import get_prompt

    config = RailsConfig.from_content(colang, yaml_text)
    main = [m for m in config.models if m.type == "main"][0]
    out = []
    for task in sorted(maxlen):
        p = get_prompt(config, task)
        d = json.loads(p.json(exclude_none=True)) if hasattr(p, "json") else dict(p)
        d.update(task=task, models=[main.engine + ("/" + main.model if main.model else "")], max_length=int(maxlen[task]))
        out.append(d)
    return out


pipeline.register_extension(EXT_MS, build_config=_ms_build_config)
pipeline.register_extension(EXT_ML, build_config=_ms_build_config)
EXT_GV = "c15-gv"  # configuration dimension "context variable in a predefined message" alone (cfg key "greetvar", also under the other two names)
pipeline.register_extension(EXT_GV, build_config=_ms_build_config)

# the tasks whose prompt a Colang 1.0 turn renders from the history of events, with drawn limits: the shipped templates come
# to about 300 (general), 2600 (generate_user_intent), 1150 (generate_next_steps) and 2900 (generate_bot_message)
# characters before the first turn and grow by 40-100 characters per turn of short texts - so a conversation of short texts
# fits for a few turns (or overflows by itself late), one with padded texts (`_pad`) overflows after two to four turns
ML_LIMITS = {"general": [420, 480, 600], "generate_user_intent": [2800, 3000], "generate_next_steps": [1200, 1260], "generate_bot_message": [3150, 3350]}


def _pad(i, n):
    """Padding of the user texts of conversation i (spec key "pad": n items of about nine characters, no ':'): a conversation
    of LONG messages - its prompts reach a lowered max_length after a few turns."""
    return "".join(f" item{i}x{k}" for k in range(int(n or 0)))

# half of the intents the LLM picks in this mode are handled by no flow of the configuration (-> generate_next_steps)
MS_UNHANDLED = ["ask time", "ask help", "request booking"]
MS_INTENTS = [fakes.ROUTES[r][0] for r in ("predef", "llm", "pl", "lp", "act_llm", "ll")] + ["ask time", "ask help", "request booking", "ask time", "ask help", "ask time"]
# bodies: one to three bot steps; `offer help` / `express greeting` have predefined messages, the other messages are LLM-generated
MS_BODIES = [
    "bot inform time",
    "bot acknowledge request\nbot offer help",
    "bot offer help",
    "bot inform time\nbot suggest alternatives",
    "bot acknowledge request\nbot inform status\nbot offer help",
    "bot express greeting\nbot inform time",
]
# continuation after a wait for a later user turn (any intent / a named one that a configured flow may handle as well)
MS_TAILS = ["user ...\nbot offer help", "user ask time\nbot inform time", "user ...\nbot acknowledge request", "user express greeting\nbot suggest alternatives"]
MS_POLICY_DEFAULT = {"bodies": 2, "by": "intent", "span": 0, "inline": 0, "iseed": 0}
# bot intents of MS_BODIES / MS_TAILS for which the configuration defines a message (every other one is LLM-generated)
MS_CONFIGURED_BOT = ("offer help", "express greeting")


def _ms_policy(cfg):
    """The case's policy for LLM-written flow bodies, or None when the configuration is not in multi-step generation mode."""
    if cfg.get("ext") != EXT_MS:
        return None
    return dict(MS_POLICY_DEFAULT, **(cfg.get("ms") or {}))


def _last_user_intent(prompt):
    """Last `user <intent>` line of a generate_next_steps prompt (the shipped template shows intents, not texts)."""
    for line in reversed(prompt.rstrip().split("\n")):
        if line.startswith("user "):
            return line
    return prompt


def _ms_body(prompt, ms):
    """Flow body for a generate_next_steps prompt: a pure function of the prompt, shaped by the case's policy."""
    return _ms_body_sel(_last_user_intent(prompt) if ms.get("by") == "intent" else prompt, ms)


def _ms_body_sel(sel, ms):
    d = _dg(sel)
    body = MS_BODIES[d % max(1, min(int(ms.get("bodies", 1)), len(MS_BODIES)))]
    if (d // 11) % 3 < int(ms.get("span", 0)):
        body += "\n" + MS_TAILS[(d // 37) % len(MS_TAILS)]
    return _ms_inline(body, sel, ms)


def _ms_inline(body, sel, ms):
    """Policy "inline" (`inline`/3 of the answers): the LLM writes the steps WITH the message of a bot step inline - the
    Colang 1.0 form `bot <intent>` followed by an indented quoted text - as completions of the shipped generate_next_steps
    prompt (whose examples show exactly that form) often do.  Which answers carry texts, which of their bot steps (about three
    in four), and the text itself are functions of what selects the body (`sel`: the last user intent, or the whole prompt):
    requests of the same kind get the same text, a different kind of request / another history gets a different one or none
    (`iseed` varies that choice from case to case)."""
    n = int(ms.get("inline", 0))
    if not n:
        return body
    dp = _dg(f"inline{int(ms.get('iseed', 0))}|{sel}")
    if dp % 3 >= n:
        return body
    out = []
    for x, line in enumerate(body.split("\n")):
        out.append(line)
        if line.startswith("bot ") and (dp // (3 * 4 ** x)) % 4 != 3:
            out.append(f'  "INL{dp % 0xFFFFFF:06x} {line[4:]} written inline"')
    return "\n".join(out)


def _ms_inline_texts(body):
    """{bot intent: text} of the bot steps of a body that carry their message inline."""
    out, lines = {}, str(body).split("\n")
    for a, b in zip(lines, lines[1:]):
        if a.startswith("bot ") and b.startswith('  "'):
            out[a[4:].strip()] = b.strip()
    return out


def _ms_bot_intents(body):
    return [ln[4:].strip() for ln in str(body).split("\n") if ln.startswith("bot ")]


def _ms_waits(body):
    return "\nuser " in str(body)


class DigestSession(fakes.Session):
    """Policy of the fakes for C15: every answer is a function of what the fake is shown, nothing else."""

    def __init__(self, cfg, n_turns, lat=None, llmc=None, tables=None):
        super().__init__({"config": cfg, "turns": [{} for _ in range(n_turns)]}, cfg)
        self.lat = list(lat or [])
        # case tables {user text: bot text} / {user text: user intent}: the LLM's message (the intent it picks) for a prompt whose
        # last user text is in the table is the table's (still a function of the prompt alone, the same in every run of the
        # case); everything else by digest
        self.replies = dict((tables or {}).get("replies") or {})
        self.intents = dict((tables or {}).get("intents") or {})
        self.err = dict((tables or {}).get("err") or {})  # case dimension "LLM errors": which prompts the provider fails for
        self.llmc = dict(llmc or {})  # leg "v2": how the LLM writes flows (a parameter of the case, the same in every run of it)

    def rail_verdict(self, cat, idx, turn, text):
        d = _dg(f"{cat}{idx}|{text}")
        kind = self.cfg[cat][idx]
        if kind == "rewrite":
            return "rewrite" if d % 2 == 0 else "accept"
        return "reject" if d % 5 == 0 else "accept"

    def rewritten(self, cat, idx, turn, text):
        return f"RW{_dg(text) % 0xFFFFFF:06x} rewritten"

    def llm_latency(self, turn, k, task):
        if not self.lat:
            return 0
        return self.lat[(len(self.llm_calls) - 1) % len(self.lat)]

    def llm_answer(self, task, prompt, turn, k):
        prompt = prompt if isinstance(prompt, str) else json.dumps(prompt, sort_keys=True, default=str)
        if self.err and _err_hit(self.err, task, prompt):
            raise ProviderError("503 service unavailable")
        d = _dg(prompt)
        ms = _ms_policy(self.cfg)
        if task == "generate_user_intent":
            intents = INTENTS if ms is None else MS_INTENTS
            if self.intents:
                named = self.intents.get(_asked_text(prompt))
                if named is not None:
                    return "  " + named
            return "  " + intents[_dg(_last_user_text(prompt)) % len(intents)]
        if task == "generate_next_steps":
            if ms is not None:
                return _ms_body(prompt, ms)
            return "bot " + ("inform time" if d % 2 else "offer help")
        if task in ("self_check_input", "self_check_output"):
            return "Yes" if d % 6 == 0 else "No"
        if task == "v2_user_intent":
            return V2_INTENTS[_dg(_v2_last_user_action(prompt)) % len(V2_INTENTS)]
        if task == "v2_flow_continuation":
            return self._v2_continuation(prompt, d)
        if task == "general" and _v2_flow_name(prompt) is not None:
            return self._v2_flow_body(prompt, d)
        text = REPLY_ATOMS[(d // 3) % len(REPLY_ATOMS)] if d % 3 == 0 else f"LLM{d % 0xFFFFFFFF:08x} says so"
        if self.replies and task in ("general", "generate_bot_message"):
            text = self.replies.get(_asked_text(prompt), text)
        if task == "generate_bot_message":
            return f'  "{text}"'
        return text


    # ---- Colang 2.x `llm continuation`: the LLM names a bot intent + a bot action, and writes flows for undefined names ----
    def _v2_continuation(self, prompt, d):
        """`bot intent` line + `bot action:` line.  The action is `bot say "<text>"` or - in `undef` of 3 digest classes - the
        name of a bot flow the configuration does not define (the library then asks the LLM to write that flow and adds it
        with AddFlowsAction under exactly that name).  `names` = size of the pool such names come from; 0 = the name is
        derived from the user's own text (no two conversations of a case name the same flow)."""
        intent = V2_BOT_INTENTS[d % len(V2_BOT_INTENTS)]
        if (d // 3) % 3 < int(self.llmc.get("undef", 0)):
            n = int(self.llmc.get("names", 0))
            if n:
                name = V2_FLOW_NAMES[(d // 9) % min(n, len(V2_FLOW_NAMES))]
            else:
                name = f"bot inform about x{_dg(_v2_last_user_action(prompt)) % 0xFFFFFF:06x}"
            return f"{intent}\nbot action: {name}"
        if (d // 9) % 7 == 0:
            return f"{intent}\nbot action: bot express greeting"  # a flow the configuration defines
        return f'{intent}\nbot action: bot say "LLM{d % 0xFFFFFFFF:08x} says so"'

    def _v2_flow_body(self, prompt, d):
        """Body of `flow <name>` (generate_flow_from_name): one utterance, or - in `multi` of 3 digest classes - an utterance,
        a wait for the user's next utterance, and a second utterance (such a flow is still running when the turn ends)."""
        one = f'  bot say "FLOW{d % 0xFFFFFFFF:08x} body"'
        if d % 3 < int(self.llmc.get("multi", 0)):
            return one + f'\n  {_V2_WAITS}\n  bot say "FLOW{d % 0xFFFFFFFF:08x} second part"'
        return one


_V2_WAITS = "user said something"
V2_INTENTS = ["user expressed greeting", "user asked something else", "user asked about topic", "user requested help", "user asked something else"]
V2_BOT_INTENTS = ["bot provide answer", "bot give info", "bot respond"]
V2_FLOW_NAMES = ["bot inform about things", "bot explain topic", "bot share details"]


def _v2_last_user_action(prompt):
    i = prompt.rfind("user action: ")
    return prompt[i:].split("\n")[0] if i >= 0 else prompt


def _v2_flow_name(prompt):
    """Name in a generate_flow_from_name prompt (it ends with the line `flow <name>`), else None."""
    tail = prompt.rstrip().split("\n")[-1]
    return tail[5:].strip() if tail.startswith("flow ") and "# Complete the following flow based on its name:" in prompt else None


def _now():
    try:
        return asyncio.get_running_loop().time()
    except RuntimeError:
        return None


_TICKS = {"n": 0}


def _tick():
    """Order of the harness's observation points (request start/end, LLM call start/end) across all conversations."""
    _TICKS["n"] += 1
    return _TICKS["n"]


# ------------------------------------------------------------------------------------------------
# the schedule of `with llm_params(...)` blocks (observation only) and the defect model of findings C15-F9b / C15-F9c
#
# The harness owns the schedule: which block is entered / left when, relative to all its other observation points.  The
# probe below records exactly that (a tick, the LLM object, the requested parameters, the conversation in charge) and then
# runs the repository's own __enter__ / __exit__ unchanged - whatever those do to the LLM object is not looked at here.

_TRACES = {}  # id(llm object) -> [block event]; filled only for the LLM objects of the running case
_BLOCKS = {"n": 0}


def _install_param_probe():
    from nemoguardrails.llm import params as P

    cls = P.LLMParams
    if cls.__dict__.get("_vf_probe"):
        return
    o_init, o_enter, o_exit = cls.__init__, cls.__enter__, cls.__exit__

    def __init__(self, llm, **kwargs):
        self._vf_llm, self._vf_params, self._vf_b = llm, dict(kwargs), None
        o_init(self, llm, **kwargs)

    def __enter__(self):
        tr = _TRACES.get(id(getattr(self, "_vf_llm", None)))
        if tr is not None:
            _BLOCKS["n"] += 1
            self._vf_b = _BLOCKS["n"]
            cur = fakes.CURRENT.get()
            tr.append({"k": _tick(), "ev": "enter", "b": self._vf_b, "params": dict(self._vf_params),
                       "conv": getattr(cur[0], "cid", None) if cur else None, "turn": cur[1] if cur else None})
        return o_enter(self)

    def __exit__(self, *exc):
        tr = _TRACES.get(id(getattr(self, "_vf_llm", None)))
        if tr is not None and getattr(self, "_vf_b", None) is not None:
            tr.append({"k": _tick(), "ev": "exit", "b": self._vf_b})
        return o_exit(self, *exc)

    cls.__init__, cls.__enter__, cls.__exit__, cls._vf_probe = __init__, __enter__, __exit__, True


_install_param_probe()

# Observation only (labels / non-triviality of the configuration dimension "max_length", never the oracle): how many times the
# task manager rendered the template while it built ONE prompt - more than once means the history was cut to make it fit.
_CUTS = {}  # id(task manager) -> [{"k": tick, "conv", "turn", "task", "dropped": number of re-renderings}]


def _install_render_probe():
    try:
        from nemoguardrails.llm.taskmanager import LLMTaskManager as T
    except Exception:
        return
    if T.__dict__.get("_vf_probe") or not all(hasattr(T, n) for n in ("render_task_prompt", "_render_string", "_render_messages")):
        return
    o_task, o_str, o_msgs = T.render_task_prompt, T._render_string, T._render_messages

    def _render_string(self, *a, **kw):
        self.__dict__["_vf_n"] = self.__dict__.get("_vf_n", 0) + 1
        return o_str(self, *a, **kw)

    def _render_messages(self, *a, **kw):
        self.__dict__["_vf_n"] = self.__dict__.get("_vf_n", 0) + 1
        return o_msgs(self, *a, **kw)

    def render_task_prompt(self, task, *a, **kw):
        self.__dict__["_vf_n"] = 0  # (rendering is synchronous: no other request can run in between)
        try:
            return o_task(self, task, *a, **kw)
        finally:
            log = _CUTS.get(id(self))
            if log is not None and self.__dict__.get("_vf_n", 0) > 1:
                cur = fakes.CURRENT.get()
                log.append({"k": _tick(), "conv": getattr(cur[0], "cid", None) if cur else None, "turn": cur[1] if cur else None,
                            "task": str(getattr(task, "value", task)), "dropped": self.__dict__["_vf_n"] - 1})

    T.render_task_prompt, T._render_string, T._render_messages, T._vf_probe = render_task_prompt, _render_string, _render_messages, True


_install_render_probe()


class DefectModel:
    """What the LLMParams of the UNCHANGED tree does to the LLM object under a given schedule of blocks - the exact content
    of the open findings C15-F9b and C15-F9c, written from their description in known_findings.json:

        enter:  for every requested parameter: remember the value the LLM object has NOW (an attribute; for an LLM that
                keeps its parameters in model_kwargs the entry, or None when there is no entry), then write the requested one;
        exit:   write the remembered values back (model_kwargs: only if the entry still exists).

    With blocks that nest or follow each other this restores the configured values (except that an unconfigured model_kwargs
    parameter comes back as an explicit None: F9c); with blocks of different requests that overlap without nesting the value
    remembered by one block is the temporary value of another (F9b).  `at(tick)` is the parameter snapshot this predicts for
    an observation made at `tick`.  A parameter observation that departs from the isolated replay is an instance of a listed
    finding only if it is EXACTLY what this model predicts for the schedule of the case; anything else is a violation."""

    def __init__(self, llm_spec, configured, events):
        self.kw = str(llm_spec).startswith("kw")
        # variant opt<n>: declared fields (also those configured as None) are attributes for LLMParams; model_kwargs is never touched
        self.mk = None if self.kw or "model_kwargs" not in configured else dict(configured["model_kwargs"])
        state = dict(configured["model_kwargs"]) if self.kw else {k: v for k, v in configured.items() if k != "model_kwargs"}
        self.configured = dict(state)
        saved = {}
        self.timeline = [(0, dict(state))]
        for e in sorted(events, key=lambda e: e["k"]):
            if e["ev"] == "enter":
                s = saved[e["b"]] = {}
                for p, v in e["params"].items():
                    if self.kw:
                        s[p] = state.get(p)
                        state[p] = v
                    elif p in state:
                        s[p] = state[p]
                        state[p] = v
            else:
                for p, v in saved.pop(e["b"], {}).items():
                    if not self.kw or p in state:
                        state[p] = v
            self.timeline.append((e["k"], dict(state)))
        # blocks of different conversations open at the same time (any order of their ends), by the tick of the later entry
        self.overlaps = []
        open_ = {}
        for e in sorted(events, key=lambda e: e["k"]):
            if e["ev"] == "enter":
                if any(c != e["conv"] for c in open_.values()):
                    self.overlaps.append(e["k"])
                open_[e["b"]] = e["conv"]
            else:
                open_.pop(e["b"], None)

    def at(self, tick):
        cur = self.timeline[0][1]
        for k, s in self.timeline:
            if k >= tick:
                break
            cur = s
        return cur

    def snapshot_at(self, tick):
        s = self.at(tick)
        if self.mk is not None:
            return dict(s, model_kwargs=dict(self.mk))
        return {"model_kwargs": dict(s)} if self.kw else dict(s)

    def value_at(self, tick, field):
        """What a call record's t_* / mt_* field would hold at `tick`."""
        p = "temperature" if field.startswith("t_") else "max_tokens"
        s = self.at(tick)
        return s.get(p, UNSET) if self.kw else s[p]

    def overlap_before(self, tick):
        return any(k < tick for k in self.overlaps)

    def none_shaped(self, snapshot):
        """The snapshot differs from the configured parameters only by `param: None` entries for unconfigured parameters."""
        if not self.kw:
            return False
        a, b = snapshot.get("model_kwargs", {}), self.configured
        return a != b and all(k in a and a[k] == v for k, v in b.items()) and all(a[k] is None for k in a if k not in b)


def _blocks_by_turn(events):
    """{(conversation, turn): [requested parameters of its blocks, in order of entry]}"""
    out = defaultdict(list)
    for e in events:
        if e["ev"] == "enter":
            out[(e["conv"], e["turn"])].append(json.dumps(e["params"], sort_keys=True, default=repr))
    return out


def _blocks_match(shared_events, iso_events_by_conv, skip=()):
    """Every (judged) conversation asked, turn by turn, for the same `with llm_params` blocks on the shared instance as in its
    isolated replay (the defect model explains what overlapping blocks do to the LLM object, never WHICH blocks a request opens)."""
    got = _blocks_by_turn(shared_events)
    exp = {}
    for evs in iso_events_by_conv:
        exp.update(_blocks_by_turn(evs))
    return {k: sorted(v) for k, v in got.items() if k[0] not in skip} == {k: sorted(v) for k, v in exp.items() if k[0] not in skip}


def _set_blocks_match(problems, value):
    for v in problems:
        d = v.detail or {}
        if d.get("model") and not d.get("isolated"):
            d["model"]["blocks_match"] = bool(value)


def _disjoint_overlap(events):
    """A block that alters a parameter was entered while a block of ANOTHER conversation that does not cover that parameter
    was open (the open block's own save/restore then says nothing about it)."""
    open_ = {}
    for e in sorted(events, key=lambda e: e["k"]):
        if e["ev"] == "enter":
            if any(c != e["conv"] and set(e["params"]) - set(ps) for c, ps in open_.values()):
                return True
            open_[e["b"]] = (e["conv"], e["params"])
        else:
            open_.pop(e["b"], None)
    return False


class ProviderError(RuntimeError):
    """The LLM provider failed (case dimension "LLM errors"): raised by the fake LLM INSTEAD of a completion, as a pure function
    of the prompt - so the same request fails in the isolated replay and on the shared instance alike."""


ERR_MARKER = "ERR503"
# tasks whose prompt shows the text of the current user turn: the provider fails when that text carries the marker
ERR_TASKS = ("general", "generate_user_intent", "generate_bot_message", "self_check_input", "self_check_output")


def _err_hit(err, task, prompt):
    """Does the provider fail for this prompt?  A function of (case policy, task, prompt) only."""
    if not err or task not in (err.get("tasks") or ()):
        return False
    if task in ("self_check_input", "self_check_output"):  # fakes.SELF_CHECK_PROMPTS: both show the user's text
        return ERR_MARKER in prompt
    return ERR_MARKER in (_asked_text(prompt) or "")


def _complete(llm, session, rec, task, prompt, turn, k, kwargs):
    """The completion of one LLM call (or the provider's error); the call record gets the parameters at its end either way."""
    try:
        answer = session.llm_answer(task, prompt, turn, k)
    except ProviderError as e:
        llm._finish(session, rec, f"<provider error: {e}>")
        rec.update(t_end=kwargs.get("temperature", rec["t_end"]), mt_end=kwargs.get("max_tokens", rec["mt_end"]), failed=True)
        raise
    out = llm._finish(session, rec, answer)
    rec.update(t_end=kwargs.get("temperature", rec["t_end"]), mt_end=kwargs.get("max_tokens", rec["mt_end"]))
    return out


class FieldLLM(fakes.ScriptedLLM):
    """ScriptedLLM (real `temperature` / `max_tokens` fields) that also records max_tokens and the loop time of every call."""

    def _begin(self, prompt, stop):
        out = super()._begin(prompt, stop)
        out[4].update(mt_start=self.max_tokens, vt0=_now(), k0=_tick(), mt_end=None, vt1=None, k1=None)
        return out

    def _finish(self, session, rec, answer):
        rec.update(mt_end=self.max_tokens, vt1=_now(), k1=_tick())
        return super()._finish(session, rec, answer)

    # parameters handed over per call (**kwargs) take precedence over the attributes, as in LangChain providers
    def _call(self, prompt: str, stop: Optional[List[str]] = None, run_manager: Any = None, **kwargs: Any) -> str:
        session, turn, k, task, rec = self._begin(prompt, stop)
        rec.update(t_start=kwargs.get("temperature", rec["t_start"]), mt_start=kwargs.get("max_tokens", rec["mt_start"]))
        return _complete(self, session, rec, task, prompt, turn, k, kwargs)

    async def _acall(self, prompt: str, stop: Optional[List[str]] = None, run_manager: Any = None, **kwargs: Any) -> str:
        session, turn, k, task, rec = self._begin(prompt, stop)
        rec.update(t_start=kwargs.get("temperature", rec["t_start"]), mt_start=kwargs.get("max_tokens", rec["mt_start"]))
        lat = session.llm_latency(turn, k, task)
        if lat:
            await asyncio.sleep(lat)
        return _complete(self, session, rec, task, prompt, turn, k, kwargs)

    def snapshot(self):
        return {"temperature": self.temperature, "max_tokens": self.max_tokens}


class KwargsLLM(LLM):
    """Variant that keeps its parameters in `model_kwargs` (no `temperature` attribute), as many LangChain providers do."""

    model_kwargs: Dict[str, Any] = {}

    @property
    def _llm_type(self) -> str:
        return "vf-scripted-kwargs"

    @property
    def _identifying_params(self):
        return {}

    def _begin(self, prompt, stop):
        session, turn = fakes.current()
        k = len(session.calls_of_turn(turn))
        task = fakes.classify_prompt(prompt)
        mk = self.model_kwargs
        rec = {"turn": turn, "k": k, "task": task, "prompt": prompt, "stop": stop, "t_start": mk.get("temperature", UNSET), "t_end": None,
               "mt_start": mk.get("max_tokens", UNSET), "mt_end": None, "vt0": _now(), "k0": _tick(), "vt1": None, "k1": None, "answer": None, "seq": session.tick()}
        session.llm_calls.append(rec)
        session.in_flight += 1
        return session, turn, k, task, rec

    def _finish(self, session, rec, answer):
        mk = self.model_kwargs
        rec.update(answer=answer, t_end=mk.get("temperature", UNSET), mt_end=mk.get("max_tokens", UNSET), vt1=_now(), k1=_tick())
        session.in_flight -= 1
        return answer

    def _call(self, prompt: str, stop: Optional[List[str]] = None, run_manager: Any = None, **kwargs: Any) -> str:
        session, turn, k, task, rec = self._begin(prompt, stop)
        rec.update(t_start=kwargs.get("temperature", rec["t_start"]), mt_start=kwargs.get("max_tokens", rec["mt_start"]))
        return _complete(self, session, rec, task, prompt, turn, k, kwargs)

    async def _acall(self, prompt: str, stop: Optional[List[str]] = None, run_manager: Any = None, **kwargs: Any) -> str:
        session, turn, k, task, rec = self._begin(prompt, stop)
        rec.update(t_start=kwargs.get("temperature", rec["t_start"]), mt_start=kwargs.get("max_tokens", rec["mt_start"]))
        lat = session.llm_latency(turn, k, task)
        if lat:
            await asyncio.sleep(lat)
        return _complete(self, session, rec, task, prompt, turn, k, kwargs)

    def snapshot(self):
        return {"model_kwargs": dict(self.model_kwargs)}


KW_CONFIGS = [{"temperature": 0.7, "max_tokens": 128}, {"temperature": 0.7}, {}]


class FieldOptLLM(FieldLLM):
    """Variant "opt<n>": the parameters are DECLARED fields, but one or both are configured as None (the provider's "unset":
    `max_tokens: Optional[int] = None`, as in most LangChain providers), and the object also has `model_kwargs` (extra
    parameters forwarded to the provider).  A call runs with the model_kwargs entry of a parameter when there is one, else
    with the field (providers merge model_kwargs over their default parameters)."""

    temperature: Optional[float] = 0.7
    max_tokens: Optional[int] = None
    model_kwargs: Dict[str, Any] = {}

    def _begin(self, prompt, stop):
        out = super()._begin(prompt, stop)
        mk = self.model_kwargs
        out[4].update(t_start=mk.get("temperature", self.temperature), mt_start=mk.get("max_tokens", self.max_tokens))
        return out

    def _finish(self, session, rec, answer):
        answer = super()._finish(session, rec, answer)
        mk = self.model_kwargs
        rec.update(t_end=mk.get("temperature", self.temperature), mt_end=mk.get("max_tokens", self.max_tokens))
        return answer

    def snapshot(self):
        return {"temperature": self.temperature, "max_tokens": self.max_tokens, "model_kwargs": dict(self.model_kwargs)}


# declared fields with configured value None next to model_kwargs: max_tokens unset / temperature unset (+ an extra entry) / both
OPT_CONFIGS = [{"temperature": 0.7, "max_tokens": None, "model_kwargs": {}}, {"temperature": None, "max_tokens": 128, "model_kwargs": {"top_p": 0.9}},
               {"temperature": None, "max_tokens": None, "model_kwargs": {}}]


def _make_llm(spec):
    if spec == "field":
        return FieldLLM()
    if spec.startswith("opt"):
        c = OPT_CONFIGS[int(spec[3:])]
        return FieldOptLLM(temperature=c["temperature"], max_tokens=c["max_tokens"], model_kwargs=dict(c["model_kwargs"]))
    return KwargsLLM(model_kwargs=dict(KW_CONFIGS[int(spec[2:])]))


class _Prob(str):
    none_added = False
    tick = None
    now = None


def _rest_kind(none_added):
    """Root-cause bucket of a 'parameters at rest are not the configured ones' observation, by the shape of the difference."""
    return "llm-params-none-left-in-model-kwargs" if none_added else "llm-params-not-restored"


class Pipe(pipeline.Pipeline):
    """vf.pipeline.Pipeline with the LLM object of the case (the base class hard-wires fakes.ScriptedLLM)."""

    def __init__(self, cfg, llm_spec):
        orig = fakes.ScriptedLLM
        fakes.ScriptedLLM = lambda: _make_llm(llm_spec)
        try:
            super().__init__(cfg)
        finally:
            fakes.ScriptedLLM = orig
        self.configured = self.llm.snapshot()
        self.llm_spec = llm_spec
        self.ptrace = _TRACES[id(self.llm)] = []  # schedule of the `with llm_params` blocks on this LLM object
        tm = getattr(getattr(self.rails, "runtime", None), "llm_task_manager", None)
        self.cuts = _CUTS[id(tm)] = []  # prompts of this instance whose history had to be cut (configuration dimension "max_length")

    def model(self):
        return DefectModel(self.llm_spec, self.configured, self.ptrace)

    def params_problem(self):
        """None, or a sentence (a str subclass carrying `.none_added`: the only difference is `param: None` entries added to
        model_kwargs for parameters that were not configured; `.tick` / `.now`: when and what was observed)."""
        now = self.llm.snapshot()
        if now == self.configured:
            return None
        msg = _Prob(f"LLM object parameters are {now}, configured {self.configured}")
        a, b = now.get("model_kwargs"), self.configured.get("model_kwargs")
        msg.none_added = (a is not None and a != b and all(now[k] == self.configured[k] for k in now if k != "model_kwargs")
                          and all(k in a and a[k] == v for k, v in b.items()) and all(a[k] is None for k in a if k not in b))
        msg.tick, msg.now = _tick(), now
        return msg

    def rest_detail(self, prob, **more):
        """detail of a 'parameters at rest' observation: what was seen next to what the defect model predicts for the schedule."""
        m = self.model()
        d = {"none_added": prob.none_added, "model": {"predicted": repr(m.snapshot_at(prob.tick)), "observed": repr(prob.now), "overlap": m.overlap_before(prob.tick), "blocks_match": True}}
        d.update(more)
        return d

    def call_detail(self, rc, f, **more):
        """detail of a parameter observation at the start / end of an LLM call (field f of the call record rc)."""
        m = self.model()
        tick = rc["k0"] if f.endswith("start") else rc["k1"]
        d = {"observed": repr(rc[f]), "field": f, "model": {"predicted": repr(m.value_at(tick, f)), "observed": repr(rc[f]), "overlap": m.overlap_before(tick), "blocks_match": True}}
        d.update(more)
        return d


# ------------------------------------------------------------------------------------------------
# one conversation on one instance


def _norm_calls(calls):
    return [{"task": c["task"], "prompt": c["prompt"], "stop": c["stop"], "t_start": c["t_start"], "t_end": c["t_end"], "mt_start": c["mt_start"], "mt_end": c["mt_end"]} for c in calls]


def _norm_llm_info(ci):
    return [getattr(ci, "task", None), getattr(ci, "prompt", None), getattr(ci, "completion", None)]


_UUID = re.compile(r"^[0-9a-f]{8}-[0-9a-f]{4}-[0-9a-f]{4}-[0-9a-f]{4}-[0-9a-f]{12}$")


def _norm_rail_name(name):
    """An LLM-written flow (multi-step generation) is started under a random uuid, which the log shows as the rail's name: an id."""
    return "<generated flow>" if isinstance(name, str) and _UUID.match(name) else name


def _norm_result(res):
    """Everything the caller receives, without timings and ids."""
    if isinstance(res, (dict, str)) or res is None:
        return {"response": res}
    out = {"response": res.response}
    if getattr(res, "llm_output", None) is not None:
        out["llm_output"] = res.llm_output
    if getattr(res, "output_data", None) is not None:
        out["output_data"] = res.output_data
    log = getattr(res, "log", None)
    if log is not None:
        lg = {}
        if log.activated_rails is not None:
            lg["activated_rails"] = [
                {"type": r.type, "name": _norm_rail_name(r.name), "decisions": list(r.decisions), "stop": bool(r.stop),
                 "actions": [[a.action_name, [_norm_llm_info(c) for c in a.llm_calls]] for a in r.executed_actions]}
                for r in log.activated_rails
            ]
        if log.llm_calls is not None:
            lg["llm_calls"] = [_norm_llm_info(c) for c in log.llm_calls]
        if log.stats is not None:
            lg["llm_calls_count"] = log.stats.llm_calls_count
        if log.colang_history is not None:
            lg["colang_history"] = log.colang_history
        out["log"] = lg
    return json.loads(json.dumps(out, sort_keys=True, default=repr))


def _reply_message(norm):
    r = norm.get("response")
    if isinstance(r, list) and r and isinstance(r[0], dict):
        return r[0]
    if isinstance(r, dict):
        return r
    return {"role": "assistant", "content": r}


def _tables(case):
    """The case's LLM tables (shape "separator shift"): None, or {"replies": {user text: bot text}, "intents": {user text: intent}}."""
    if not case.get("replies") and not case.get("intents") and not case.get("err"):
        return None
    return {"replies": case.get("replies") or {}, "intents": case.get("intents") or {}, "err": case.get("err") or {}}


class Conv:
    """A conversation being served: message history as the caller keeps it + the fakes' session."""

    def __init__(self, cid, cfg, init, n_turns, options=None, stream=False, lat=None, tables=None):
        self.cid = cid
        self.session = DigestSession(cfg, n_turns, lat, tables=tables)
        self.session.cid = cid
        self.messages = [dict(m) for m in init]
        self.options = options
        self.stream = stream
        self.obs = []

    def request(self, text):
        return self.messages + [{"role": "user", "content": text}]

    def kwargs(self, text, handler):
        kw = {"messages": json.loads(json.dumps(self.request(text)))}
        if self.options is not None:
            kw["options"] = json.loads(json.dumps(self.options))
        if handler is not None:
            kw["streaming_handler"] = handler
        return kw

    def finish(self, text, n_llm, res, exc, handler, k0=None):
        o = {"req_k0": k0, "req_k1": _tick(), "raised": None, "result": None, "calls": _norm_calls(self.session.llm_calls[n_llm:]), "raw_calls": self.session.llm_calls[n_llm:], "chunks": None}
        self.messages.append({"role": "user", "content": text})
        if exc is not None:
            o["raised"] = f"{type(exc).__name__}: {exc}"[:400]
        else:
            o["result"] = _norm_result(res)
            msg = _reply_message(o["result"])
            o["message"] = msg
            self.messages.append(msg)
        if handler is not None:
            chunks = []
            while True:
                try:
                    chunks.append(handler.queue.get_nowait())
                except asyncio.QueueEmpty:
                    break
            o["chunks"] = json.loads(json.dumps(chunks, default=repr))
        self.obs.append(o)
        return o


def turn_sync(pipe, conv, t, text, api):
    handler = StreamingHandler() if (conv.stream and api == "async") else None
    kw = conv.kwargs(text, handler)
    n_llm = len(conv.session.llm_calls)
    tok = fakes.set_current(conv.session, t)
    res = exc = None
    k0 = _tick()
    try:
        if api == "async":
            res = pipeline.loop().run_until_complete(pipe.rails.generate_async(**kw))
        else:
            res = pipe.rails.generate(**kw)
    except Exception as e:
        exc = e
    finally:
        fakes.CURRENT.reset(tok)
    return conv.finish(text, n_llm, res, exc, handler, k0)


async def turn_async(pipe, conv, t, text):
    handler = StreamingHandler() if conv.stream else None
    kw = conv.kwargs(text, handler)
    n_llm = len(conv.session.llm_calls)
    fakes.set_current(conv.session, t)  # the surrounding task's context is private to it
    res = exc = None
    k0 = _tick()
    try:
        res = await pipe.rails.generate_async(**kw)
    except Exception as e:
        exc = e
    return conv.finish(text, n_llm, res, exc, handler, k0)


def _snip(a, b, width=70):
    a, b = str(a), str(b)
    i = 0
    while i < min(len(a), len(b)) and a[i] == b[i]:
        i += 1
    lo = max(0, i - 30)
    return f"...{a[lo:i + width]!r} vs isolated ...{b[lo:i + width]!r}"


def compare_turn(shared, iso, ordered):
    """All differences between the turn on the shared instance and in the isolated replay: [(what, sentence, call | None)],
    at most one per category (raised/prompts/params-start/params-end/reply/returned-*/stream)."""
    out = []
    if shared["raised"] != iso["raised"]:
        return [("reply", f"generate raised {shared['raised']!r}, isolated replay: {iso['raised']!r}", None)]
    sp = [c["prompt"] for c in shared["calls"]]
    ip = [c["prompt"] for c in iso["calls"]]
    same_prompts = (sp == ip) if ordered else (Counter(map(str, sp)) == Counter(map(str, ip)))
    if not same_prompts:
        extra = [p for p in sp if p not in ip]
        missing = [p for p in ip if p not in sp]
        if extra and missing:
            how = f"e.g. {shared['calls'][sp.index(extra[0])]['task']} prompt " + _snip(extra[0], missing[0])
        else:
            how = f"{len(sp)} prompts vs {len(ip)} in the isolated replay"
        out.append(("prompts", f"the LLM saw different prompts ({how})", None))
    else:
        key = lambda c: (str(c["task"]), str(c["prompt"]))  # noqa: E731
        sc, ic = list(zip(shared["calls"], shared["raw_calls"])), iso["calls"]
        if not ordered:
            sc, ic = sorted(sc, key=lambda x: key(x[0])), sorted(ic, key=key)
        seen = set()
        for (a, raw), b in zip(sc, ic):
            if a["stop"] != b["stop"] and "prompts" not in seen:
                seen.add("prompts")
                out.append(("prompts", f"{a['task']} call ran with stop={a['stop']!r}, isolated {b['stop']!r}", raw))
            for f, name in (("t_start", "temperature at call start"), ("mt_start", "max_tokens at call start")):
                if a[f] != b[f] and "params-start" not in seen:
                    seen.add("params-start")
                    out.append(("params-start", f"{a['task']} call ran with {name} = {a[f]!r}, isolated replay {b[f]!r}", (raw, f)))
            for f, name in (("t_end", "temperature at call end"), ("mt_end", "max_tokens at call end")):
                if a[f] != b[f] and "params-end" not in seen:
                    seen.add("params-end")
                    out.append(("params-end", f"{a['task']} call: {name} = {a[f]!r} (start {a[f.replace('end', 'start')]!r}), isolated replay {b[f]!r}", (raw, f)))
    if shared["result"] != iso["result"]:
        s, i = shared["result"] or {}, iso["result"] or {}
        if s.get("response") != i.get("response"):
            out.append(("reply", "reply " + _snip(json.dumps(s.get("response"), sort_keys=True), json.dumps(i.get("response"), sort_keys=True)), None))
        for k in sorted(set(s) | set(i)):
            if k != "response" and s.get(k) != i.get(k):
                out.append(("returned-" + k, f"returned {k} differs: " + _snip(json.dumps(s.get(k), sort_keys=True), json.dumps(i.get(k), sort_keys=True)), None))
    if shared["chunks"] != iso["chunks"]:
        out.append(("stream", f"streamed chunks {shared['chunks']!r}, isolated replay {iso['chunks']!r}"[:500], None))
    return out


# ------------------------------------------------------------------------------------------------
# harness-side model of the events cache (labels + signature of the key collision; NOT part of the oracle)


def _canon(msgs):
    return json.dumps([[m.get("role"), m.get("content")] for m in msgs], sort_keys=True, default=repr)


def lossy_key(msgs):
    """The key the instance uses for its events cache. The harness-side cache model (labels, not-judged rule and the
    signature of finding C15-F9a) follows the implementation's own key function, so that it stays exact whatever the key
    format is; a key function under which different message lists collide still shows up as `collision` below."""
    try:
        from nemoguardrails.rails.llm.utils import get_history_cache_key

        return get_history_cache_key([m for m in msgs if m["role"] in ("user", "assistant", "context", "event")])
    except Exception:
        pass
    items = []
    for m in msgs:
        if m["role"] in ("user", "assistant"):
            items.append(str(m["content"]))
        elif m["role"] == "context":
            items.append(json.dumps(m["content"]))
    return ":".join(items)


def instance_view(messages, options):
    if options is None:
        return list(messages)
    return [{"role": "context", "content": {"generation_options": GenerationOptions(**options).dict()}}] + list(messages)


def _joined(msgs):
    """(':'-joined text, role letters) of a message list - what is left of it when the message boundaries are forgotten."""
    ms = [m for m in msgs if m.get("role") in ("user", "assistant", "context")]
    return ":".join(_item(m) for m in ms), "".join(m["role"][0] for m in ms)


class CacheModel:
    def __init__(self):
        self.entries = {}  # lossy key -> {"exact", "conv", "tainted", "foreign"}
        self.own = defaultdict(set)  # conversation -> exact lists it stored itself
        self.spelled = defaultdict(dict)  # ':'-joined text -> {exact list: (conversation that was served it, role letters)}

    def spelling(self, cid, M):
        """Key-function independent label: the longest proper prefix of request M that has the same ':'-joined text as a
        DIFFERENT message list another conversation was served on the instance (same_roles: also the same roles, i.e. only
        the places where a ':' is a message boundary differ)."""
        for p in range(len(M) - 1, 0, -1):
            text, roles = _joined(M[:p])
            exact = _canon(M[:p])
            for other, (conv, r) in self.spelled.get(text, {}).items():
                if other != exact and conv != cid:
                    return {"p": p, "writer": conv, "same_roles": r == roles}
        return None

    def lookup(self, cid, M):
        """What a longest-prefix lookup keyed by the lossy key finds for request M of conversation cid."""
        for p in range(len(M) - 1, 0, -1):
            k = lossy_key(M[:p])
            e = self.entries.get(k)
            if e is not None:
                exact = _canon(M[:p])
                collision = e["exact"] != exact
                foreign = (not collision) and exact not in self.own[cid]
                return {"p": p, "of": len(M), "key": k, "writer": e["conv"], "collision": collision, "other": e["conv"] != cid,
                        "tainted": collision or e["tainted"], "foreign": foreign or e["foreign"], "stored_for": e["exact"] if collision else None}
        return None

    def write(self, cid, M, reply, hit):
        L = M + [reply]
        k = lossy_key(L)
        prev = self.entries.get(k)
        overwrite = prev is not None and prev["exact"] != _canon(L)
        self.entries[k] = {"exact": _canon(L), "conv": cid, "tainted": bool(hit and hit["tainted"]), "foreign": bool(hit and hit["foreign"])}
        self.own[cid].add(_canon(L))
        text, roles = _joined(L)
        self.spelled[text][_canon(L)] = (cid, roles)
        return overwrite


# ------------------------------------------------------------------------------------------------
# multi-step generation mode: what the shared run exercised (labels and non-triviality; NOT part of the oracle)


def _ms_facts(cfg, convs, labels):
    """Labels of the configuration mode "multi-step generation", from the LLM calls of the shared run.  Returns True when
    the instance was made to start the SAME LLM-written flow body for two different conversations."""
    ms = _ms_policy(cfg)
    if ms is None:
        return False
    labels += ["multi-step-generation", f"ms-bodies={ms['bodies']}", "ms-body-by=" + str(ms["by"]), f"ms-waiting-body-share={ms['span']}/3", f"ms-inline-message-share={ms['inline']}/3"]
    started = []  # (tick of the generate_next_steps call, conversation, body)
    reached = []  # (tick, conversation, bot intent): the conversation came to that bot step (LLM asked for its message)
    for c in convs:
        for o in c.obs:
            for rc in o["raw_calls"]:
                if rc["task"] == "generate_next_steps" and rc.get("answer") is not None:
                    started.append((rc["k0"], c.cid, str(rc["answer"])))
                elif rc["task"] == "generate_bot_message" and isinstance(rc.get("prompt"), str):
                    tail = rc["prompt"].rstrip().split("\n")[-1]
                    if tail.startswith("bot "):
                        reached.append((rc["k0"], c.cid, tail[4:].strip()))
    started.sort()
    if not started:
        return False
    labels.append("llm-wrote-a-flow-body")
    if any(len(_ms_bot_intents(b)) > 1 for _, _, b in started):
        labels.append("flow-body-of-several-steps")
    inline_nt = False
    for k1, c1, b1 in started:
        texts = _ms_inline_texts(b1)
        if not texts:
            continue
        labels.append("flow-body-carries-inline-bot-message")
        if any(i not in MS_CONFIGURED_BOT for i in texts):
            labels.append("inline-message-for-bot-intent-without-configured-message")
        for k2, c2, intent in reached:
            if c2 != c1 and k2 > k1 and intent in texts and not any(c3 == c2 and _ms_inline_texts(b3).get(intent) == texts[intent] for _, c3, b3 in started):
                # (the conversation that comes to the bot step later was given no text for it, or another one: every
                # generate_bot_message call of a judged turn is one the isolated replay makes too)
                labels.append("bot-intent-written-inline-for-one-conversation-reached-later-by-another")
                inline_nt = True
    if any(_ms_waits(b) for _, _, b in started):
        labels.append("generated-flow-waits-for-a-later-user-turn")
    same = False
    for x, (k1, c1, b1) in enumerate(started):
        for k2, c2, b2 in started[x + 1:]:
            if c1 == c2 or b1 != b2:
                continue
            same = True
            if _ms_waits(b1) and any(o["req_k0"] is not None and o["req_k0"] > k2 for o in convs[c1].obs if c1 < len(convs)):
                labels.append("conversation-with-a-waiting-generated-flow-continues-after-another-got-the-same-body")
            elif any(o["req_k0"] is not None and o["req_k0"] > k2 for o in convs[c1].obs if c1 < len(convs)):
                labels.append("conversation-continues-after-another-got-the-same-body")
    if same:
        labels.append("same-flow-body-started-for-two-conversations")
    return same or inline_nt


# ------------------------------------------------------------------------------------------------
# configuration dimension "max_length" / option shape "rail name lists": what the shared run exercised (labels and
# non-triviality; NOT part of the oracle)


def _maxlen_facts(cfg, shared, convs, iso_cuts, specs, labels):
    """Labels of the configuration dimension "max_length".  True when a request was served after (between two requests of one
    conversation / while a request was in flight) ANOTHER conversation's prompt overflowed on the shared instance, i.e. had
    events dropped from the start of its history."""
    if any(sp.get("pad") for sp in specs):
        labels.append("conversation-of-long-messages")
    if not cfg.get("maxlen"):
        return False
    labels.append("max_length-lowered-for=" + "+".join(sorted(cfg["maxlen"])))
    cuts = [c for c in shared.cuts if c["conv"] is not None]
    if not cuts:
        labels.append("no-prompt-overflowed")
        return False
    labels.append("prompt-overflowed(history-cut-from-the-start)")
    if any(c["dropped"] >= 8 for c in cuts):
        labels.append("overflow-dropped-8+-events")
    nt = False
    for conv in convs:
        reqs = [o for o in conv.obs if o.get("req_k0") is not None]
        alone = bool(iso_cuts.get(conv.cid))
        for a, b in zip(reqs, reqs[1:]):
            mid = [c for c in cuts if c["conv"] != conv.cid and a["req_k1"] < c["k"] < b["req_k0"]]
            if mid:
                nt = True
                labels.append("another-conversation-overflowed-between-two-turns-of-a-conversation-that-" + ("overflows-by-itself-too" if alone else "fits-when-served-alone"))
        if any(c["conv"] != conv.cid and reqs and c["k"] < reqs[-1]["req_k0"] for c in cuts):
            labels.append("request-served-after-another-conversation-overflowed")
            nt = True
        if any(c["conv"] != conv.cid and any(o["req_k0"] < c["k"] < o["req_k1"] for o in reqs) for c in cuts):
            labels.append("another-conversation-overflowed-while-a-request-was-in-flight")
            nt = True
    return nt


def _rails_list_facts(cfg, convs, specs, labels):
    """Labels of the option shape "rail name lists".  True when a request WITHOUT a rails option was in flight together with a
    request whose name lists leave out a configured rail (tick intervals of the requests overlap)."""
    with_lists = [i for i, sp in enumerate(specs) if sp.get("rails")]
    if not with_lists:
        return False
    labels.append("rails-option-with-name-lists")
    for i in with_lists:
        for cat, word in RAIL_CATS:
            if (specs[i].get("rails") or {}).get(cat) is not None:
                labels.append(f"name-list-for-{word}-rails" + ("(empty)" if not specs[i]["rails"][cat] else ""))
    leaving = [i for i in with_lists if _rails_left_out(specs[i], cfg)]
    if leaving:
        labels.append("name-list-leaves-out-a-configured-rail")
    nt = False
    for i in leaving:
        for j, sp in enumerate(specs):
            if j == i or sp.get("rails") or sp.get("rails_off"):
                continue
            if any(a["req_k0"] < b["req_k1"] and b["req_k0"] < a["req_k1"] for a in convs[i].obs for b in convs[j].obs if a.get("req_k0") and b.get("req_k0")):
                labels.append("request-without-rails-option-in-flight-together-with-a-name-list-request")
                nt = True
    return nt


# ------------------------------------------------------------------------------------------------
# leg "seq"


def _resolve_part(part, i, t, iso):
    """atom | ["ref", j, k] | ["key", j, k]  ->  text (references come from the isolated replays)."""
    if isinstance(part, str):
        return part
    what, j, k = part[0], int(part[1]) % (i + 1), int(part[2])
    src = iso.get(j)
    if src is None:
        return "a"
    n = len(src["replies"]) if j < i else min(t, len(src["replies"]))
    if n == 0:
        return "a"
    return str(src["replies"][k % n] if what == "ref" else src["keys"][k % n])


def _resolve_text(spec, i, t, iso):
    return ":".join(_resolve_part(p, i, t, iso) for p in spec)


def _item(m):
    return json.dumps(m["content"]) if m["role"] == "context" else str(m["content"])


def _respell(spec, i, iso):
    """Supplied history that *spells* the transcript conversation j had after its turn k - same ':'-joined text, but
    adjacent messages merged into one and/or roles changed (user <-> assistant, context -> its JSON text), optionally cut."""
    if i == 0:
        return []
    j, k = int(spec["respell"][0]) % i, int(spec["respell"][1])
    ts = iso[j]["transcripts"]
    if not ts:
        return []
    T = ts[k % len(ts)]
    merge, roles = list(spec.get("merge") or [False]), list(spec.get("roles") or [0])
    groups = [[T[0]]]
    for b in range(1, len(T)):
        if merge[(b - 1) % len(merge)]:
            groups[-1].append(T[b])
        else:
            groups.append([T[b]])
    out = []
    for g, grp in enumerate(groups):
        choice = int(roles[g % len(roles)]) % 2  # 0 keep, 1 swap user <-> assistant (context -> user)
        if len(grp) == 1 and choice == 0:
            out.append(dict(grp[0]))
            continue
        orig = grp[0]["role"]
        role = ("assistant" if orig == "user" else "user") if choice else (orig if orig in ("user", "assistant") else "user")
        out.append({"role": role, "content": ":".join(_item(m) for m in grp)})
    for where, direction in spec.get("shift") or []:
        out = _shift_boundary(out, int(where), int(direction))
    if spec.get("ctx") and out and out[0]["role"] in ("user", "assistant") and isinstance(out[0]["content"], str):
        # the other way round: a leading TEXT that is the JSON text of an object arrives as the context message it spells
        try:
            obj = json.loads(out[0]["content"])
        except ValueError:
            obj = None
        if isinstance(obj, dict):
            out[0] = {"role": "context", "content": obj}
    cut = int(spec.get("cut") or 0)
    if cut:
        out = out[: max(1, len(out) - cut % len(out))]
    return out


def _shift_boundary(msgs, where, direction):
    """Moves the boundary between two adjacent text messages across one ':' - direction 0: the part after the last ':' of the
    earlier message becomes the head of the later one (`a:b` / `c` -> `a` / `b:c`), 1: the part before the first ':' of the later
    message becomes the tail of the earlier one.  Number of messages, roles and the ':'-joined text stay what they were; only
    WHERE a ':' is a message boundary changes.  The `where`-th boundary (cyclically) at which that is possible without leaving
    an empty message; no change when there is none."""
    n = len(msgs)
    for off in range(max(0, n - 1)):
        b = (where + off) % (n - 1)
        x, y = msgs[b], msgs[b + 1]
        if not all(m["role"] in ("user", "assistant") and isinstance(m["content"], str) for m in (x, y)):
            continue
        if direction % 2 == 0:
            head, sep, tail = x["content"].rpartition(":")
            new = (head, tail + ":" + y["content"])
        else:
            head, sep, tail = y["content"].partition(":")
            new = (x["content"] + ":" + head, tail)
        if not sep or not new[0] or not new[1]:
            continue
        out = [dict(m) for m in msgs]
        out[b]["content"], out[b + 1]["content"] = new
        return out
    return msgs


def _resolve_init(init, i, iso):
    out = []
    for m in init:
        if "respell" in m:
            out.extend(_respell(m, i, iso))
        elif m["role"] == "context":
            out.append({"role": "context", "content": m["content"]})
        else:
            out.append({"role": m["role"], "content": _resolve_text(m["text"], i, 0, iso)})
    return out


RAIL_CATS = (("in", "input"), ("out", "output"), ("ret", "retrieval"))


def _rails_lists(spec, cfg):
    """options.rails with LISTS OF RAIL NAMES (the documented form of GenerationRailsOptions: "If a list of names is specified,
    then only the specified ... rails will be applied"): spec key "rails" = {"in" | "out" | "ret": [indices of configured rails
    of that category]} -> {"input" | "output" | "retrieval": [flow names]}; an empty list is a valid value too."""
    out = {}
    for cat, word in RAIL_CATS:
        sel = (spec.get("rails") or {}).get(cat)
        if sel is None or cfg is None:
            continue
        n = int(cfg.get("ret", 0)) if cat == "ret" else len(cfg.get(cat, []))
        out[word] = [pipeline.rail_flow_name(cat, int(x), "ret" if cat == "ret" else cfg[cat][int(x)]) for x in sel if 0 <= int(x) < n]
    return out


def _rails_left_out(spec, cfg):
    """Configured rails that the name lists of the request's options do NOT name: [(category, index)]."""
    out = []
    for cat, _ in RAIL_CATS:
        sel = (spec.get("rails") or {}).get(cat)
        if sel is not None:
            n = int(cfg.get("ret", 0)) if cat == "ret" else len(cfg.get(cat, []))
            out += [(cat, x) for x in range(n) if x not in [int(y) for y in sel]]
    return out


def _conv_options(spec, cfg=None):
    """Generation options of a conversation of the sequential leg, the same for all its turns; None = the calls are made
    without any `options` argument."""
    opts = {}
    lp = {}
    if spec.get("temp") is not None:
        lp["temperature"] = spec["temp"]
    if spec.get("mt") is not None:
        lp["max_tokens"] = spec["mt"]
    if lp:
        opts["llm_params"] = lp
    if spec.get("log"):
        opts["log"] = {"activated_rails": True, "llm_calls": True, "colang_history": spec["log"] == "history"}
    if spec.get("rails_off"):
        opts["rails"] = {spec["rails_off"]: False}
    lists = _rails_lists(spec, cfg)
    if lists:
        opts["rails"] = dict(opts.get("rails") or {}, **lists)
    return opts or None


def _drive(gen, api):
    """Runs a generator that yields (pipe, conv, t, text) requests and is sent the observation of each turn.

    api "sync" / "async": every turn is its own `generate` / `run_until_complete(generate_async)` call, i.e. runs in a fresh
    copy of the caller's context.  api "onecoro": ALL turns are awaited one after the other inside ONE coroutine, the way an
    async server handler or a batch script does - they share one context (contextvars set by a call stay visible to the next)."""
    if api != "onecoro":
        try:
            req = next(gen)
            while True:
                req = gen.send(turn_sync(*req, api))
        except StopIteration as e:
            return e.value

    async def main():
        try:
            req = next(gen)
            while True:
                req = gen.send(await turn_async(*req))
        except StopIteration as e:
            return e.value

    return pipeline.loop().run_until_complete(main())


CANARY_NAME = "CANARYNAME"
CANARY_TEXT = "canary says hello"


class Canary:
    """Keeps the isolated replays independent of the shared run (configuration dimension "context variable in a predefined
    message").  The reference of the differential is "the conversation alone on a fresh instance"; the worker process,
    however, has served other instances before (earlier cases, the other replays of this case), and state that lives outside
    the instance would make a replay computed AFTER a conversation with the variable agree with the shared run for the wrong
    reason.  So a throw-away instance of the same configuration - never the shared one, never a replay's - serves a
    conversation of its own (context variable user_name = CANARY_NAME, which no conversation of a case uses; a text the LLM
    reads as a greeting) immediately before every isolated replay and immediately before the shared run: whatever another
    instance can leave behind in the process is then the same before each of them.  By the statement (and on the unchanged
    tree) a different instance has no influence at all, so this changes nothing for a correct implementation."""

    def __init__(self, case):
        self.case, self.n, self.k = case, 0, None
        self.pipe = Pipe(case["config"], case["llm"])

    def serve(self):
        """One canary conversation.  The rails of the configuration are pure functions of the text: the first of a fixed list
        of texts that gets through them to the greeting is used from then on (a refused try stays on the canary instance)."""
        cfg, api = self.case["config"], self.case.get("api", "sync")
        pipe, last = self.pipe, None
        for k in ([self.k] if self.k is not None else range(16)):
            self.n += 1
            text = f"{CANARY_TEXT} {k}"
            conv = Conv(-self.n, cfg, [{"role": "context", "content": {"user_name": CANARY_NAME}}], 1, tables={"intents": {text: fakes.ROUTES["predef"][0]}})

            def one(conv=conv, text=text):
                o = yield (pipe, conv, 0, text)
                return o

            o = last = _drive(one(), api)
            if o["raised"] is None and CANARY_NAME in str(o["message"].get("content")):
                self.k = k
                return
        raise RuntimeError(f"c15 harness: the canary conversation did not get the greeting with its own name: {last['raised'] or last['message']}")


def _has_name(spec):
    return any(m.get("role") == "context" and isinstance(m.get("content"), dict) and "user_name" in m["content"] for m in spec.get("init", []))


def _greetvar_facts(cfg, case, convs, sched, labels):
    """Labels / non-triviality of the dimension "context variable in a predefined message": a conversation WITHOUT the variable
    got the greeting from the shared instance after a conversation WITH the variable had got it."""
    if not cfg.get("greetvar"):
        return False
    labels.append("greeting-refers-to-$user_name")
    nxt, named_before, nt = [0] * len(convs), False, False
    for i in sched:
        t = nxt[i]
        nxt[i] += 1
        o = convs[i].obs[t] if t < len(convs[i].obs) else None
        if o is None or o["raised"] is not None or fakes.PREDEF["greet"] not in str(o["message"].get("content")):
            continue
        if _has_name(case["convs"][i]):
            named_before = True
            labels.append("greeting-for-a-conversation-with-$user_name")
        else:
            labels.append("greeting-for-a-conversation-without-$user_name" + ("-after-one-with-it" if named_before else ""))
            nt = nt or named_before
    return nt


def _err_facts(case, convs, sched, labels):
    """Labels / non-triviality of the dimension "LLM errors": another conversation was served after a failed LLM call."""
    if not case.get("err"):
        return False
    labels.append("llm-errors:" + "+".join(case["err"].get("tasks") or []))
    nxt, failed_by, nt = [0] * len(convs), None, False
    for i in sched:
        t = nxt[i]
        nxt[i] += 1
        o = convs[i].obs[t] if t < len(convs[i].obs) else None
        if o is None:
            continue
        if failed_by is not None and i != failed_by:
            labels.append("other-conversation-served-after-a-failed-llm-call")
            nt = True
        for rc in o["raw_calls"]:
            if rc.get("failed"):
                labels.append("llm-call-failed:" + str(rc["task"]))
                labels.append("request-with-failed-llm-call-" + ("raised" if o["raised"] is not None else "answered"))
                if failed_by is None:
                    failed_by = i
    return nt


def _opt_facts(case, shared, sched, labels):
    """Labels of the LLM variant opt<n> (declared parameter configured as None next to model_kwargs), from the recorded
    `with llm_params` blocks of the shared run.  True when a block altered such a parameter and a turn of ANOTHER conversation
    was served on the instance afterwards."""
    if not str(case.get("llm", "")).startswith("opt"):
        return False
    unset = {p for p, v in shared.configured.items() if v is None}
    hits = {e["conv"] for e in shared.ptrace if e["ev"] == "enter" and unset & set(e["params"])}
    if not hits:
        return False
    labels.append("block-alters-declared-parameter-configured-as-None")
    first = min((x for x, i in enumerate(sched) if i in hits), default=None)
    if first is not None and any(i != sched[first] for i in sched[first + 1:]):
        labels.append("...then-other-conversation-served")
        return True
    return False


def _seq_isolated(case, problems, canary=None):
    """Replays every conversation alone on a fresh instance (index order, so references can be resolved)."""
    cfg, api = case["config"], case.get("api", "sync")
    iso = {}
    for i, spec in enumerate(case["convs"]):
        if canary:
            canary.serve()
        pipe = Pipe(cfg, case["llm"])
        rec = {"replies": [], "keys": [], "texts": [], "obs": [], "init": None, "transcripts": [], "ptrace": pipe.ptrace, "cuts": pipe.cuts}
        iso[i] = rec
        rec["init"] = _resolve_init(spec.get("init", []), i, iso)
        conv = Conv(i, cfg, rec["init"], len(spec["users"]), _conv_options(spec, cfg), bool(spec.get("stream")), tables=_tables(case))
        _drive(_seq_isolated_one(i, spec, pipe, conv, rec, iso, problems), api)
    return iso


def _seq_isolated_one(i, spec, pipe, conv, rec, iso, problems):
    for t, tspec in enumerate(spec["users"]):
        text = _resolve_text(tspec, i, t, iso) + _pad(i, spec.get("pad")) + (" " + ERR_MARKER if t in (spec.get("boom") or ()) else "")
        rec["texts"].append(text)
        o = yield (pipe, conv, t, text)
        rec["obs"].append(o)
        prob = pipe.params_problem()
        if prob and not any(v.kind == _rest_kind(prob.none_added) for v in problems):
            problems.append(Violation(_rest_kind(prob.none_added), f"[seq/isolated] conversation {i} alone on a fresh instance, after turn {t} (LLM calls {[c['task'] for c in o['calls']]}): {prob}",
                                      pipe.rest_detail(prob, leg="seq", sequential=True, isolated=True)))
        rec["replies"].append(str(o["message"].get("content")) if o["raised"] is None else "a")
        rec["keys"].append(lossy_key(conv.messages))
        rec["transcripts"].append(json.loads(json.dumps(conv.messages)))


def _seq_schedule(case):
    left = [len(c["users"]) for c in case["convs"]]
    order = list(case.get("order", []))
    out, j = [], 0
    while any(left):
        alive = [i for i, n in enumerate(left) if n]
        pick = alive[(order[j] if j < len(order) else 0) % len(alive)]
        j += 1
        out.append(pick)
        left[pick] -= 1
    return out


FILLER = 1000  # conversation ids of the "many conversations in between" start here


def _filler_text(k, atom):
    return f"filler {k} {atom}"


def _between(case):
    """(after_step, n, atom) of the case feature "between": n cheap single-turn conversations (unique texts, no options)
    are served by the shared instance after schedule step `after_step`; (None, 0, "") without it."""
    b = case.get("between")
    if not b or not int(b.get("n", 0)):
        return None, 0, ""
    return int(b.get("after", 0)), int(b["n"]), str(b.get("atom", "hi"))


def _filler_isolated(case, ks, problems, canary=None):
    """Isolated replays of the fillers that are judged (the first and the last one - each costs a fresh instance)."""
    cfg, api = case["config"], case.get("api", "sync")
    atom = _between(case)[2]
    out = {}
    for k in ks:
        if canary:
            canary.serve()
        pipe = Pipe(cfg, case["llm"])
        conv = Conv(FILLER + k, cfg, [], 1, tables=_tables(case))

        def one(pipe=pipe, conv=conv, k=k):
            o = yield (pipe, conv, 0, _filler_text(k, atom))
            return o

        out[k] = {"obs": _drive(one(), api), "ptrace": pipe.ptrace}
    return out


def run_seq(case, problems):
    cfg, api = case["config"], case.get("api", "sync")
    labels = ["leg=seq", "llm=" + case["llm"], "api=" + api, "dialog" if cfg.get("dialog") else "general-mode", f"convs={len(case['convs'])}"]
    for cat in ("in", "out"):
        for k in cfg.get(cat, []):
            labels.append(f"{cat}-rail={k}")
    canary = Canary(case) if cfg.get("greetvar") else None
    iso = _seq_isolated(case, problems, canary)
    shared = Pipe(cfg, case["llm"])
    convs = [Conv(i, cfg, iso[i]["init"], len(s["users"]), _conv_options(s, cfg), bool(s.get("stream")), tables=_tables(case)) for i, s in enumerate(case["convs"])]
    if case.get("replies"):
        labels.append("llm-replies-from-case-table" + ("+intents" if case.get("intents") else ""))
    if case.get("shape"):
        labels.append("shape=" + str(case["shape"]))
    for s in case["convs"]:
        if s.get("init") and s["init"][0].get("role") == "context" and s["init"][0].get("content") == {}:
            labels.append("conversation-begins-with-EMPTY-context-message")
        if s.get("users") and s["users"][0] and all(isinstance(p, str) for p in s["users"][0]) and ":".join(s["users"][0]) in JSON_TEXTS and not s.get("init"):
            labels.append("first-user-text-is-':'-free-JSON-text({},[],{ })")
        if any("respell" in m for m in s.get("init", [])):
            labels.append("supplied-history-spells-other-transcript")
            if any(m.get("ctx") for m in s.get("init", []) if "respell" in m):
                labels.append("supplied-history-turns-leading-JSON-text-into-context-message")
            if any(m.get("shift") for m in s.get("init", []) if "respell" in m):
                labels.append("supplied-history-with-a-message-boundary-moved-across-':'")
        elif s.get("init"):
            labels.append("supplied-history")
        if s.get("log"):
            labels.append("log-option")
        if s.get("stream") and api != "sync":
            labels.append("streaming")
        if s.get("temp") is not None or s.get("mt") is not None:
            labels.append("llm_params-option")
    if len({json.dumps(c.options, sort_keys=True) for c in convs}) > 1:
        labels.append("conversations-with-different-options")
        specs = case["convs"]
        if any(a is not b and a["init"] == b["init"] and a["users"] == b["users"] and _conv_options(a, cfg) != _conv_options(b, cfg) for a in specs for b in specs):
            labels.append("same-messages-different-options")
        if any(c.options is None for c in convs):
            labels.append("some-conversation-without-options")
    model = CacheModel()
    unjudged, tainted_convs, diverged = set(), set(), set()
    sched = _seq_schedule(case)
    switches = sum(1 for a, b in zip(sched, sched[1:]) if a != b)
    labels.append("interleaved" if any(sched[x] != sched[x + 1] and sched[x] in sched[x + 1:] for x in range(len(sched) - 1)) else "back-to-back")
    state = {"nt": False}
    after, n_fill, _ = _between(case)
    judged_fill = sorted({0, n_fill - 1}) if n_fill else []
    fill_iso = _filler_isolated(case, judged_fill, problems, canary) if n_fill else {}
    if n_fill:
        labels.append("conversations-in-between=" + ("1-9" if n_fill < 10 else "10-127" if n_fill < 128 else "128+"))
        # which conversation has a turn before AND after the fillers (its cached history has to survive them)
        if after is not None and any(i in sched[after + 1:] for i in sched[:after + 1]):
            labels.append("conversation-continues-after-the-conversations-in-between")
    if canary:
        canary.serve()
    _drive(_seq_shared(case, shared, convs, iso, sched, model, labels, problems, unjudged, tainted_convs, diverged, state, fill_iso), api)
    skip = unjudged | diverged | {FILLER + k for k in range(n_fill) if k not in fill_iso}
    _set_blocks_match(problems, _blocks_match(shared.ptrace, [iso[i]["ptrace"] for i in iso] + [f["ptrace"] for f in fill_iso.values()], skip=skip))
    nt = _ms_facts(cfg, convs, labels) or state["nt"]
    nt = _maxlen_facts(cfg, shared, convs, {i: iso[i]["cuts"] for i in iso}, case["convs"], labels) or nt
    _rails_list_facts(cfg, convs, case["convs"], labels)
    nt = _greetvar_facts(cfg, case, convs, sched, labels) or nt
    nt = _err_facts(case, convs, sched, labels) or nt
    nt = _opt_facts(case, shared, sched, labels) or nt
    if unjudged:
        labels.append("some-conversation-not-judged")
    labels.append(f"switches={min(switches, 4)}{'+' if switches > 4 else ''}")
    view = {
        "leg": "seq", "config": cfg, "llm": case["llm"], "api": api, "schedule": sched,
        "conversations": [{"supplied_history": iso[i]["init"], "users": iso[i]["texts"], "options": convs[i].options,
                           "replies": [o["message"].get("content") if o["raised"] is None else o["raised"] for o in convs[i].obs]} for i in range(len(convs))],
    }
    return ok(nt=nt, labels=sorted(set(labels)), view=json.loads(json.dumps(view, default=repr)))


def _seq_fillers(case, shared, problems, diverged, fill_iso, step):
    """The "conversations in between": n single-turn conversations served one after the other on the shared instance."""
    _, n, atom = _between(case)
    cfg = case["config"]
    for k in range(n):
        conv = Conv(FILLER + k, cfg, [], 1, tables=_tables(case))
        text = _filler_text(k, atom)
        o = yield (shared, conv, 0, text)
        where = f"[seq] conversation in between #{k} of {n} (after step {step}, request {json.dumps(conv.request(text))[:200]})"
        prob = shared.params_problem()
        if prob and not any(v.kind == _rest_kind(prob.none_added) for v in problems):
            problems.append(Violation(_rest_kind(prob.none_added), f"{where}: after the turn, no request in flight: {prob}", shared.rest_detail(prob, leg="seq", sequential=True)))
        if k in fill_iso:
            diffs = compare_turn(o, fill_iso[k]["obs"], ordered=False)
            if diffs:
                diverged.add(FILLER + k)
                what, sentence, extra = diffs[0]
                detail = {"leg": "seq", "what": what, "conv": FILLER + k, "turn": 0, "hit": None, "tainted": False}
                if what in ("params-start", "params-end") and extra is not None:
                    rc, f = extra
                    conf = shared.configured.get("model_kwargs", shared.configured)
                    detail.update(shared.call_detail(rc, f, sequential=True, unconfigured_param=("temperature" if f.startswith("t_") else "max_tokens") not in conf))
                    problems.append(Violation("llm-params-leak" if what == "params-start" else "llm-params-changed-during-call", f"{where}: {sentence}; sequential, no other request in flight", detail))
                else:
                    problems.append(Violation("seq-" + what, f"{where}: {sentence}", detail))


def _seq_shared(case, shared, convs, iso, sched, model, labels, problems, unjudged, tainted_convs, diverged, state, fill_iso=None):
    """All turns of the interleaving on the shared instance (a generator driven by `_drive`)."""
    nxt = [0] * len(convs)
    after = _between(case)[0]
    for step, i in enumerate(sched):
        if after is not None and step == after + 1:
            yield from _seq_fillers(case, shared, problems, diverged, fill_iso or {}, after)
        conv, t = convs[i], nxt[i]
        nxt[i] += 1
        text = iso[i]["texts"][t]
        M = instance_view(conv.request(text), conv.options)
        hit = model.lookup(i, M)
        sp = model.spelling(i, M)
        if sp:
            labels.append("prefix-spells-history-of-other-conversation-" + ("with-other-boundaries-same-roles" if sp["same_roles"] else "with-other-roles-or-message-count"))
            if sp["same_roles"]:
                labels.append("...that-history-was-stored-" + ("after-this-conversation's-previous-turn" if any(x == sp["writer"] for x in sched[max([y for y in range(step) if sched[y] == i], default=0):step]) else "earlier"))
                state["nt"] = True
        where = f"[seq] conversation {i} turn {t} (step {step} of schedule {sched}, request {json.dumps(conv.request(text))[:300]})"
        o = yield (shared, conv, t, text)
        if hit:
            if hit["collision"]:
                labels.append("lossy-key-collision" + ("" if hit["other"] else "-within-conversation"))
                state["nt"] = state["nt"] or hit["other"]
            elif hit["other"]:
                labels.append("identical-prefix-of-other-conversation")
                state["nt"] = True
            if hit["foreign"]:
                labels.append("resumed-foreign-history(not judged)")
                unjudged.add(i)
            if hit["tainted"]:
                tainted_convs.add(i)
                if not hit["collision"]:
                    labels.append("entry-descends-from-collision")
        if o["raised"] is None:
            if model.write(i, M, o["message"], hit):
                labels.append("key-overwrite")
                state["nt"] = True
        else:
            labels.append("generate-raised")
        prob = shared.params_problem()
        if prob and not any(v.kind == _rest_kind(prob.none_added) for v in problems):
            problems.append(Violation(_rest_kind(prob.none_added), f"{where}: after the turn, no request in flight: {prob}", shared.rest_detail(prob, leg="seq", sequential=True)))
        if i in unjudged or i in diverged:
            continue
        diffs = compare_turn(o, iso[i]["obs"][t], ordered=False)
        if diffs:
            diverged.add(i)  # its history differs from now on; the other conversations are still judged
            what, sentence, extra = diffs[0]
            detail = {"leg": "seq", "what": what, "conv": i, "turn": t, "hit": hit, "tainted": i in tainted_convs}
            if what in ("params-start", "params-end") and extra is not None and i not in tainted_convs:
                rc, f = extra
                conf = shared.configured.get("model_kwargs", shared.configured)
                detail.update(shared.call_detail(rc, f, sequential=True, unconfigured_param=("temperature" if f.startswith("t_") else "max_tokens") not in conf))
                problems.append(Violation("llm-params-leak" if what == "params-start" else "llm-params-changed-during-call", f"{where}: {sentence}; sequential, no other request in flight", detail))
                continue
            if i in tainted_convs:
                if hit and hit["tainted"]:
                    sig = (f"the ':'-joined key {hit['key']!r} of the first {hit['p']} of its {hit['of']} messages is the key under which conversation {hit['writer']} stored "
                           f"the events of a different message list ({(hit['stored_for'] or 'an entry that itself descends from a collision')[:200]})")
                else:
                    sig = "an earlier request of this conversation was answered from a colliding cache entry"
                problems.append(Violation("cache-key-collision", f"{where}: {sentence}. Cache signature: {sig}", detail))
            else:
                problems.append(Violation("seq-" + what, f"{where}: {sentence}; no cache-key collision involved (harness model of the cache: {hit})", detail))
    if after is not None and after + 1 >= len(sched):
        yield from _seq_fillers(case, shared, problems, diverged, fill_iso or {}, after)


# ------------------------------------------------------------------------------------------------
# leg "conc"


def _task_options(ts, cfg=None):
    opts = {}
    lp = {}
    if ts.get("temp") is not None:
        lp["temperature"] = ts["temp"]
    if ts.get("mt") is not None:
        lp["max_tokens"] = ts["mt"]
    if lp:
        opts["llm_params"] = lp
    if ts.get("log"):
        opts["log"] = {"activated_rails": True, "llm_calls": True}
    lists = _rails_lists(ts, cfg)
    if lists:
        opts["rails"] = lists
    return opts or None


def _task_texts(i, ts):
    return [f"t{i}u{t} {atom}" + _pad(i, ts.get("pad")) for t, atom in enumerate(ts["users"])]


def _run_loop(coro_fn):
    loop = vclock.VirtualLoop(max_steps=MAX_STEPS)
    interrupted = True
    try:
        with loop.alarm_relay():
            out = loop.run_until_complete(coro_fn(loop))
        interrupted = False
        return out
    except Exception:
        interrupted = False
        raise
    finally:
        loop.shutdown(run_cancelled=not interrupted)


def _conc_isolated(case, problems):
    cfg = case["config"]
    iso = []
    for i, ts in enumerate(case["tasks"]):
        pipe = Pipe(cfg, case["llm"])
        conv = Conv(i, cfg, [], len(ts["users"]), _task_options(ts, cfg), bool(ts.get("stream")), ts.get("lat"))
        texts = _task_texts(i, ts)

        async def main(loop, pipe=pipe, conv=conv, texts=texts):
            first = []
            for t, text in enumerate(texts):
                await turn_async(pipe, conv, t, text)
                prob = pipe.params_problem()
                if prob:
                    p2 = _Prob(f"after turn {t}: {prob}")
                    p2.none_added, p2.tick, p2.now = prob.none_added, prob.tick, prob.now
                    first.append(p2)
            return first[0] if first else None

        prob = _run_loop(main)
        if prob and not any(v.kind == _rest_kind(prob.none_added) for v in problems):
            problems.append(Violation(_rest_kind(prob.none_added), f"[conc/isolated] task {i} alone on a fresh instance (options {conv.options}), {prob}", pipe.rest_detail(prob, leg="conc", sequential=True, isolated=True)))
        conv.ptrace, conv.cuts = pipe.ptrace, pipe.cuts
        iso.append(conv)
    return iso


def run_conc(case, problems):
    cfg = case["config"]
    tasks = case["tasks"]
    labels = ["leg=conc", "llm=" + case["llm"], "dialog" if cfg.get("dialog") else "general-mode", f"tasks={len(tasks)}"]
    for cat in ("in", "out"):
        for k in cfg.get(cat, []):
            labels.append(f"{cat}-rail={k}")
    iso = _conc_isolated(case, problems)
    shared = Pipe(cfg, case["llm"])
    convs = [Conv(i, cfg, [], len(ts["users"]), _task_options(ts, cfg), bool(ts.get("stream")), ts.get("lat")) for i, ts in enumerate(tasks)]
    state = {"active": 0, "idle_problems": [], "idle_checks": 0}

    def idle_check(when, loop):
        state["idle_checks"] += 1
        prob = shared.params_problem()
        if prob:
            state["idle_problems"].append((prob, f"{when} at virtual time {loop.time():.4f} (no request in flight): {prob}"))

    async def one(loop, i):
        if tasks[i]["start"]:
            await asyncio.sleep(tasks[i]["start"])
        for t, text in enumerate(_task_texts(i, tasks[i])):
            if state["active"] == 0:
                idle_check(f"before task {i} turn {t}", loop)
            state["active"] += 1
            try:
                await turn_async(shared, convs[i], t, text)
            finally:
                state["active"] -= 1
            if state["active"] == 0:
                idle_check(f"after task {i} turn {t}", loop)

    async def main(loop):
        await asyncio.gather(*[loop.create_task(one(loop, i)) for i in range(len(tasks))])
        idle_check("after all tasks finished", loop)

    _run_loop(main)

    # schedule facts (labels, non-triviality, signature of the parameter race).  Intervals are in *ticks*: the order of
    # the harness's observation points, which refines virtual time (tasks also interleave at equal virtual instants,
    # LangChain's agenerate yields to the loop even with zero latency).
    calls = []
    for i, conv in enumerate(convs):
        for t, o in enumerate(conv.obs):
            exp = iso[i].obs[t]["calls"] if t < len(iso[i].obs) else []
            marks = [o["req_k0"]] + [x for rc in o["raw_calls"] for x in (rc["k0"], rc["k1"])] + [o["req_k1"]]
            for k, rc in enumerate(o["raw_calls"]):
                # the `with llm_params(...)` block around the call lies between the task's previous and next observation point
                calls.append({"task": i, "turn": t, "k": k, "k0": rc["k0"], "k1": rc["k1"], "e0": marks[2 * k], "e1": marks[2 * k + 3], "got": rc, "exp": exp[k] if k < len(exp) else None})
    mk = shared.configured.get("model_kwargs", {})
    conf_pair = (shared.configured.get("temperature", mk.get("temperature", UNSET)), shared.configured.get("max_tokens", mk.get("max_tokens", UNSET)))
    overlapping, crossing, racing = 0, 0, []
    for x in range(len(calls)):
        for y in range(x + 1, len(calls)):
            a, b = calls[x], calls[y]
            if a["task"] == b["task"]:
                continue
            if a["k0"] < b["k1"] and b["k0"] < a["k1"]:
                overlapping += 1
                first, second = (a, b) if a["k0"] < b["k0"] else (b, a)
                if second["k1"] > first["k1"]:
                    crossing += 1
            if a["e0"] < b["e1"] and b["e0"] < a["e1"] and any(c["exp"] and (c["exp"]["t_start"], c["exp"]["mt_start"]) != conf_pair for c in (a, b)):
                racing.append((max(a["e0"], b["e0"]), a["task"], b["task"]))
    nt = _ms_facts(cfg, convs, labels) or crossing > 0
    nt = _maxlen_facts(cfg, shared, convs, {i: c.cuts for i, c in enumerate(iso)}, tasks, labels) or nt
    nt = _rails_list_facts(cfg, convs, tasks, labels) or nt
    labels.append("overlap=" + ("crossing" if crossing else "nested-only" if overlapping else "none"))
    vt_cross = any(a["task"] != b["task"] and a["got"]["vt0"] < b["got"]["vt0"] < a["got"]["vt1"] < b["got"]["vt1"] for a in calls for b in calls)
    if vt_cross:
        labels.append("crossing-in-virtual-time")
    if racing:
        labels.append("overlapping-calls-with-altered-params")
    if _disjoint_overlap(shared.ptrace):
        labels.append("overlap-later-block-alters-param-the-open-block-does-not-cover")
    if any(ts.get("temp") is not None or ts.get("mt") is not None for ts in tasks):
        labels.append("llm_params-option")
    if case.get("pshape"):
        labels.append("params-shape=" + case["pshape"])
    if case.get("oshape"):
        labels.append("options-shape=" + case["oshape"])
    if any(ts.get("stream") for ts in tasks):
        labels.append("streaming")
    if any(ts.get("log") for ts in tasks):
        labels.append("log-option")
    labels.append(f"idle-observations={min(state['idle_checks'], 6)}{'+' if state['idle_checks'] > 6 else ''}")

    def race_detail(i, at=None):
        """Schedule facts for the message: `with llm_params` blocks of different tasks, at least one of them altering a
        parameter, were open at the same time before the observation (classification is done by the defect model, see `known`)."""
        before = [r for r in racing if at is None or r[0] <= at]
        return {"leg": "conc", "n_racing_pairs": len(before)}

    # differential
    for i, conv in enumerate(convs):
        for t, o in enumerate(conv.obs):
            where = f"[conc] task {i} turn {t} (options {conv.options}, start offset {tasks[i]['start']}, {len(tasks)} tasks on one instance)"
            for what, sentence, extra in compare_turn(o, iso[i].obs[t], ordered=True):
                if what in ("params-start", "params-end") and extra is not None:
                    rc, f = extra
                    d = race_detail(i, rc["k0"] if what == "params-start" else rc["k1"])
                    d.update(shared.call_detail(rc, f, what=what, unconfigured_param=conf_pair[0 if f.startswith("t_") else 1] == UNSET))
                    kind = "llm-params-leak" if what == "params-start" else "llm-params-changed-during-call"
                    problems.append(Violation(kind, f"{where}: {sentence}; call in flight {rc['vt0']:.4f}-{rc['vt1']:.4f} virtual s; {d['n_racing_pairs']} pairs of `with llm_params` blocks of different tasks (at least one altering a parameter) were open at the same time before that observation", d))
                else:
                    problems.append(Violation("conc-" + what, f"{where}: {sentence}", {"leg": "conc", "what": what, "overlap": bool(racing)}))
    if state["idle_problems"]:
        prob, msg = state["idle_problems"][0]
        none_added = prob.none_added
        d = race_detail(-1, prob.tick)
        d.update(shared.rest_detail(prob, what="idle"))
        problems.append(Violation(_rest_kind(none_added), f"[conc] {len(tasks)} tasks on one instance: {msg}; {d['n_racing_pairs']} pairs of `with llm_params` blocks of different tasks (at least one altering a parameter) were open at the same time before that observation", d))
    _set_blocks_match(problems, _blocks_match(shared.ptrace, [c.ptrace for c in iso]))
    view = {
        "leg": "conc", "config": cfg, "llm": case["llm"],
        "tasks": [{"start": ts["start"], "options": convs[i].options, "stream": bool(ts.get("stream")), "latencies": ts.get("lat"), "users": _task_texts(i, ts),
                   "calls": [[c["task"], c["vt0"], c["vt1"], c["t_start"]] for o in convs[i].obs for c in o["raw_calls"]],
                   "replies": [o["message"].get("content") if o["raised"] is None else o["raised"] for o in convs[i].obs]} for i, ts in enumerate(tasks)],
    }
    return ok(nt=nt, labels=sorted(set(labels)), view=json.loads(json.dumps(view, default=repr)))


# ------------------------------------------------------------------------------------------------
# leg "v2": Colang 2.x, the library's `llm continuation` (LLM-generated flows), state handed back by the caller


class V2Conv(Conv):
    """A Colang 2.x conversation: every call passes the new user message and the state object the previous call returned
    ({} on the first turn), as the documented `generate_async(messages=..., state=...)` usage does."""

    def __init__(self, cid, cfg, n_turns, lat=None, llmc=None):
        super().__init__(cid, cfg, [], n_turns, None, False, lat)
        self.session = DigestSession(cfg, n_turns, lat, llmc)
        self.session.cid = cid
        self.state = {}

    def kwargs(self, text, handler):
        return {"messages": [{"role": "user", "content": text}], "state": self.state}

    def finish(self, text, n_llm, res, exc, handler, k0=None):
        o = {"req_k0": k0, "req_k1": _tick(), "raised": None, "result": None, "calls": _norm_calls(self.session.llm_calls[n_llm:]), "raw_calls": self.session.llm_calls[n_llm:], "chunks": None}
        if exc is not None:
            o["raised"] = f"{type(exc).__name__}: {exc}"[:400]
        else:
            resp = getattr(res, "response", res)
            resp = resp if isinstance(resp, list) else [resp]
            # uids, timestamps and the polling timers' tool calls are not compared: role + text of every returned message
            o["result"] = {"response": [{"role": m.get("role"), "content": m.get("content")} if isinstance(m, dict) else repr(m) for m in resp]}
            st_ = getattr(res, "state", None)
            if st_ is not None:
                self.state = st_
        self.obs.append(o)
        return o


def _v2_text(i, t, atom):
    return atom if atom in ("hi", "hello there") else f"t{i}u{t} {atom}"


def _v2_names(obs):
    """Names of the flows the LLM was asked to write (generate_flow_from_name) in a turn."""
    return [n for n in (_v2_flow_name(c["prompt"]) if isinstance(c["prompt"], str) else None for c in obs["calls"]) if n is not None]


def _v2_generated(pipe, base):
    return sorted(k for k in pipe.rails.runtime.flow_configs if k not in base)


def _v2_judge(case, shared, convs, iso, i, t, o, where, problems, diverged, iso_names):
    """Differential for one turn of the shared run (same categories as the Colang 1.0 legs)."""
    if i in diverged:
        return
    # (a conversation whose shared run, unlike its isolated replay, got a waiting flow and went on is not compared any further)
    waiting = any(_V2_WAITS in str(c["answer"]) for src in (convs[i].obs[:t], iso[i].obs[:t]) for x in src for c in x["raw_calls"])
    if waiting:
        diverged.add(i)
        return
    diffs = compare_turn(o, iso[i].obs[t], ordered=False)
    if not diffs:
        return
    diverged.add(i)
    what, sentence, extra = diffs[0]
    mine = {n for tt in range(t + 1) for n in iso_names[i][tt]}
    # conversations that named the same flow in a turn that started before this turn ended (on the shared instance)
    others = {n for j in iso_names if j != i for tt in iso_names[j] for n in iso_names[j][tt]
              if tt < len(convs[j].obs) and (convs[j].obs[tt]["req_k0"] or 0) < o["req_k1"]}
    detail = {"leg": "v2", "what": what, "conv": i, "turn": t, "generated_flow_names_also_requested_by_other_conversations": sorted(mine & others)}
    if what in ("params-start", "params-end") and extra is not None:
        rc, f = extra
        detail.update(shared.call_detail(rc, f, what=what, unconfigured_param=False))
        problems.append(Violation("llm-params-leak" if what == "params-start" else "llm-params-changed-during-call", f"{where}: {sentence}", detail))
        diverged.discard(i)  # the conversation itself went on unchanged
        return
    note = ""
    if detail["generated_flow_names_also_requested_by_other_conversations"]:
        note = (f"; in its isolated replay the LLM was asked to write the flow(s) {detail['generated_flow_names_also_requested_by_other_conversations']} for this conversation, and "
                f"another conversation served by the instance had the LLM write a flow of the same name (AddFlowsAction stores it in the flow table all fresh states of the instance share)")
    problems.append(Violation("v2-" + what, f"{where}: {sentence}{note}", detail))


def run_v2(case, problems):
    cfg, mode, api = case["config"], case.get("mode", "seq"), case.get("api", "async")
    llmc = case.get("llmc") or {}
    specs = case["convs"]
    labels = ["leg=v2", "v2-mode=" + mode, f"convs={len(specs)}", f"v2-llm-undefined-flow-share={int(llmc.get('undef', 0))}/3",
              "v2-flow-name-pool=" + (str(int(llmc.get("names", 0))) if int(llmc.get("names", 0)) else "per-conversation"), f"v2-multi-step-body-share={int(llmc.get('multi', 0))}/3"]
    if mode == "seq":
        labels.append("api=" + api)
    texts = [[_v2_text(i, t, a) for t, a in enumerate(sp["users"])] for i, sp in enumerate(specs)]

    def new_conv(i):
        return V2Conv(i, cfg, len(specs[i]["users"]), specs[i].get("lat") if mode == "conc" else None, llmc)

    # isolated replays
    iso, iso_names = [], {}
    for i in range(len(specs)):
        pipe = Pipe(cfg, case["llm"])
        conv = new_conv(i)

        def goes_on(o):
            # the caller leaves a conversation after the turn in which the LLM wrote a flow that waits for the next utterance:
            # what the next turn does is a race inside the interpreter even for a conversation served alone (see module docstring)
            return not any(_V2_WAITS in str(c["answer"]) for c in o["raw_calls"])

        if mode == "conc":
            async def main(loop, pipe=pipe, conv=conv, i=i):
                for t, text in enumerate(texts[i]):
                    if not goes_on(await turn_async(pipe, conv, t, text)):
                        break
            _run_loop(main)
        else:
            def one(pipe=pipe, conv=conv, i=i):
                for t, text in enumerate(texts[i]):
                    if not goes_on((yield (pipe, conv, t, text))):
                        break
            _drive(one(), api)
        if len(conv.obs) < len(texts[i]):
            labels.append("conversation-left-with-a-generated-flow-still-waiting")
            texts[i] = texts[i][: len(conv.obs)]
        conv.ptrace = pipe.ptrace
        prob = pipe.params_problem()
        if prob and not any(v.kind == _rest_kind(prob.none_added) for v in problems):
            problems.append(Violation(_rest_kind(prob.none_added), f"[v2/isolated] conversation {i} alone on a fresh instance: {prob}", pipe.rest_detail(prob, leg="v2", sequential=True, isolated=True)))
        iso.append(conv)
        iso_names[i] = {t: _v2_names(o) for t, o in enumerate(conv.obs)}

    shared = Pipe(cfg, case["llm"])
    base = set(shared.rails.runtime.flow_configs)
    convs = [new_conv(i) for i in range(len(specs))]
    diverged = set()
    if mode == "seq":
        sched = _seq_schedule({"convs": [{"users": tx} for tx in texts], "order": case.get("order", [])})

        def all_turns():
            nxt = [0] * len(convs)
            for step, i in enumerate(sched):
                t = nxt[i]
                nxt[i] += 1
                o = yield (shared, convs[i], t, texts[i][t])
                where = f"[v2/seq] conversation {i} turn {t} (step {step} of schedule {sched}, user text {texts[i][t]!r}, LLM policy {llmc})"
                prob = shared.params_problem()
                if prob and not any(v.kind == _rest_kind(prob.none_added) for v in problems):
                    problems.append(Violation(_rest_kind(prob.none_added), f"{where}: after the turn, no request in flight: {prob}", shared.rest_detail(prob, leg="v2", sequential=True)))
                _v2_judge(case, shared, convs, iso, i, t, o, where, problems, diverged, iso_names)

        _drive(all_turns(), api)
        labels.append("interleaved" if any(sched[x] != sched[x + 1] and sched[x] in sched[x + 1:] for x in range(len(sched) - 1)) else "back-to-back")
    else:
        state = {"active": 0, "idle": []}

        def idle_check(when, loop):
            prob = shared.params_problem()
            if prob:
                state["idle"].append((prob, f"{when} at virtual time {loop.time():.4f} (no request in flight): {prob}"))

        async def one(loop, i):
            if specs[i].get("start"):
                await asyncio.sleep(specs[i]["start"])
            for t, text in enumerate(texts[i]):
                state["active"] += 1
                try:
                    await turn_async(shared, convs[i], t, text)
                finally:
                    state["active"] -= 1
                if state["active"] == 0:
                    idle_check(f"after conversation {i} turn {t}", loop)

        async def main(loop):
            await asyncio.gather(*[loop.create_task(one(loop, i)) for i in range(len(convs))])
            idle_check("after all tasks finished", loop)

        _run_loop(main)
        for i, conv in enumerate(convs):
            for t, o in enumerate(conv.obs):
                where = f"[v2/conc] conversation {i} turn {t} (start offset {specs[i].get('start')}, latencies {specs[i].get('lat')}, user text {texts[i][t]!r}, {len(convs)} tasks on one instance, LLM policy {llmc})"
                _v2_judge(case, shared, convs, iso, i, t, o, where, problems, diverged, iso_names)
        if state["idle"]:
            prob, msg = state["idle"][0]
            problems.append(Violation(_rest_kind(prob.none_added), f"[v2/conc] {len(convs)} tasks on one instance: {msg}", shared.rest_detail(prob, leg="v2", what="idle")))
        spans = [(i, o["req_k0"], o["req_k1"]) for i, c in enumerate(convs) for o in c.obs]
        labels.append("requests-overlap" if any(a[0] != b[0] and a[1] < b[2] and b[1] < a[2] for a in spans for b in spans) else "requests-do-not-overlap")
    _set_blocks_match(problems, _blocks_match(shared.ptrace, [c.ptrace for c in iso], skip=diverged))

    left = _v2_generated(shared, base)
    if left:
        labels.append("instance-keeps-llm-generated-flows-afterwards")
        for v in problems:
            if (v.detail or {}).get("leg") == "v2" and v.kind.startswith("v2-"):
                v.msg += f"; LLM-generated flows still in the instance's flow table after all turns: {left[:6]}"
                v.args = (f"{v.kind}: {v.msg}",)
    writers = [i for i, c in enumerate(iso) if any(c2["task"] == "v2_flow_continuation" for o in c.obs for c2 in o["calls"])]
    all_names = Counter(n for i in iso_names for n in {n for t in iso_names[i] for n in iso_names[i][t]})
    if any(iso_names[i][t] for i in iso_names for t in iso_names[i]):
        labels.append("llm-wrote-a-flow-for-an-undefined-name")
    if any(v > 1 for v in all_names.values()):
        labels.append("same-generated-flow-name-in-two-conversations")
    if any(_V2_WAITS in str(c2["answer"]) for c in iso for o in c.obs for c2 in o["raw_calls"]):
        labels.append("generated-flow-waits-for-the-next-user-turn")

    if any(o["raised"] for c in convs for o in c.obs):
        labels.append("generate-raised")
    view = {"leg": "v2", "mode": mode, "config": cfg, "llm_policy": llmc,
            "conversations": [{"users": texts[i], "start": specs[i].get("start"), "latencies": specs[i].get("lat"),
                               "llm_tasks": [[c2["task"] for c2 in o["calls"]] for o in convs[i].obs],
                               "replies": [o["result"]["response"] if o["raised"] is None else o["raised"] for o in convs[i].obs]} for i in range(len(convs))]}
    return ok(nt=len(writers) >= 2, labels=sorted(set(labels)), view=json.loads(json.dumps(view, default=repr)))


# ------------------------------------------------------------------------------------------------
# property


def _run(case):
    """Runs the case; every departure is collected, the one raised is the first that is NOT an instance of a finding
    signature below (so a listed finding cannot hide anything else), else the first one."""
    problems = []
    _TICKS["n"] = 0
    _TRACES.clear()
    _CUTS.clear()
    try:
        res = run_v2(case, problems) if case["leg"] == "v2" else run_seq(case, problems) if case["leg"] == "seq" else run_conc(case, problems)
    except BaseException as e:
        if not isinstance(e, Exception):
            pipeline.reset_runtime()
        raise
    if problems:
        if "open" not in _OPEN:
            _OPEN["open"] = _open_findings()
        unknown = [v for v in problems if known(case, v) not in _OPEN["open"]]  # only a finding LISTED open can be set aside
        raise (unknown or problems)[0]
    return res


_OPEN = {}


def prop(case):
    try:
        return _run(case)
    except Violation as first:
        # everything is rebuilt from scratch: a genuine difference must show again, with the same root-cause bucket
        try:
            _run(case)
        except Violation as second:
            if second.kind == first.kind:
                raise second
            raise RuntimeError(f"harness: violation kind changed between two runs of the same case: {first} / {second}")
        raise RuntimeError(f"harness: violation did not reproduce on a second run of the same case: {first}")


F_V2 = "C15-F23"  # id proposed for the Colang 2.x finding of this module (not listed in known_findings.json when written)
PARAM_KINDS = ("llm-params-leak", "llm-params-changed-during-call", "llm-params-not-restored", "llm-params-none-left-in-model-kwargs")


def known(case, violation):
    """Signatures of the findings on the unchanged tree.

    C15-F9a  events cache keyed by ':'.join(contents) without roles/escaping: the diverging request found, under the key of a
             proper prefix of its messages, an entry stored for a different message list (or an entry descending from one).
    C15-F9b  LLMParams mutates the shared LLM object around an await and restores the value captured at entry.
    C15-F9c  LLMParams.__exit__ writes the saved `None` back into model_kwargs for a parameter that was not configured.
    C15-F23  (Colang 2.x; reported by this module, see F_V2) a fresh State shares the runtime's flow table, AddFlowsAction /
             RemoveFlowsAction write into it: the diverging conversation had, in its isolated replay, the LLM write a flow
             under a name that another conversation of the case named too, in a turn that began before this one ended.

    F9b / F9c are classified through `DefectModel` - an executable statement of exactly these two defects, run over the schedule
    of `with llm_params` blocks the harness recorded for the case: a parameter observation (at call start, at call end, at
    rest) that departs from the isolated replay / the configured values is an instance of them only if
      * every judged conversation opened the same blocks (same requested parameters) as in its isolated replay, and
      * the observed value is EXACTLY the value the model predicts for that instant, and
      * it has the shape of one of the two: an explicit None for an unconfigured model_kwargs parameter (F9c), or blocks of
        different conversations were open at the same time before the observation (F9b).
    Whatever else the LLM object shows (e.g. a parameter left altered where save-on-enter / restore-on-exit would have brought
    the configured value back) is reported as a violation.
    """
    d = violation.detail or {}
    if violation.kind == "cache-key-collision" and d.get("tainted"):
        return "C15-F9a"
    if violation.kind.startswith("v2-") and d.get("leg") == "v2" and d.get("generated_flow_names_also_requested_by_other_conversations"):
        return F_V2
    if violation.kind not in PARAM_KINDS:
        return None
    m = d.get("model")
    if not m or not m.get("blocks_match") or m.get("predicted") != m.get("observed"):
        return None
    kw = str(case.get("llm", "")).startswith("kw")
    if violation.kind in ("llm-params-leak", "llm-params-changed-during-call"):
        if kw and d.get("unconfigured_param") and m["observed"] == "None":
            return "C15-F9c"  # the None left behind by an earlier block is what this call ran with
        return "C15-F9b" if m.get("overlap") else None
    if kw and d.get("none_added"):
        return "C15-F9c"
    return "C15-F9b" if m.get("overlap") else None


# ------------------------------------------------------------------------------------------------
# generators (every random choice is drawn here)

SEQ_CFGS = [
    {"v": 1, "in": [], "out": [], "dialog": True, "exc": False, "ret": 0},
    {"v": 1, "in": [], "out": [], "dialog": True, "exc": False, "ret": 0},
    {"v": 1, "in": [], "out": [], "dialog": False, "exc": False, "ret": 0},
    {"v": 1, "in": ["check"], "out": [], "dialog": True, "exc": False, "ret": 0},
    {"v": 1, "in": ["rewrite"], "out": ["check"], "dialog": True, "exc": False, "ret": 0},
    {"v": 1, "in": ["self"], "out": ["self"], "dialog": True, "exc": False, "ret": 0},
    {"v": 1, "in": ["self"], "out": [], "dialog": False, "exc": False, "ret": 0},
    {"v": 1, "in": [], "out": ["self"], "dialog": True, "exc": False, "ret": 0},
]
OPT_LLMS = ["opt0", "opt0", "opt1", "opt2"]  # declared parameter(s) configured as None next to model_kwargs
LLMS = ["field"] * 5 + ["kw0"] * 3 + ["kw1", "kw1", "kw2", "kw2"] + OPT_LLMS
JSON_TEXTS = ["{}", "[]", "{ }"]  # JSON texts without ':' - the only context a text can spell without a separator is the EMPTY one
TEMPS = [None, None, 0.0, 0.2, 0.5, 0.9, 1.3]
MTS = [None, None, None, 16, 64]
LATS = [0, 0.01, 0.05, 0.1, 0.1, 0.2, 0.3, 0.5, 1.0]
STARTS = [0, 0, 0, 0.01, 0.05, 0.1, 0.15, 0.2, 0.5, 1.0]
BETWEEN_NS = [0] * 12 + [3, 8, 40, 135]
CONC_ATOMS = ["hi", "hello there", "how is the weather", "tell me a joke", "tell me a story", "tell me two facts", "what is the status", "what time is it", "a", "b"]


def _st_part(i):
    atoms = st.sampled_from(ATOMS)
    if i == 0:
        return st.one_of(atoms, atoms, atoms, st.tuples(st.just("ref"), st.just(0), st.integers(0, 2)).map(list))
    ref = st.tuples(st.sampled_from(["ref", "key", "key"]), st.integers(0, i), st.integers(0, 2)).map(list)
    return st.one_of(atoms, atoms, ref)


@st.composite
def _st_init(draw, i):
    out = []
    if i >= 1 and draw(st.sampled_from([True, True, False])):
        # the transcript of an earlier conversation, spelled differently (the shape that makes ':'-joined keys collide)
        merge = draw(st.lists(st.sampled_from([False, False, True]), min_size=1, max_size=5))
        roles = draw(st.lists(st.sampled_from([0, 0, 1]), min_size=1, max_size=5))
        # a third of the re-spelled transcripts: one or two message boundaries moved across a ':' (`a:b` / `c` -> `a` / `b:c`);
        # half of those with nothing else changed - same number of messages, same roles, same ':'-joined text
        shift = draw(st.lists(st.tuples(st.integers(0, 5), st.integers(0, 1)).map(list), min_size=1, max_size=2)) if draw(st.sampled_from([True, False, False])) else []
        if shift and draw(st.booleans()):
            merge, roles = [False], [0]
        if not shift and not any(merge) and not any(roles) and draw(st.sampled_from([True, True, True, False])):
            roles[0] = 1  # an unchanged transcript is the same conversation for the instance (not judged): keep that rare
        spec = {"respell": [draw(st.integers(0, i - 1)), draw(st.integers(0, 2))], "merge": merge, "roles": roles, "cut": draw(st.sampled_from([0, 0, 0, 1, 2]))}
        if shift:
            spec["shift"] = shift
        out.append(spec)
        n = draw(st.sampled_from([0, 0, 0, 1]))
    else:
        n = draw(st.sampled_from([0, 0, 0, 1, 2, 2, 3]))
    for _ in range(n):
        role = draw(st.sampled_from(["user", "user", "assistant", "assistant", "context"]))
        if role == "context":
            out.append({"role": "context", "content": draw(st.sampled_from(CONTEXTS))})
        else:
            out.append({"role": role, "text": draw(st.lists(_st_part(i), min_size=1, max_size=2))})
    if draw(st.sampled_from([False, False, False, True])):
        out.reverse()
    return out


MS_POLICIES = {"bodies": [1, 2, 2, 3, 6], "by": ["intent", "intent", "prompt"], "span": [0, 1, 3, 3], "inline": [0, 1, 2, 3, 3], "iseed": [0, 1, 2, 3, 4, 5]}


@st.composite
def _st_ms(draw, cfg):
    """Configuration mode "multi-step generation": a third of the cases on a dialog-rails configuration run with
    enable_multi_step_generation and a drawn policy for the flow bodies the LLM writes (see MS_BODIES / `_ms_body`)."""
    if not cfg.get("dialog") or not draw(st.sampled_from([True, False, False])):
        return cfg
    return dict(cfg, ext=EXT_MS, ms={k: draw(st.sampled_from(v)) for k, v in MS_POLICIES.items()})


# configurations with SEVERAL rails per category (option shape "rail name lists"); the first three are general mode without a
# self-check rail (no call alters an LLM parameter: the sub-domain that stays judgeable while the llm_params race is listed open)
RL_CFGS = [
    {"v": 1, "in": ["check", "rewrite"], "out": [], "dialog": False, "exc": False, "ret": 0},
    {"v": 1, "in": ["check", "check"], "out": ["check"], "dialog": False, "exc": False, "ret": 0},
    {"v": 1, "in": ["rewrite", "check"], "out": ["check", "rewrite"], "dialog": False, "exc": False, "ret": 0},
    {"v": 1, "in": ["check"], "out": ["check", "self"], "dialog": False, "exc": False, "ret": 0},
    {"v": 1, "in": ["rewrite", "check"], "out": ["check", "check"], "dialog": True, "exc": False, "ret": 1},
    {"v": 1, "in": ["self", "check"], "out": ["self"], "dialog": True, "exc": False, "ret": 2},
    {"v": 1, "in": ["check", "rewrite", "check"], "out": ["rewrite"], "dialog": True, "exc": False, "ret": 0},
]
RL_QUIET = RL_CFGS[:3]


def _n_rails(cfg, cat):
    return int(cfg.get("ret", 0)) if cat == "ret" else len(cfg.get(cat, []))


@st.composite
def _st_rails_lists(draw, cfg):
    """{"in" | "out" | "ret": [indices]} for the categories the configuration has rails in: a list per category (any sub-list of
    the configured rails in configured order: all of them, some, one, none) or no entry for it (the default: True); at least one
    category gets a list, and - three times in four - at least one list leaves out a configured rail."""
    cats = [c for c, _ in RAIL_CATS if _n_rails(cfg, c)]
    out = {}

    def sub(c):
        # all sub-lists of the configured rails (configured order), the proper non-empty ones first, then the empty and the full one
        n = _n_rails(cfg, c)
        subs = [[x for x in range(n) if m >> x & 1] for m in range(1, 2 ** n - 1)]
        return draw(st.sampled_from(subs + subs + [[], list(range(n))]))

    for c in cats:
        if draw(st.sampled_from([True, True, False])):
            out[c] = sub(c)
    if not out:
        c = draw(st.sampled_from(cats))
        out[c] = sub(c)
    if all(len(v) == _n_rails(cfg, c) for c, v in out.items()) and draw(st.sampled_from([True, True, True, False])):
        c = draw(st.sampled_from(sorted(out)))
        out[c] = out[c][:-1] if draw(st.booleans()) else out[c][1:]
    return out


@st.composite
def _st_maxlen(draw, cfg):
    """Configuration dimension "max_length": the shipped templates of one or more of the tasks the configuration renders from
    the history, with a lowered limit (ML_LIMITS)."""
    if cfg.get("dialog"):
        tasks = sorted({draw(st.sampled_from(["generate_user_intent", "generate_user_intent", "generate_bot_message", "generate_next_steps"])) for _ in range(draw(st.sampled_from([1, 1, 2, 3])))})
    else:
        tasks = ["general"]
    return dict(cfg, ext=cfg.get("ext") or EXT_ML, maxlen={t: draw(st.sampled_from(ML_LIMITS[t])) for t in tasks})


@st.composite
def _overflow_case(draw, llms=None):
    """Shape "overflow in between" (a seventh of the sequential cases): a lowered max_length; conversation B of 2-4 turns of
    short texts (it fits, or overflows late by itself), conversation A of 2-5 turns of LONG messages (padded texts) that
    overflows; schedules "B's first turns, all of A, B goes on" (1/2), "all of A, then all of B" (1/4) or a drawn interleaving
    (1/4); optionally a third ordinary conversation and per-conversation log options."""
    cfg = draw(_st_maxlen(draw(_st_ms(draw(st.sampled_from(SEQ_CFGS))))))
    mk = lambda i, lo, hi, pad: {"init": draw(_st_init(i)) if draw(st.sampled_from([True, False, False, False])) else [],  # noqa: E731
                                 "users": draw(st.lists(st.lists(_st_part(i), min_size=1, max_size=2), min_size=lo, max_size=hi)),
                                 "log": draw(st.sampled_from([False, False, False, True])), "stream": False, "temp": None, "mt": None, "pad": pad}
    convs = [mk(0, 2, 4, 0), mk(1, 2, 5, draw(st.sampled_from([5, 7, 9, 12])))]
    if draw(st.sampled_from([True, False, False])):
        convs.append(mk(2, 1, 2, draw(st.sampled_from([0, 0, 7]))))
    lens = [len(c["users"]) for c in convs]
    schedule = draw(st.sampled_from(["bab", "bab", "ab", None]))
    total = sum(lens)
    order = draw(st.lists(st.integers(0, 2), min_size=total, max_size=total))
    if schedule:
        first = draw(st.integers(1, lens[0] - 1)) if schedule == "bab" else 0
        sched = [0] * first + [1] * lens[1] + [0] * (lens[0] - first)
        if len(convs) > 2:
            at = draw(st.integers(0, len(sched)))
            sched = sched[:at] + [2] * lens[2] + sched[at:]
        order = _order_for(sched, lens)
    return {"leg": "seq", "shape": "overflow-in-between", "config": cfg, "llm": draw(st.sampled_from(llms or LLMS)), "api": draw(st.sampled_from(["sync", "async", "onecoro", "onecoro"])),
            "convs": convs, "order": list(order)}


def _overflow_family(tier):
    """Deterministic family "overflow in between": B1 B2 | A1..A4 | B3 (and: all of A, then all of B) under a lowered
    max_length of the general prompt / of the dialog rails' prompts; A's messages are long, B's are short.  Quick 3 cases;
    thorough: x limits x configurations x call modes x LLM variants."""
    conv = lambda users, pad=0: {"init": [], "users": users, "log": False, "stream": False, "temp": None, "mt": None, "pad": pad}  # noqa: E731
    general = [c for c in SEQ_CFGS if not c["dialog"]][0]
    b_users = [["hi"], ["b"], ["tell me a joke"]]
    a_users = [["hello there"], ["a"], ["c"], ["hi"]]
    plans = [(general, {"general": 480}, "bab", "async", "field", 8), (SEQ_CFGS[0], {"generate_user_intent": 3000}, "bab", "onecoro", "kw0", 9),
             (SEQ_CFGS[3], {"generate_bot_message": 3150, "generate_next_steps": 1200}, "ab", "sync", "field", 9)]
    if tier != "quick":
        plans = []
        for x, cfg in enumerate([general] + [c for c in SEQ_CFGS if c["dialog"]][1:]):
            for task in (["general"] if not cfg["dialog"] else ["generate_user_intent", "generate_bot_message", "generate_next_steps"]):
                for y, lim in enumerate(ML_LIMITS[task]):
                    plans.append((cfg, {task: lim}, ("bab", "ab")[(x + y) % 2], ("async", "onecoro", "sync")[(x + y) % 3], ("field", "kw0", "kw1")[y % 3], (7, 9, 12)[(x + y) % 3]))
    for cfg, maxlen, schedule, api, llm, pad in plans:
        sched = [0, 0, 1, 1, 1, 1, 0] if schedule == "bab" else [1, 1, 1, 1, 0, 0, 0]
        yield {"leg": "seq", "shape": "overflow-in-between", "config": dict(cfg, ext=EXT_ML, maxlen=maxlen), "llm": llm, "api": api,
               "convs": [conv(b_users), conv(a_users, pad)], "order": _order_for(sched, [3, 4])}


GREET_TEXTS = ["hi", "hello there", "good morning", "tell me a joke", "hey"]
# user text -> the intent the LLM picks for it (case table "intents"): flows `greeting` (the greeting) and `joke` (the greeting, then an LLM text)
GREET_INTENTS = {"hi": "express greeting", "hello there": "express greeting", "good morning": "express greeting", "hey": "express greeting", "tell me a joke": "ask joke"}
USER_NAMES = ["Alice Liddell", "Bob", "a:b", "Dr. Who"]


def _err_tasks(cfg):
    """The tasks of a configuration whose prompt shows the current user text (see ERR_TASKS)."""
    out = ["generate_user_intent", "generate_user_intent", "generate_bot_message"] if cfg.get("dialog") else ["general"]
    if "self" in cfg.get("in", []):
        out += ["self_check_input"] * 2
    if "self" in cfg.get("out", []):
        out += ["self_check_output"]
    return out


def _err_family(tier):
    """Enumerated family "failed LLM call": conversation A has a turn whose LLM call fails (self-check of the input, intent
    generation, the general call / bot message), then conversation B is served (and A goes on) on the same instance."""
    plans = [(SEQ_CFGS[6], "self_check_input"), (SEQ_CFGS[0], "generate_user_intent"), (SEQ_CFGS[5], "self_check_output"), (SEQ_CFGS[0], "generate_bot_message"), (SEQ_CFGS[2], "general")]
    quick = tier == "quick"
    for x, (cfg, task) in enumerate(plans[:3] if quick else plans):
        for llm in (["field", "kw0"][x % 2:][:1] if quick else ["field", "kw0", "kw1"]):
            for api in (["sync", "async", "onecoro"][x % 3:][:1] if quick else ["sync", "async", "onecoro"]):
                for order, boom in (([0, 1, 0, 1], [0]), ([0, 0, 1, 1], [1])):
                    if quick and (order[1] == 0) != (x == 1):
                        continue
                    convs = [{"init": [], "users": [["how is the weather"], ["tell me a story"]], "log": False, "stream": False, "temp": 0.2 if task == "general" else None, "mt": None, "boom": boom},
                             {"init": [], "users": [["hello there"], ["what time is it"]], "log": False, "stream": False, "temp": None, "mt": None}]
                    yield {"leg": "seq", "family": "failed LLM call", "config": dict(cfg), "llm": llm, "api": api, "convs": convs, "order": order, "err": {"tasks": [task]}}


def _greetvar_family(tier):
    """Enumerated family "context variable in a predefined message": A supplies $user_name and is greeted, B (no variable) asks
    for the greeting afterwards; all of A then all of B / A1 B1 A2 B2 / B first (nothing to see) / a third conversation with
    another name in between."""
    cfg = dict(SEQ_CFGS[0], greetvar=True, ext=EXT_GV)
    quick = tier == "quick"

    def conv(name, users):
        init = [{"role": "context", "content": {"user_name": name}}] if name else []
        return {"init": init, "users": [[u] for u in users], "log": False, "stream": False, "temp": None, "mt": None}

    plans = [
        ([conv("Alice Liddell", ["hi", "how is the weather"]), conv(None, ["hi", "what time is it"])], [0, 0, 1, 1]),
        ([conv("Bob", ["tell me a joke", "hello there"]), conv(None, ["how is the weather", "hello there"])], [0, 1, 0, 1]),
        ([conv("Alice Liddell", ["good morning"]), conv("Bob", ["hey"]), conv(None, ["tell me a joke", "hi"])], [0, 2, 1, 2]),
        ([conv(None, ["hi", "hey"]), conv("a:b", ["hi", "hey"])], [0, 1, 0, 1]),
    ]
    for x, (convs, order) in enumerate(plans[:2] if quick else plans):
        for llm in (["field"] if quick else ["field", "kw0"]):
            for api in (["sync", "onecoro"][x % 2:][:1] if quick else ["sync", "async", "onecoro"]):
                yield {"leg": "seq", "family": "context variable in a predefined message", "config": dict(cfg), "llm": llm, "api": api,
                       "convs": json.loads(json.dumps(convs)), "order": order, "intents": dict(GREET_INTENTS)}


@st.composite
def _seq_case(draw, llms=None):
    cfg = draw(_st_ms(draw(st.sampled_from(SEQ_CFGS))))
    n = draw(st.sampled_from([2, 2, 3, 3, 4]))
    convs = []
    # option shape "rail name lists" (an eighth of the cases): a configuration with several rails per category, one or two
    # conversations pass options.rails.<category> as a LIST of rail names
    with_lists = draw(st.sampled_from([True] + [False] * 7))
    if with_lists:
        cfg = draw(_st_ms(draw(st.sampled_from(RL_CFGS))))
    # configuration dimension "max_length" (a fifth of the cases): lowered limits, some conversations of long messages
    with_maxlen = draw(st.sampled_from([True, False, False, False, False]))
    if with_maxlen:
        cfg = draw(_st_maxlen(cfg))
    for i in range(n):
        convs.append(
            {
                "init": draw(_st_init(i)),
                "users": draw(st.lists(st.lists(_st_part(i), min_size=1, max_size=draw(st.sampled_from([1, 1, 2, 3]))), min_size=1, max_size=3)),
                "log": draw(st.sampled_from([False, False, False, True, "history"])),
                "stream": draw(st.sampled_from([False, False, True])),
                "temp": draw(st.sampled_from([None, None, None, 0.0, 0.2, 0.9])),
                "mt": draw(st.sampled_from([None, None, None, None, 16])),
            }
        )
    if with_maxlen:
        for i, c in enumerate(convs):
            c["pad"] = draw(st.sampled_from([0, 0, 6, 9]))
            if c["pad"]:  # a long conversation: up to five turns
                c["users"] += draw(st.lists(st.lists(_st_part(i), min_size=1, max_size=2), min_size=0, max_size=2))
    if with_lists:
        for i in sorted(set(draw(st.lists(st.integers(0, n - 1), min_size=1, max_size=2)))):
            convs[i]["rails"] = draw(_st_rails_lists(cfg))
    for i, c in enumerate(convs):
        # a supplied history that differs from another conversation's transcript only in where a ':' is a message boundary:
        # mostly under that conversation's options too (the options are part of what the instance is given)
        pure = [m for m in c["init"] if m.get("shift") and not any(m["merge"]) and not any(m["roles"])]
        if pure and i and draw(st.sampled_from([True, True, True, False])):
            c.update({k: convs[int(pure[0]["respell"][0]) % i][k] for k in ("log", "temp", "mt")})
    if draw(st.sampled_from([True, False, False])):
        # twins: the same messages under DIFFERENT generation options are different conversations (the options are part of
        # what the instance is given); the twin is scheduled around its sibling's turns
        j = draw(st.integers(0, n - 2))
        twin = json.loads(json.dumps(convs[j]))
        alt = draw(st.sampled_from([{"temp": 0.7}, {"temp": 1.1, "mt": 32}, {"log": True}, {"rails_off": "input"}, {"rails_off": "output"}, {"rails_off": "dialog"}]))
        if all(twin.get(k) == v for k, v in alt.items()):
            alt = {"temp": 0.35}
        twin.update(alt)
        convs[j + 1] = twin
    # configuration dimension "context variable in a predefined message" (a sixth of the cases on a dialog-rails configuration):
    # the greeting refers to $user_name; about half of the conversations supply it (context message, each its own value),
    # about half of all turns are texts the LLM reads as a request that is answered with the greeting
    intents = None
    if cfg.get("dialog") and draw(st.sampled_from([True] + [False] * 5)):
        cfg = dict(cfg, greetvar=True, ext=cfg.get("ext") or EXT_GV)
        intents = dict(GREET_INTENTS)
        for i, c in enumerate(convs):
            if draw(st.sampled_from([True, True, False]) if i == 0 else st.booleans()):
                c["init"] = [{"role": "context", "content": {"user_name": USER_NAMES[i % len(USER_NAMES)]}}] + c["init"]
            c["users"] = [[draw(st.sampled_from(GREET_TEXTS))] if draw(st.booleans()) else u for u in c["users"]]
    # case dimension "LLM errors" (a fifth of the cases): the provider fails for the prompts of 1-2 tasks of the configuration
    # that show a user text carrying the marker; one or two conversations have such a turn
    err = None
    if draw(st.sampled_from([True] + [False] * 4)):
        err = {"tasks": sorted(set(draw(st.lists(st.sampled_from(_err_tasks(cfg)), min_size=1, max_size=2))))}
        for i in sorted(set(draw(st.lists(st.sampled_from([0, 0, 1, n - 1]), min_size=1, max_size=2)))):
            convs[i]["boom"] = sorted(set(draw(st.lists(st.integers(0, len(convs[i]["users"]) - 1), min_size=1, max_size=2))))
    total = sum(len(c["users"]) for c in convs)
    order = draw(st.lists(st.integers(0, n - 1), min_size=total, max_size=total))
    case = {"leg": "seq", "config": cfg, "llm": draw(st.sampled_from(llms or LLMS)), "api": draw(st.sampled_from(["sync", "async", "onecoro", "onecoro"])), "convs": convs, "order": order}
    if case["llm"].startswith("opt") and draw(st.sampled_from([True, True, False])):
        # LLM variant with a declared parameter configured as None: two thirds of these cases have a conversation whose
        # options.llm_params names exactly such a parameter (the others reach one through the tasks' own llm_params, or not at all)
        c = convs[draw(st.sampled_from([0, 0, 1, n - 1]))]
        for p, key, vals in (("temperature", "temp", [0.0, 0.2, 0.9]), ("max_tokens", "mt", [16, 50, 64])):
            if OPT_CONFIGS[int(case["llm"][3:])][p] is None and draw(st.sampled_from([True, True, False])):
                c[key] = draw(st.sampled_from(vals))
    if intents:
        case["intents"] = intents
    if err:
        case["err"] = err
    # a quarter of the cases: other (cheap, single-turn, unique) conversations are served between two steps of the interleaving -
    # a few, some dozens, or more than any plausible bound on "recently served conversations" (see also `enumerate_cases`)
    n_between = draw(st.sampled_from(BETWEEN_NS))
    if n_between:
        case["between"] = {"after": draw(st.integers(0, total - 1)), "n": n_between, "atom": draw(st.sampled_from(CONC_ATOMS))}
    return case


# ---- shape "separator shift pair" (leg seq): two conversations that differ only in WHERE a ':' is a message boundary ----
SHIFT_TOKENS = ["hello", "world", "ok", "next", "fine", "yes", "no", "sure", "thanks", "bye", "one", "two", "three", "left", "right", "up", "down", "red", "green", "blue",
                "tea", "milk", "rain", "sun", "north", "south"]


def _order_for(schedule, lens):
    """The `order` list under which `_seq_schedule` serves the turns in the given order of conversations."""
    left, out = list(lens), []
    for i in schedule:
        alive = [x for x, n in enumerate(left) if n]
        out.append(alive.index(i))
        left[i] -= 1
    return out


# user intents of the shipped test configuration that are answered by exactly ONE LLM-generated bot message: through a flow,
# through a flow with an action before the message, and through generate_next_steps (no flow handles the intent)
SHIFT_INTENTS = [fakes.ROUTES[r][0] for r in ("llm", "act_llm", "next_llm")]


def _mk_shift_case(tokens, pre, tail, extra, cfg, llm, api, schedule="xyx", order=None, third=None, routes=(0, 1, 2)):
    """Conversations X and Y with the same role pattern and - turn by turn - the same ':'-joined text, built from distinct
    ':'-free tokens.  pre: [{"u": n, "r": n, "shift": 0|1|2}] - a turn with `shift` has one token that is the tail of the user
    text in one conversation and the head of the bot's reply in the other (1: X `a:b` -> `c`, Y `a` -> `b:c`; 2: the other way
    round); tail: [{"u": n, "r": n}] turns that are the same in both; extra = (further turns of X, of Y) with texts of their
    own.  The replies come from the case table "replies" {user text: bot text} (the LLM stays a function of the prompt; only
    a user->bot boundary can move: after identical histories a pure LLM says the same).  schedule "xyx": X's common turns,
    then Y's (so Y stored its history last), then the rest; "yxy": the mirror image; None: `order` as drawn."""
    it = iter(tokens)
    take = lambda n: [next(it) for _ in range(n)]  # noqa: E731
    xs, ys, table = [], [], {}
    for turn in pre:
        u, r = take(max(1, int(turn["u"]))), take(max(1, int(turn["r"])))
        if turn.get("shift"):
            m = take(1)
            a, b = (u + m, r), (u, m + r)
            (xu, xr), (yu, yr) = (a, b) if turn["shift"] == 1 else (b, a)
        else:
            (xu, xr), (yu, yr) = (u, r), (u, r)
        xs.append(xu)
        ys.append(yu)
        table[":".join(xu)] = ":".join(xr)
        table[":".join(yu)] = ":".join(yr)
    for turn in tail:
        u, r = take(max(1, int(turn["u"]))), take(max(1, int(turn["r"])))
        xs.append(u)
        ys.append(u)
        table[":".join(u)] = ":".join(r)
    common = len(xs)
    xs += [take(1) for _ in range(int(extra[0]))]
    ys += [take(1) for _ in range(int(extra[1]))]
    conv = lambda users: {"init": [], "users": users, "log": False, "stream": False, "temp": None, "mt": None}  # noqa: E731
    convs = [conv(xs), conv(ys)] + ([third] if third else [])
    lens = [len(c["users"]) for c in convs]
    if schedule in ("xyx", "yxy"):
        a, b = (0, 1) if schedule == "xyx" else (1, 0)
        sched = [a] * common + [b] * lens[b] + [a] * (lens[a] - common) + ([2] * lens[2] if third else [])
        order = _order_for(sched, lens)
    case = {"leg": "seq", "shape": "separator-shift-pair", "config": cfg, "llm": llm, "api": api, "convs": convs, "order": list(order or []), "replies": table}
    if cfg.get("dialog"):
        # with dialog rails the reply is the table's text where the LLM names an intent that is answered by one generated message
        case["intents"] = {u: SHIFT_INTENTS[int(routes[x % len(routes)]) % len(SHIFT_INTENTS)] for x, u in enumerate(table)}
    return case


@st.composite
def _shift_case(draw, llms=None):
    """A sixth of the sequential cases.  Half of them in general mode (one LLM call per turn, the reply is the LLM's text),
    the others on any configuration (with dialog rails a second table names the user intent the LLM picks for the table's
    user texts - one that is answered by a single LLM-generated message, via a flow / a flow with an action / next-step
    generation; rails may still refuse or rewrite: labels tell how often the pair came out as planned)."""
    general = [c for c in SEQ_CFGS if not c["dialog"]]
    cfg = draw(st.sampled_from(general)) if draw(st.booleans()) else draw(st.sampled_from(SEQ_CFGS))
    tokens = draw(st.permutations(SHIFT_TOKENS))
    n_pre = draw(st.sampled_from([1, 1, 2]))
    pre = [{"u": draw(st.sampled_from([1, 1, 2])), "r": draw(st.sampled_from([1, 1, 2])), "shift": draw(st.sampled_from([0, 1, 1, 2]))} for _ in range(n_pre)]
    if not any(t["shift"] for t in pre):
        pre[draw(st.integers(0, n_pre - 1))]["shift"] = 1
    tail = [{"u": draw(st.sampled_from([1, 1, 1, 2])), "r": draw(st.sampled_from([1, 1, 1, 1, 2]))} for _ in range(draw(st.sampled_from([0, 1, 1, 2]) if n_pre == 1 else st.sampled_from([0, 1])))]
    extra = (draw(st.sampled_from([1, 1, 2])), draw(st.sampled_from([0, 0, 1])))
    third = None
    if draw(st.sampled_from([True, False, False])):
        third = {"init": draw(_st_init(2)), "users": draw(st.lists(st.lists(_st_part(2), min_size=1, max_size=2), min_size=1, max_size=2)), "log": draw(st.sampled_from([False, False, True])),
                 "stream": False, "temp": draw(st.sampled_from([None, None, 0.2])), "mt": None}
    schedule = draw(st.sampled_from(["xyx", "xyx", "yxy", None]))
    total = n_pre + len(tail)
    total = 2 * total + sum(extra) + (len(third["users"]) if third else 0)
    order = draw(st.lists(st.integers(0, 2), min_size=total, max_size=total))
    routes = draw(st.lists(st.integers(0, 2), min_size=1, max_size=6))
    return _mk_shift_case(tokens, pre, tail, extra, cfg, draw(st.sampled_from(llms or LLMS)), draw(st.sampled_from(["sync", "async", "onecoro", "onecoro"])), schedule, order, third, routes)


def _shift_family(tier):
    """Deterministic family "separator shift": (a) the pair in general mode, X's common turns, Y's turns, then X goes on - the
    boundary moved in the first / in the second turn, with and without common turns after it, both directions; (b) the same
    through a supplied history: a conversation that starts from another one's transcript with one boundary moved.
    Quick 4 cases; thorough: x configurations x call modes x LLM variants."""
    general = [c for c in SEQ_CFGS if not c["dialog"]][0]
    shapes = [
        ([{"u": 1, "r": 1, "shift": 1}], [{"u": 1, "r": 1}], (1, 0), "xyx"),
        ([{"u": 1, "r": 1, "shift": 2}], [], (1, 1), "yxy"),
        ([{"u": 1, "r": 1, "shift": 0}, {"u": 2, "r": 1, "shift": 1}], [{"u": 1, "r": 1}], (1, 0), "xyx"),
        ([{"u": 1, "r": 2, "shift": 2}], [{"u": 1, "r": 1}, {"u": 2, "r": 1}], (2, 0), "xyx"),
    ]
    plans = [(0, general, "field", "async"), (2, general, "kw0", "onecoro")]
    if tier != "quick":
        plans = [(sh, cfg, llm, api) for sh in range(len(shapes)) for cfg, llm, api in ((general, "field", "async"), (SEQ_CFGS[0], "field", "sync"), (SEQ_CFGS[3], "kw0", "onecoro"), (SEQ_CFGS[6], "field", "onecoro"))]
    for n, (sh, cfg, llm, api) in enumerate(plans):
        pre, tail, extra, schedule = shapes[sh]
        yield _mk_shift_case(SHIFT_TOKENS[n:] + SHIFT_TOKENS[:n], pre, tail, extra, cfg, llm, api, schedule)
    # (b) supplied history = the other conversation's transcript with one boundary moved, then one more turn of each
    conv = lambda users, init=(): {"init": list(init), "users": users, "log": False, "stream": False, "temp": None, "mt": None}  # noqa: E731
    variants = [  # (first user text of X, reply table, [boundary, direction])
        (["hello", "world"], {"hello:world": "ok", "next": "fine"}, [0, 0]),
        (["hello"], {"hello": "world:ok", "next": "fine"}, [0, 1]),
        (["hello", "world"], {"hello:world": "ok", "next": "left:right"}, [2, 1]),
    ]
    plans = [(general, "field", "sync", 0), (general, "kw0", "onecoro", 1)]
    if tier != "quick":
        plans = [(cfg, llm, api, v) for cfg in (general, SEQ_CFGS[0], SEQ_CFGS[4]) for llm, api in (("field", "sync"), ("kw1", "onecoro")) for v in range(len(variants))]
    for cfg, llm, api, v in plans:
        first, table, shift = variants[v]
        case = {"leg": "seq", "shape": "separator-shift-history", "config": cfg, "llm": llm, "api": api, "replies": table,
                "convs": [conv([first, ["next"], ["c"]]), conv([["b"]], [{"respell": [0, 1], "merge": [False], "roles": [0], "cut": 0, "shift": [shift]}])],
                "order": [0, 0, 1, 0]}
        if cfg.get("dialog"):
            case["intents"] = {u: SHIFT_INTENTS[(x + v) % len(SHIFT_INTENTS)] for x, u in enumerate(table)}
        yield case


# ---- shape "':'-free JSON text / empty context" (leg seq) ----
def _mk_json_case(form, jtext, tokens, n_a, k, extra_a, tail, cfg, llm, api, schedule="aba", order=None, third=None, routes=(0, 1, 2)):
    """Conversation A and a conversation B whose client-supplied history re-spells A's transcript after its turn k, built from
    distinct ':'-free tokens (replies from the case table, as in the separator-shift shape).
    form "ctx":  A begins with the EMPTY context message {}; B's history has it as the user text "{}" and every role swapped.
    form "text": A's first user text is `jtext` ("{}", "[]", "{ }"); B's history turns a leading text that is the JSON text of an
                 object into the context message it spells (only "{}" can) and swaps every other role.
    tail: B's history ends with one more assistant message; A has n_a turns before B and extra_a afterwards (schedule "aba"),
    or the turns are interleaved as drawn."""
    it = iter(tokens)
    users_a = [[jtext if (form == "text" and t == 0) else next(it)] for t in range(n_a + extra_a)]
    table = {u[0]: next(it) for u in users_a}
    init_b = [{"respell": [0, k], "merge": [False], "roles": [1], "cut": 0, "ctx": form == "text"}]
    if tail:
        init_b.append({"role": "assistant", "text": [next(it)]})
    users_b = [[next(it)], [next(it)]][: 1 + int(bool(extra_a))]
    for u in users_b:
        table[u[0]] = next(it)
    conv = lambda users, init=(): {"init": list(init), "users": users, "log": False, "stream": False, "temp": None, "mt": None}  # noqa: E731
    convs = [conv(users_a, [{"role": "context", "content": {}}] if form == "ctx" else []), conv(users_b, init_b)] + ([third] if third else [])
    lens = [len(c["users"]) for c in convs]
    if schedule == "aba":
        order = _order_for([0] * n_a + [1] * lens[1] + [0] * extra_a + ([2] * lens[2] if third else []), lens)
    case = {"leg": "seq", "shape": "json-text-or-empty-context/" + form, "config": cfg, "llm": llm, "api": api, "convs": convs, "order": list(order or []), "replies": table}
    if cfg.get("dialog"):
        case["intents"] = {u: SHIFT_INTENTS[int(routes[x % len(routes)]) % len(SHIFT_INTENTS)] for x, u in enumerate(table)}
    return case


@st.composite
def _json_case(draw, llms=None):
    """An eighth of the sequential cases."""
    general = [c for c in SEQ_CFGS if not c["dialog"]]
    cfg = draw(st.sampled_from(general)) if draw(st.booleans()) else draw(st.sampled_from(SEQ_CFGS))
    tokens = draw(st.permutations(SHIFT_TOKENS))
    form = draw(st.sampled_from(["ctx", "ctx", "text"]))
    jtext = draw(st.sampled_from(["{}", "{}", "{}", "[]", "{ }"]))
    n_a, extra_a = draw(st.sampled_from([1, 1, 2, 3])), draw(st.sampled_from([0, 1, 1]))
    third = None
    if draw(st.sampled_from([True, False, False])):
        third = {"init": draw(_st_init(2)), "users": draw(st.lists(st.lists(_st_part(2), min_size=1, max_size=2), min_size=1, max_size=2)), "log": draw(st.sampled_from([False, False, True])),
                 "stream": False, "temp": draw(st.sampled_from([None, None, 0.2])), "mt": None}
    schedule = draw(st.sampled_from(["aba", "aba", "aba", None]))
    total = n_a + extra_a + 2 + (len(third["users"]) if third else 0)
    order = draw(st.lists(st.integers(0, 2), min_size=total, max_size=total))
    routes = draw(st.lists(st.integers(0, 2), min_size=1, max_size=6))
    return _mk_json_case(form, jtext, tokens, n_a, draw(st.integers(0, 2)), extra_a, draw(st.booleans()), cfg, draw(st.sampled_from(llms or LLMS)),
                         draw(st.sampled_from(["sync", "async", "onecoro", "onecoro"])), schedule, order, third, routes)


def _json_family(tier):
    """Deterministic family "':'-free JSON text / empty context": A then B (B's supplied history spells A's transcript), then A
    goes on; both forms, general mode and dialog rails.  Quick 3 cases."""
    general = [c for c in SEQ_CFGS if not c["dialog"]][0]
    plans = [("ctx", "{}", 1, 0, 1, True, general, "field", "async"), ("text", "{}", 2, 1, 1, False, general, "kw0", "onecoro"), ("ctx", "{}", 2, 1, 0, False, SEQ_CFGS[0], "field", "sync")]
    if tier != "quick":
        plans = [(form, j, n_a, k, x, tail, cfg, llm, api) for form in ("ctx", "text") for j in (JSON_TEXTS if form == "text" else ["{}"]) for n_a, k, x, tail in ((1, 0, 1, True), (2, 1, 1, False), (2, 0, 0, True))
                 for cfg, llm, api in ((general, "field", "async"), (SEQ_CFGS[0], "kw0", "sync"), (SEQ_CFGS[3], "opt0", "onecoro"))]
    for n, (form, j, n_a, k, x, tail, cfg, llm, api) in enumerate(plans):
        yield _mk_json_case(form, j, SHIFT_TOKENS[n:] + SHIFT_TOKENS[:n], n_a, k, x, tail, cfg, llm, api)


def _opt_family(tier):
    """Deterministic family "declared parameter configured as None": conversation A passes options.llm_params for a parameter
    the LLM object declares with the configured value None (or, with dialog rails and temperature unset, merely runs the tasks'
    own llm_params), then B without options, then A again.  Quick 3 cases."""
    general = [c for c in SEQ_CFGS if not c["dialog"] and not c["in"]][0]
    conv = lambda users, temp=None, mt=None: {"init": [], "users": users, "log": False, "stream": False, "temp": temp, "mt": mt}  # noqa: E731
    plans = [(general, "opt0", "async", None, 50), (SEQ_CFGS[0], "opt1", "sync", None, None), (general, "opt2", "onecoro", 0.2, 16)]
    if tier != "quick":
        plans = [(cfg, llm, api, t, m) for cfg in (general, SEQ_CFGS[0], SEQ_CFGS[5]) for llm in ("opt0", "opt1", "opt2") for api, t, m in (("async", None, 50), ("sync", 0.2, None), ("onecoro", 0.2, 16))]
    for cfg, llm, api, t, m in plans:
        yield {"leg": "seq", "shape": "declared-parameter-configured-as-None", "config": cfg, "llm": llm, "api": api,
               "convs": [conv([["hi"], ["tell me a joke"]], t, m), conv([["hello there"], ["a"]])], "order": _order_for([0, 1, 0, 1], [2, 2])}


@st.composite
def _conc_case(draw, llms=None, quiet=False):
    """quiet=True: no call alters an LLM parameter (general mode, no self-check rail, no llm_params) - the sub-domain that
    stays judgeable while the llm_params race is a listed open finding."""
    cfg = draw(st.sampled_from([c for c in SEQ_CFGS if not c["dialog"] and "self" not in c["in"] + c["out"]] if quiet else SEQ_CFGS))
    cfg = draw(_st_ms(cfg))  # (the quiet sub-domain is general mode: no dialog rails, so no multi-step generation there)
    n = draw(st.sampled_from([2, 2, 3, 3, 4, 5]))
    tasks = []
    for _ in range(n):
        tasks.append(
            {
                "start": draw(st.sampled_from(STARTS)),
                "users": draw(st.lists(st.sampled_from(CONC_ATOMS), min_size=1, max_size=2)),
                "temp": None if quiet else draw(st.sampled_from(TEMPS)),
                "mt": None if quiet else draw(st.sampled_from(MTS)),
                "log": draw(st.booleans()),
                "stream": draw(st.sampled_from([False, False, True])),
                "lat": draw(st.lists(st.sampled_from(LATS), min_size=1, max_size=4)),
            }
        )
    case = {"leg": "conc", "config": cfg, "llm": draw(st.sampled_from(llms or LLMS)), "tasks": tasks}
    if not quiet and draw(st.sampled_from([True, False, False])):
        # parameter shape "disjoint": the request whose `with llm_params` block is entered first alters no parameter or the
        # temperature only, a request entered while that block is open alters max_tokens only (and a third of the time the
        # other way round) - neither block's own save/restore covers what the other one changes
        a, b = (0, 1) if draw(st.sampled_from([True, True, False])) else (1, 0)
        first, later = ("temp", "mt") if draw(st.sampled_from([True, True, False])) else ("mt", "temp")
        vals = {"temp": [0.0, 0.2, 0.9, 1.3], "mt": [5, 16, 64]}
        tasks[a].update({first: draw(st.sampled_from([None] + vals[first])), later: None, "start": 0, "lat": [draw(st.sampled_from([0.2, 0.3, 0.5, 1.0]))] + tasks[a]["lat"][1:]})
        tasks[b].update({first: None, later: draw(st.sampled_from(vals[later])), "start": draw(st.sampled_from([0.01, 0.05, 0.1, 0.15]))})
        case["pshape"] = "disjoint"
    elif draw(st.sampled_from([True, False, False, False])):
        # option shape "rail name lists in flight" (a quarter of the cases): a configuration with several rails per category; request A
        # passes options.rails.<category> as LISTS of rail names and its first LLM call is slow; request B - no rails option
        # (no options at all, or log / llm_params only) - starts while A is in flight; the other tasks as drawn
        cfg = case["config"] = draw(_st_ms(draw(st.sampled_from(RL_QUIET if quiet else RL_CFGS))))
        a, b = (0, 1) if draw(st.sampled_from([True, True, False])) else (1, 0)
        tasks[a].update({"rails": draw(_st_rails_lists(cfg)), "start": 0, "lat": [draw(st.sampled_from([0.3, 0.5, 1.0]))] + tasks[a]["lat"][1:]})
        tasks[b].update({"start": draw(st.sampled_from([0.01, 0.05, 0.1, 0.15, 0.2]))})
        for x in range(2, n):
            if draw(st.sampled_from([True, False, False, False])):
                tasks[x]["rails"] = draw(_st_rails_lists(cfg))
        case["oshape"] = "rail-name-lists"
    elif draw(st.sampled_from([True, False, False, False])):
        # configuration dimension "max_length" (about a sixth of the cases): lowered limits, some tasks with long messages and up to
        # three turns
        case["config"] = draw(_st_maxlen(cfg))
        for x, ts in enumerate(tasks):
            ts["pad"] = draw(st.sampled_from([0, 6, 9, 12]))
            if ts["pad"]:
                ts["users"] = ts["users"] + draw(st.lists(st.sampled_from(CONC_ATOMS), min_size=0, max_size=2))[: 3 - len(ts["users"])]
    return case


def _rails_list_family(tier):
    """Deterministic family "rail name lists in flight": request A (options.rails.input / output / retrieval = lists of rail names that
    leave out a configured rail, slow LLM call) is in flight when request B (no options at all) arrives with a text that a rail
    A's lists leave out rewrites or refuses (worked out from the fakes' digest verdicts); a third request arrives on the idle
    instance afterwards.  Quick: 3 cases in general mode (no call alters an LLM parameter); thorough: + dialog-rails
    configurations with self-check and retrieval rails, B with a log request."""
    def verdicts(cfg, text):
        # what the configured input rails do to `text`, in order (a pure function of the text: DigestSession.rail_verdict)
        out = []
        for idx, kind in enumerate(cfg["in"]):
            d = _dg(f"in{idx}|{text}")
            v = ("rewrite" if d % 2 == 0 else "accept") if kind == "rewrite" else ("reject" if d % 5 == 0 else "accept")
            out.append(v)
            if v == "reject":
                break
            if v == "rewrite":
                text = f"RW{_dg(text) % 0xFFFFFF:06x} rewritten"
        return out

    def atom(cfg, i, idx):
        # user text of task i that every input rail before `idx` accepts and rail `idx` rewrites / refuses
        for a in CONC_ATOMS:
            v = verdicts(cfg, f"t{i}u0 {a}")
            if len(v) > idx and all(x == "accept" for x in v[:idx]) and v[idx] != "accept":
                return a
        return None

    def passing(cfg, i):
        # user text of task i that no input rail refuses (the request then reaches its - slow - LLM call)
        return next((a for a in CONC_ATOMS if "reject" not in verdicts(cfg, f"t{i}u0 {a}")), "hi")

    plans = [(RL_CFGS[0], {"in": [0]}, 1, "field", False), (RL_CFGS[1], {"in": [1], "out": []}, 0, "kw0", False), (RL_CFGS[2], {"in": [], "out": [0]}, 0, "field", False)]
    if tier != "quick":
        plans += [(RL_CFGS[0], {"in": []}, 1, "kw1", True), (RL_CFGS[2], {"in": [1]}, 0, "kw0", True), (RL_CFGS[3], {"out": [0]}, None, "field", True),
                  (RL_CFGS[4], {"in": [0], "ret": []}, 1, "field", True), (RL_CFGS[5], {"in": [1], "out": [], "ret": [1]}, 0, "field", True), (RL_CFGS[6], {"in": [0, 2], "out": []}, 1, "kw0", True)]
    for cfg, lists, idx, llm, log in plans:
        b = passing(cfg, 1) if idx is None else atom(cfg, 1, idx)  # (None: B passes the input rails, an output rail is left out)
        if b is None:
            continue
        for lat_a, start_b in ((0.5, 0.05), (1.0, 0.2)) if tier != "quick" else ((0.5, 0.05),):
            yield {"leg": "conc", "config": cfg, "llm": llm, "oshape": "rail-name-lists", "tasks": [
                {"start": 0, "users": [passing(cfg, 0)], "temp": None, "mt": None, "log": False, "stream": False, "lat": [lat_a], "rails": lists},
                {"start": start_b, "users": [b], "temp": None, "mt": None, "log": log, "stream": False, "lat": [0.01]},
                {"start": 10.0, "users": [(atom(cfg, 2, idx) if idx is not None else None) or "a"], "temp": None, "mt": None, "log": False, "stream": False, "lat": [0]}]}


V2_CFG = {"v": 2, "in": [], "out": [], "dialog": "llmc", "exc": False}
V2_ATOMS = ["tell me a joke", "tell me a story", "what is the status", "what time is it", "a", "b", "how is the weather", "hi", "hello there"]


@st.composite
def _v2_case(draw, shared_names=False):
    """Colang 2.x leg.  shared_names=False: every undefined bot flow the LLM names is derived from the user's own (unique) text,
    so no two conversations of the case make the instance add a flow under the same name (the sub-domain that stays judgeable
    while finding F_V2 is not repaired); True: the names come from a pool of 1-3."""
    mode = draw(st.sampled_from(["seq", "conc"]))
    n = draw(st.sampled_from([2, 2, 3]))
    llmc = {"undef": draw(st.sampled_from([0, 1, 2, 3, 3])), "names": draw(st.sampled_from([1, 1, 2, 3])) if shared_names else 0, "multi": draw(st.sampled_from([0, 0, 1, 3]))}
    lockstep = mode == "conc" and draw(st.booleans())
    common = draw(st.lists(st.sampled_from(V2_LATS), min_size=1, max_size=3))
    convs = []
    for _ in range(n):
        c = {"users": draw(st.lists(st.sampled_from(V2_ATOMS), min_size=1, max_size=2))}
        if mode == "conc":
            # latencies on a coarse grid (and, in half of the cases, one list for all tasks) so that LLM calls of different
            # tasks END at the same virtual instant: what then happens is decided by the order of the loop's callbacks
            c["start"] = draw(st.sampled_from([0, 0, 0.1, 0.1, 0.2]))
            c["lat"] = common if lockstep and draw(st.booleans()) else draw(st.lists(st.sampled_from(V2_LATS), min_size=1, max_size=3))
        convs.append(c)
    case = {"leg": "v2", "mode": mode, "config": V2_CFG, "llm": "field", "llmc": llmc, "convs": convs}
    if mode == "seq":
        total = sum(len(c["users"]) for c in convs)
        case["api"] = draw(st.sampled_from(["async", "onecoro", "sync"]))
        case["order"] = draw(st.lists(st.integers(0, n - 1), min_size=total, max_size=total))
    return case


V2_LATS = [0, 0.1, 0.1, 0.2]


def _v2_family(tier):
    """Deterministic Colang 2.x family: two conversations whose LLM names the same undefined bot flow - (a) one after the
    other, the first one's generated flow still waiting for its user when the second conversation starts, (b) as concurrent
    first turns whose LLM calls end at the same virtual instant - and the same two shapes with per-conversation names."""
    for names in (1, 0):
        yield {"leg": "v2", "mode": "seq", "api": "async", "config": V2_CFG, "llm": "field", "llmc": {"undef": 3, "names": names, "multi": 3},
               "convs": [{"users": ["tell me a joke"]}, {"users": ["what is the status"]}], "order": [0, 1]}
        yield {"leg": "v2", "mode": "conc", "config": V2_CFG, "llm": "field", "llmc": {"undef": 3, "names": names, "multi": 0},
               "convs": [{"users": ["tell me a joke"], "start": 0, "lat": [0.1, 0.1, 0.1]}, {"users": ["what is the status"], "start": 0.1, "lat": [0, 0.2, 0.1]}]}


def _finding_status(fid):
    from vf.core import load_known

    for f in load_known():
        if f.get("id") == fid:
            return f.get("status")
    return None


def _v2_shared_names():
    """Whether the Colang 2.x leg lets two conversations name the same LLM-generated flow.  That shape breaks the property on
    the unchanged tree (finding F_V2, reported by this module).  It is generated once the finding is listed in
    known_findings.json - open: a third of the v2 cases, classified by `known`; fixed: most of them - or when the
    environment says VF_C15_V2_SHARED=1; until then the leg stays in the sub-domain with per-conversation names."""
    import os

    status = _finding_status(F_V2)
    if os.environ.get("VF_C15_V2_SHARED") == "1":
        return status or "unlisted"
    return status


def _between_family(tier):
    """Deterministic family "many conversations in between": a multi-turn conversation on a dialog-rails configuration (its
    cached events - intents, flow position - matter for the next prompt), and 130-300 single-turn conversations of other users
    served by the same instance between two of its turns."""
    dialog_cfgs = [c for c in SEQ_CFGS if c["dialog"]]
    shapes = [
        # (users of the long conversation, users of a second one, order, after)
        ([["hi"], ["tell me a joke"]], [["a"]], [0, 1, 0], 1),
        ([["hello there"], ["tell me a story"], ["b"]], [["what time is it"], ["hi"]], [0, 0, 1, 0, 1], 1),
        ([["what is the status"], ["a:b"]], [["tell me two facts"]], [1, 0, 0], 1),
    ]
    plan = [(0, 140, "onecoro", "field", 0), (3, 260, "async", "kw1", 1)]
    if tier != "quick":
        plan = [(c, n, api, llm, (c + a) % len(shapes)) for c in range(len(dialog_cfgs)) for a, (n, api, llm) in enumerate([(130, "sync", "field"), (200, "async", "kw0"), (300, "onecoro", "field")])]
    for c, n, api, llm, sh in plan:
        ua, ub, order, after = shapes[sh]
        conv = lambda users: {"init": [], "users": users, "log": False, "stream": False, "temp": None, "mt": None}  # noqa: E731
        yield {"leg": "seq", "config": dialog_cfgs[c % len(dialog_cfgs)], "llm": llm, "api": api, "convs": [conv(ua), conv(ub)], "order": order,
               "between": {"after": after, "n": n, "atom": CONC_ATOMS[(c + n) % len(CONC_ATOMS)]}}


def _disjoint_family(tier):
    """Deterministic family "overlapping requests that alter different parameters": request A (no llm_params, or one
    parameter) is in flight when request B (the other parameter only) starts; B ends before or after A; general mode and
    dialog rails; both LLM variants with both parameters configured.  Where A alters nothing and outlives B (the quick
    tier's members) every block of the unchanged tree restores exactly what it altered and nothing departs from the isolated
    replays - no listed finding is involved; the other members also contain instances of C15-F9b (a call that starts or ends
    inside another request's block), classified by the defect model."""
    cfgs = [c for c in SEQ_CFGS if not c["dialog"] and not c["in"]][:1] + [SEQ_CFGS[0]]
    llm_first = {fakes.ROUTES[r][0] for r in ("llm", "lp", "ll", "next_llm", "act_llm")}  # intents answered by an LLM-generated message

    def atom(i):
        # a user text for task i whose (digest-chosen) intent makes the dialog rails ask the LLM for the bot message, i.e. open
        # the block that carries the request's llm_params
        return next((a for a in CONC_ATOMS if INTENTS[_dg(f"t{i}u0 {a}") % len(INTENTS)] in llm_first), CONC_ATOMS[0])

    combos = [(None, None, None, 16), (0.2, None, None, 5), (None, 64, 0.9, None), (None, None, 0.0, None)]
    for cfg in cfgs:
        for llm in ("field", "kw0"):
            for (ta, ma, tb, mb) in combos:
                for lat_a, lat_b in ((0.5, 0.1), (0.2, 0.5)):
                    if tier == "quick" and not (ta is None and ma is None and lat_a > lat_b):
                        continue
                    yield {"leg": "conc", "config": cfg, "llm": llm, "pshape": "disjoint", "tasks": [
                        {"start": 0, "users": [atom(0)], "temp": ta, "mt": ma, "log": False, "stream": False, "lat": [lat_a]},
                        {"start": 0.05, "users": [atom(1)], "temp": tb, "mt": mb, "log": False, "stream": False, "lat": [lat_b]},
                        {"start": 2.0, "users": ["a"], "temp": None, "mt": None, "log": False, "stream": False, "lat": [0]}]}


def _ms_texts(intent, fmt=None, n=3):
    """n different user texts (atoms of the collision-prone alphabet, then pairs of them joined by ':') that the digest LLM
    maps, in multi-step generation mode, to `intent`; as part lists for the sequential leg (fmt None), or - fmt given - the
    atoms a of CONC_ATOMS whose task text fmt(a) does."""
    if fmt is not None:
        return [a for a in CONC_ATOMS if MS_INTENTS[_dg(fmt(a)) % len(MS_INTENTS)] == intent][:n]
    plain = [a for a in ATOMS if a != fakes.PREDEF["greet"]]
    cands = [[a] for a in plain] + [[a, b] for a in plain for b in plain]
    # (texts the digest verdict of a first input rail of kind "check" accepts, so that the family's cases reach the dialog rails)
    return [c for c in cands if MS_INTENTS[_dg(":".join(c)) % len(MS_INTENTS)] == intent and _dg("in0|" + ":".join(c)) % 5][:n]


def _ms_family(tier):
    """Deterministic family "generated flow bodies" (multi-step generation): conversations of different users whose requests
    are of the same kind (same unhandled intent), so the LLM writes the same flow body for each and the instance starts that
    body once per conversation - (a) one after the other, (b) A1 B1 A2 with bodies that wait for the next user turn (A's
    generated flow is waiting while B's is started, then A goes on), (c) three conversations and a pool of two bodies selected
    by the whole prompt, behind an input rail, (d) as concurrent tasks.  Thorough: all unhandled intents x call modes x LLMs."""
    base = {"v": 1, "in": [], "out": [], "dialog": True, "exc": False, "ret": 0, "ext": EXT_MS}
    conv = lambda users, **kw: dict({"init": [], "users": users, "log": False, "stream": False, "temp": None, "mt": None}, **kw)  # noqa: E731
    plans = [("ask time", "async", "field")] if tier == "quick" else [(i, api, llm) for i in MS_UNHANDLED for api, llm in (("async", "field"), ("sync", "kw0"), ("onecoro", "field"))]
    for intent, api, llm in plans:
        tx = _ms_texts(intent, n=4)
        other = _ms_texts("ask help" if intent != "ask help" else "ask time", n=1)
        if len(tx) < 3 or not other:
            continue
        # (a) same kind of request, one conversation after the other
        yield {"leg": "seq", "config": dict(base, ms={"bodies": 6, "by": "intent", "span": 0}), "llm": llm, "api": api,
               "convs": [conv([tx[0]]), conv([tx[1]])], "order": [0, 1]}
        # (b) A1 B1 A2 (and a third conversation afterwards): every body waits for a later user turn
        yield {"leg": "seq", "config": dict(base, ms={"bodies": 2, "by": "intent", "span": 3}), "llm": llm, "api": "onecoro" if api == "async" else api,
               "convs": [conv([tx[0], other[0]]), conv([tx[1]]), conv([tx[2], tx[0]], log=True)], "order": [0, 1, 0, 0, 0]}
        # (c) three conversations, bodies selected by the whole prompt, behind an input rail; the first conversation goes on
        yield {"leg": "seq", "config": dict(base, **{"in": ["check"], "ms": {"bodies": 2, "by": "prompt", "span": 1}}), "llm": llm, "api": "sync" if api == "async" else api,
               "convs": [conv([tx[0], tx[1]]), conv([tx[1]]), conv([tx[2]])], "order": [0, 1, 1, 0]}
        # (d) concurrent tasks
        ca = [a for t in range(3) for a in _ms_texts(intent, fmt=lambda a, t=t: f"t{t}u0 {a}", n=1)]
        if len(ca) == 3:
            yield {"leg": "conc", "config": dict(base, ms={"bodies": 3, "by": "intent", "span": 0}), "llm": llm, "tasks": [
                {"start": st_, "users": [a], "temp": None, "mt": None, "log": False, "stream": False, "lat": lat}
                for a, st_, lat in zip(ca, (0, 0.05, 1.0), ([0.1, 0.3], [0.2, 0.1], [0]))]}


def _ms_inline_plans():
    """(policy, intent of A, intent of B, bot intent, how B differs) for the family "inline bot messages": under the policy
    (bodies selected by the last user intent, so this can be worked out here) the body the LLM writes for A's kind of request
    carries an inline text for a bot intent WITHOUT configured message, and B - a request of another kind - comes to the same
    bot intent with no text of its own ("no-text"), with another text ("other-text"), or through a flow of the configuration
    ("configured-flow": `flow status` -> `bot inform status`)."""
    out = []
    for inline, bodies, iseed in [(i, b, s_) for s_ in range(6) for i in (1, 2, 3) for b in (1, 2, 3, 6)]:
        if True:
            ms = {"bodies": bodies, "by": "intent", "span": 0, "inline": inline, "iseed": iseed}
            for ia in MS_UNHANDLED:
                ta = {k: v for k, v in _ms_inline_texts(_ms_body_sel("user " + ia, ms)).items() if k not in MS_CONFIGURED_BOT}
                if not ta:
                    continue
                if "inform status" in ta:
                    out.append((ms, ia, "ask status", "inform status", "configured-flow"))
                for ib in MS_UNHANDLED:
                    bb = _ms_body_sel("user " + ib, ms)
                    for x in _ms_bot_intents(bb):
                        if ib != ia and x in ta and _ms_inline_texts(bb).get(x) != ta[x]:
                            out.append((ms, ia, ib, x, "other-text" if x in _ms_inline_texts(bb) else "no-text"))
    return out


def _ms_inline_family(tier):
    """Deterministic family "inline bot messages" (multi-step generation): conversation A makes the LLM write a body whose bot
    step carries its message inline, for a bot intent the configuration has no message for; conversation B - another user,
    another kind of request - is served afterwards (or between two turns of A) and comes to the same bot intent.  Quick: one
    member per way B differs (no text / another text / through a configured flow); thorough: every (policy, A, B) found."""
    base = {"v": 1, "in": [], "out": [], "dialog": True, "exc": False, "ret": 0, "ext": EXT_MS}
    conv = lambda users, **kw: dict({"init": [], "users": users, "log": False, "stream": False, "temp": None, "mt": None}, **kw)  # noqa: E731
    seen = set()
    n = 0
    for ms, ia, ib, x, how in _ms_inline_plans():
        key = how if tier == "quick" else (how, ia, ib, ms["bodies"])
        if key in seen or len(seen) >= 18:
            continue
        seen.add(key)
        ta, tb = _ms_texts(ia, n=2), _ms_texts(ib, n=2)
        if len(ta) < 2 or not tb:
            continue
        api, llm = [("async", "field"), ("onecoro", "kw0"), ("sync", "field")][n % 3]
        n += 1
        if n % 2:
            # A, then B, then a third user with A's kind of request (gets A's text in both runs: nothing to see there)
            yield {"leg": "seq", "config": dict(base, ms=ms), "llm": llm, "api": api, "convs": [conv([ta[0]]), conv([tb[0]]), conv([ta[1]])], "order": [0, 0, 0]}
        else:
            # A1 B1 A2: B is served between two turns of A, A goes on with B's kind of request
            yield {"leg": "seq", "config": dict(base, ms=ms), "llm": llm, "api": api, "convs": [conv([ta[0], tb[0]]), conv([tb[-1]], log=True)], "order": [0, 1, 0]}


def enumerate_cases(tier):
    yield from _json_family(tier)
    yield from _opt_family(tier)
    yield from _err_family(tier)
    yield from _greetvar_family(tier)
    yield from _ms_family(tier)
    yield from _ms_inline_family(tier)
    yield from _shift_family(tier)
    yield from _overflow_family(tier)
    yield from _rails_list_family(tier)
    yield from _between_family(tier)
    yield from _disjoint_family(tier)
    shared = _v2_shared_names()
    for case in _v2_family(tier):
        if case["llmc"]["names"] == 0 or shared:
            yield case


def _open_findings():
    from vf.core import load_known

    return {f["id"] for f in load_known() if f.get("property") == PID and f.get("status") == "open"}


def strategy(tier):
    """DESIGN 2.6: while a finding is listed *open*, most of the budget goes to the sub-domain that does not trigger it (the
    rest still exercises it: instances are classified by `known`, anything with another signature is reported)."""
    opened = _open_findings()
    llms = ["field"] * 5 + ["kw0"] * 3 + (["kw1", "kw1", "kw2", "kw2"] if "C15-F9c" not in opened else ["kw1"]) + OPT_LLMS
    conc = [_conc_case(llms)]
    if "C15-F9b" in opened:
        conc = [_conc_case(llms, quiet=True)] * 3 + conc
    shared = _v2_shared_names()
    v2 = _v2_case(False) if not shared else st.one_of(_v2_case(False), _v2_case(False), _v2_case(True)) if shared != "fixed" else st.one_of(_v2_case(False), _v2_case(True), _v2_case(True))
    # Colang 2.x turns are an order of magnitude slower than Colang 1.0 ones: one case in nine
    seq = st.one_of(*([_seq_case(llms)] * 5 + [_shift_case(llms)] + [_overflow_case(llms)] + [_json_case(llms)]))
    return st.one_of(*([seq] * len(conc) + conc + [v2]))


def budget(tier):
    return 1440 if tier == "quick" else 10000
