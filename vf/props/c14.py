"""C14 - Colang 1.0 dialog flows are followed like structured programs; the decision is a function of the history.

Domain : programs from vf/co1.py (1-3 flows + 0-2 subflows; user/bot/set/if-else/while/do/execute, nesting <= 3,
         non-competing intents, counter-bounded loops, definitely-assigned int variables) x histories built by
         co-simulation with up to 12 user steps: at each step the intent the reference interpreter waits for (follow),
         the first intent of another top-level flow (leave/start) or an unknown intent (leave), as chosen by the case;
         `execute` actions return generated ints.  Any user step may also carry a `cut`: its turn leaves the flow on an
         ACTIONABLE step - the n-th bot/execute step of the turn, or the n-th one inside a called subflow - by an
         unexpected user intent (unknown, or one of a later step), an unexpected bot intent, the failure of the started
         action (InternalSystemActionFinished status=failed) or another flow's first intent, instead of feeding the
         decided step back.  A later `follow` then comes back to the left flow: it starts again from its first statement.
Oracle : vf/co1.py's reference interpreter (recursive generators over the AST - no jump offsets).
         leg 1: after every batch of events the runtime would append, flows.compute_next_steps(history, flow_configs)
                must return exactly [ContextUpdate(sets since the last event)]? + [BotIntent | StartInternalSystemAction]?
                predicted by the interpreter; results are fed back as RuntimeV1_0._process_start_action does
                (ContextUpdate only if the result variable changes, then InternalSystemActionFinished).
         leg 2: RuntimeV1_0.generate_events(history + [UserIntent]) on a runtime built from the same source must
                produce the same event sequence up to Listen, and the registered actions must receive the evaluated
                parameter values the interpreter computed.
         purity: a second generated history is run on the same flow_configs / runtime, then every prefix of the first
                history is evaluated again and must give the identical canonical steps.
Leave  : (DESIGN 4/C14 "S") a flow left while it WAITS is only asserted again once the flow that was entered instead
         has run to its end while being followed and the history re-enters the old flow at the intent it waits for.
         Situations in which two top-level flows are active side by side (new flow starts with a wait) end the history.
         A flow left on a bot/execute step (its own or one of a subflow it called) does not match the conversation any
         more: nothing may be decided for the leaving event (unless that event starts another flow), and when its first
         intent arrives in a later event the history matches the flow up to its first statement again, so the next step
         is the flow's first statement (runtime: the instance and its callers are aborted; flows are singletons only
         while an instance lives).  Not generated: the left flow's own first intent as the leaving event, and leaving on
         an action while earlier left flows still wait (their fate is not stated).
"""
import asyncio

from hypothesis import strategies as st

from vf import co1
from vf.core import Violation, ok

PID = "C14"
LEVEL = "exploration"
CASE_TIMEOUT = 15
HANG_IS_VIOLATION = False
WALL = {"quick": 150, "thorough": 1500}
RULE = (
    "program = 1-3 `define flow` + 0-2 `define subflow` drawn from the co1 grammar (user, bot, $v = int expr, if/else "
    "[rendered with or without `else if`], while with a private counter and optional extra condition, do subflow, "
    "[$v =] execute act(p=$v|const)), nesting <= 3, blocks of 1-5 statements, intents of different flows disjoint; "
    "history = up to 12 user steps chosen by the case among follow / first intent of another flow / unknown intent, "
    "every bot intent and action result (generated ints) fed back as the runtime does; about 1 user step in 5 also "
    "carries a cut = (n, any|sub, how, j): on the n-th bot/execute step decided in that turn (counting all of them, or "
    "only those inside a called subflow) the history leaves the flow instead of feeding the step back - by an unexpected "
    "user intent (unknown or belonging to a later step of some flow), an unexpected bot intent (unknown or another one of "
    "the pool), the failure of the started action (status=failed) or the first intent of another flow - after which "
    "nothing (or the other flow's first statement) must be decided, and a later follow choice re-triggers the left flow, "
    "which must start again from its first statement and is then followed as usual; a second such history on the "
    "same flow_configs is used for the purity re-evaluation. Plus a fixed core of hand-written programs (one with two "
    "levels of subflows containing bot/user/execute steps) with all-follow and leave histories and an enumerated family "
    "core program x turn 0-2 x cut position x way of leaving, each followed by coming back to the flow. Non-trivial = "
    "the followed history passes through >= 1 `if` decision and >= 1 `while` iteration, or returns from a subflow, or "
    "starts a flow again that was left inside a subflow (measured from the interpreter trace); distinct by hash of the whole case."
)
ASSUMPTIONS = [
    "intents of different top-level flows are disjoint; when-branches, extension flows, priorities, `stop`, labels/goto are outside the subset",
    "variables hold ints and are assigned before use on every path; action parameters are constants or plain $variables",
    "after an unknown intent no step is expected and the waiting flow keeps waiting; after entering another flow the old "
    "flow is asserted again only after the new flow has completed while being followed (DESIGN S note)",
    "the history ends where two top-level flows would be active side by side (a flow entered while another one waits and "
    "whose first statement is itself a wait)",
    "a flow left on a bot/execute step (own or of a called subflow, any depth) is over: the leaving event decides nothing "
    "unless it is another flow's first intent, and the flow's first intent in a LATER event starts it again from its first "
    "statement; the left flow's own first intent is never used as the leaving event (the runtime does not restart a flow "
    "within the event that aborts it - not stated either way) and a cut is ignored while earlier left flows still wait "
    "(label cut-ignored:left-flows-waiting); the turn that is cut is not compared with generate_events (which would go on), "
    "leg 2 resumes with the leaving event; a failed action is the bare InternalSystemActionFinished(status=failed) event "
    "(the runtime's own failure path adds hide_prev_turn, which needs utterance events these intent-level histories do not have)",
    "leg 2 feeds generate_events the history built by leg 1 (same events, own uids); turns of more than 90 events skip leg 2 "
    "(generate_events gives up after 100 events per turn) and histories are cut once they exceed 160 events (quadratic replay cost)",
    "open findings C14-F13 (flow that ends inside its starting event is not completed) and C14-F14 (nested subflow call whose "
    "inner subflow starts with a wait) are excluded by construction: a history stops where it would trigger one (counted in "
    "coverage.counters.histories_cut_by_open_finding_*); replays/known/C14/*.json reproduce them",
]


# Finding C14-F13 (open, reported): a flow whose body runs to its end inside the event that starts it (nothing but
# set/if/while after the first `user` line on the executed path) is left ACTIVE with a negative head instead of
# COMPLETED; it swallows the next matching intent and can re-run its `set`s later.  While the finding is open the
# generated histories stop right after such a step (counted as excluded); set to False once it is fixed.
UNEXPECTED_BOT = "zz unexpected"  # a bot intent that no generated program contains
MAX_EVENTS = 160  # every evaluation replays the whole history: cost is quadratic, so long histories are cut
F13_OPEN = False
# Finding C14-F14 (open, reported): flow -> `do s1` -> `do s0` where s1 reaches the inner call while it is being
# entered and s0 starts by waiting for the user: _call_subflow records s1's element after `do s0` as the next step
# although s1 is interrupted by s0 (a bot/execute there is emitted at once; IndexError if `do s0` is s1's last element).
# While open, histories stop before such a step is asserted (conservatively: whatever follows the inner `do`).
F14_OPEN = False


def budget(tier):
    return 2400 if tier == "quick" else 25000


# ---------------------------------------------------------------------------------------------
# building the real objects

_mods = {}


def _repo():
    if not _mods:
        from nemoguardrails import RailsConfig
        from nemoguardrails.colang import parse_colang_file
        from nemoguardrails.colang.v1_0.runtime import flows
        from nemoguardrails.colang.v1_0.runtime.runtime import RuntimeV1_0
        from nemoguardrails.utils import new_event_dict

        _mods.update(RailsConfig=RailsConfig, parse=parse_colang_file, flows=flows, Runtime=RuntimeV1_0, new_event=new_event_dict)
    return _mods


def setup_worker():
    """One-time costs (importing the action library: presidio, spacy, ...) must not run under the per-case watchdog:
    an import interrupted by SIGALRM leaves half-initialised modules behind."""
    build_runtime("define flow warmup\n  user warmup\n  bot warmup\n")


def build_flow_configs(src):
    """parse_colang_file(version 1.0) + RuntimeV1_0._load_flow_config, without constructing a runtime."""
    m = _repo()
    parsed = m["parse"]("c14.co", content=src, version="1.0")
    holder = m["Runtime"].__new__(m["Runtime"])
    holder.flow_configs = {}
    for flow in parsed["flows"]:
        holder._load_flow_config(flow)
    return holder.flow_configs


class Actions:
    """Scripted actions for leg 2: return queued values, record the keyword arguments they were called with."""

    def __init__(self):
        self.queue = []
        self.calls = []

    def make(self, name):
        async def action(**kwargs):
            self.calls.append([name, dict(kwargs)])
            return self.queue.pop(0) if self.queue else -99

        return action


def build_runtime(src):
    m = _repo()
    cfg = m["RailsConfig"].from_content(colang_content=src, yaml_content="models: []\n")
    rt = m["Runtime"](cfg)
    acts = Actions()
    for name in co1.ACTIONS:
        rt.register_action(acts.make(name), name)
    return rt, acts


def canon(events):
    out = []
    for e in events:
        t = e["type"]
        if t == "ContextUpdate":
            out.append(["ctx", dict(e["data"])])
        elif t == "BotIntent":
            out.append(["bot", e["intent"]])
        elif t == "StartInternalSystemAction":
            out.append(["exec", e["action_name"], dict(e["action_params"] or {}), e["action_result_key"]])
        elif t == "InternalSystemActionFinished":
            out.append(["done", e["action_name"], e["status"], e["return_value"]])
        elif t == "Listen":
            out.append(["listen"])
        else:
            out.append(["other", t])
    return out


# ---------------------------------------------------------------------------------------------
# co-simulation


class Active:
    def __init__(self, name, gen, trace_start=0):
        self.name = name
        self.gen = gen
        self.wait = None  # the user intent the flow waits for
        self.trace_start = trace_start  # length of the interpreter trace when the flow was started


class Sim:
    def __init__(self, program, fc, results, rt=None, acts=None, loop=None, allow_instant_end=False, allow_nested_wait=False):
        self.allow_instant_end = allow_instant_end
        self.allow_nested_wait = allow_nested_wait
        self.excluded = 0
        self.excluded14 = 0
        self.cut = False
        self.p = program
        self.fc = fc
        self.rt, self.acts, self.loop = rt, acts, loop
        self.results = results
        self.n_exec = 0
        self.ctx = {}
        self.cur = None
        self.stack = []
        self.history = []
        self.evals = []  # (history length, canonical steps) of every leg-1 evaluation
        self.calls2 = []  # (history length, user event, results used, canonical new events) of every leg-2 call
        self.trace = []
        self.labels = set()
        self.log = []
        self.done = False
        self.firsts = co1.first_intents(program)
        self.exec_calls = []  # [action, evaluated params] of the current user step (leg 2 compares)
        self.pending_cut = None  # the `cut` of the current user step: where and how the history leaves on an actionable step
        self.turn_actionable = {"any": 0, "sub": 0}  # bot/execute requests seen in this turn (all / inside a subflow)
        self.aborted = None  # (flow name, subflow depth) of the flow that was last left on an actionable step
        self.restarts = 0  # flows started again (and asserted) after having been left inside a subflow
        self.cut_req = None
        self.non_first = sorted(co1.all_intents(program) - set(self.firsts.values()))

    # -- real side ---------------------------------------------------------------------------
    def real(self):
        try:
            steps = _repo()["flows"].compute_next_steps(list(self.history), self.fc, None, [])
        except Exception as ex:  # no decision at all for a history inside the stated subset
            self.fail("exception", f"compute_next_steps raised {type(ex).__name__}: {ex}")
        c = canon(steps)
        self.evals.append((len(self.history), c))
        return steps, c

    def fail(self, kind, msg):
        tail = "; ".join(self.log[-6:])
        raise Violation(kind, f"{msg} | last events: {tail}", detail=self.triggers())

    def triggers(self):
        """Open-finding triggers this history went through (only possible when the case allows them)."""
        return {"f13": "entered-flow-ends-at-once" in self.labels, "f14": "nested-subflow-starts-with-wait" in self.labels}

    # -- reference side ----------------------------------------------------------------------
    def pump(self, act, answer, first=False):
        """Run the interpreter of `act` to its next bot/exec/user request; -> (sets, request | None)."""
        sets = {}
        mark = len(self.trace)
        try:
            req = next(act.gen) if first else act.gen.send(answer)
            while req[0] == "set":
                sets[req[1]] = req[2]
                req = next(act.gen)
        except StopIteration:
            req = None
        opened = 0
        for t in self.trace[mark:]:
            opened = opened + 1 if t == "do-enter" else max(0, opened - 1) if t == "do-return" else opened
        if opened >= 2 and req is not None and req[0] == "user":
            if self.allow_nested_wait:
                self.labels.add("nested-subflow-starts-with-wait")
            else:
                self.labels.add("excluded:nested-subflow-starts-with-wait")
                self.excluded14 += 1
                self.cut = self.done = True
        return sets, req

    def resolve(self, choice, exclude=None):
        """Turns a data choice into (kind, intent, flow name)."""
        kind, i = choice["k"], choice["i"]
        if kind == "follow" and self.cur is None:
            kind = "start"
            if self.aborted is not None:
                # the user comes back to the flow that was left on an actionable step: it starts again
                return "start", self.firsts[self.aborted[0]], self.aborted[0]
        if kind == "start":
            busy = {a.name for a in self.stack} | ({self.cur.name} if self.cur else set()) | ({exclude} if exclude else set())
            free = [f["name"] for f in self.p["flows"] if f["name"] not in busy]
            if not free:
                kind = "unknown"
            else:
                name = free[i % len(free)]
                return "start", self.firsts[name], name
        if kind == "follow":
            return "follow", self.cur.wait, self.cur.name
        return "unknown", co1.UNKNOWN_INTENT, None

    def depth(self, act):
        """Number of subflow calls the interpreter of `act` is currently inside of (exact while no other flow is left waiting)."""
        d = 0
        for t in self.trace[act.trace_start :]:
            d += 1 if t == "do-enter" else -1 if t == "do-return" else 0
        return max(d, 0)

    def cut_here(self, act):
        """Does the case want the history to leave the flow on the actionable step that was just decided?"""
        cut, depth = self.pending_cut, self.depth(act)
        n = self.turn_actionable["sub" if cut and cut["where"] == "sub" else "any"]
        self.turn_actionable["any"] += 1
        if depth:
            self.turn_actionable["sub"] += 1
        if not cut or n != cut["at"] or (cut["where"] == "sub" and not depth):
            return False
        if self.stack:
            # what becomes of flows that were left earlier and still wait is not asserted (S note): no such history
            self.labels.add("cut-ignored:left-flows-waiting")
            return False
        self.pending_cut = None
        return True

    def leave_on_action(self, act, req, cut):
        """The history leaves flow `act` while its head (or the head of a subflow it called) is on the bot / execute step
        `req`: an unexpected user or bot intent arrives instead of the decided bot intent, or the started action fails.
        No flow matches the conversation any more: nothing may be decided; the flow can be started again later."""
        m = _repo()
        depth = self.depth(act)
        how, j = cut["how"], cut["j"]
        if how == "failed" and req[0] != "exec":
            how = "user"
        others = [f["name"] for f in self.p["flows"] if f["name"] != act.name]
        if how == "start" and not others:
            how = "user"
        self.cur = None  # the stack is empty (cut_here)
        self.aborted = (act.name, depth)
        self.labels.add(f"leave-at-{'bot' if req[0] == 'bot' else 'execute'}-step:{how}")
        self.labels.add("leave-at-action:inside-subflow" if depth else "leave-at-action:own-step")
        if how == "start":
            # another flow's first intent: that flow starts (the left flow itself is not a candidate within this event)
            self.user_step({"k": "start", "i": j}, exclude=act.name)
            return
        before = len(self.history)
        if how == "user":
            pool = [co1.UNKNOWN_INTENT] + self.non_first
            event = m["new_event"]("UserIntent", intent=pool[j % len(pool)])
            self.log.append(f"user {event['intent']!r} (instead of {_short_req(req)})")
        elif how == "bot":
            pool = [UNEXPECTED_BOT] + [b for b in co1.BOTS if req[0] != "bot" or b != req[1]]
            event = m["new_event"]("BotIntent", intent=pool[j % len(pool)])
            self.log.append(f"bot {event['intent']!r} (instead of {_short_req(req)})")
        else:
            start = self.history[-1]
            event = m["new_event"](
                "InternalSystemActionFinished",
                action_uid=start["action_uid"],
                action_name=start["action_name"],
                action_params=start["action_params"],
                action_result_key=start["action_result_key"],
                status="failed",
                is_success=False,
                failure_reason="failed",
                return_value=None,
                events=[],
                is_system_action=False,
            )
            self.log.append(f"{req[1]}{req[2]} FAILED")
        self.history.append(event)
        steps, c = self.real()
        if c:
            self.fail("step-after-leaving-on-action", f"flow {act.name} was left on {_short_req(req)} and no flow matches the history, but the runtime decided {c}")
        self.log.append("-> (nothing)")
        if self.rt is not None and not self.cut:
            self.exec_calls = []
            self.leg2(before, event, [])

    def user_step(self, choice, exclude=None):
        m = _repo()
        self.pending_cut = choice.get("cut")
        self.turn_actionable = {"any": 0, "sub": 0}
        self.cut_req = None
        if len(self.history) > MAX_EVENTS:
            self.labels.add("stop:history-longer-than-%d-events" % MAX_EVENTS)
            self.done = True
            return
        kind, intent, name = self.resolve(choice, exclude)
        if kind == "follow" and any(a.wait == intent for a in self.stack):
            # a left flow waits for the same intent (both are inside the same subflow): competing intents, out of scope
            self.labels.add("stop:left-flow-waits-for-same-intent")
            self.done = True
            return
        before = len(self.history)
        n_exec0 = self.n_exec
        self.exec_calls = []
        event = m["new_event"]("UserIntent", intent=intent)
        self.history.append(event)
        self.log.append(f"user {intent!r} ({kind})")
        if kind == "unknown":
            self.labels.add("leave:unknown-intent" if self.cur else "unknown-intent-no-flow")
            steps, c = self.real()
            if c:
                self.fail("step-after-unmatched-intent", f"intent {intent!r} occurs in no flow but the runtime decided {c}")
        else:
            if kind == "follow":
                act = self.cur
                if self.stack:
                    self.labels.add("follow-inside-entered-flow")
                sets, req = self.pump(act, None)
            else:
                act = Active(name, co1.run_flow(self.p, name, self.ctx, self.trace), len(self.trace))
                sets, req = self.pump(act, None, first=True)
                if self.cur is not None:
                    self.labels.add("leave:other-flow")
                if self.aborted is not None and self.aborted[0] == name:
                    self.labels.add("restart-after-leave-on-action:" + ("inside-subflow" if self.aborted[1] else "own-step"))
                    self.restarts += 1 if self.aborted[1] else 0
                    self.aborted = None
                if req is not None and req[0] in ("bot", "exec"):
                    if self.cur is not None:
                        self.stack.append(self.cur)
                    self.cur = act
                elif req is None:
                    # the flow ends within the event that starts it (only set/if/while statements were executed)
                    if self.allow_instant_end:
                        self.labels.add("entered-flow-ends-at-once")
                    else:
                        # open finding C14-F13: such a flow is not marked completed; assert this step, then stop
                        self.labels.add("excluded:entered-flow-ends-at-once")
                        self.excluded += 1
                        self.done = True
                elif self.cur is None:
                    self.cur = act
                else:
                    # both flows would now be active side by side: assert this step, then stop (S note)
                    self.labels.add("stop:two-flows-active")
                    self.done = True
            self.drive(act, sets, req)
            if self.cut_req is not None:
                # the runtime would go on with this turn; the history does not: leg 2 starts again at the leaving event
                self.labels.add("leg2-skipped:turn-left-on-action")
                self.leave_on_action(act, self.cut_req, choice["cut"])
                return
        if self.rt is not None and not self.cut:
            self.leg2(before, event, self.results_used(n_exec0))

    def results_used(self, n0):
        return [self.results[k % len(self.results)] for k in range(n0, self.n_exec)]

    def drive(self, act, sets, req):
        m = _repo()
        while True:
            expected = [["ctx", sets]] if sets else []
            if req is not None and req[0] == "bot":
                expected.append(["bot", req[1]])
            elif req is not None and req[0] == "exec":
                expected.append(["exec", req[1], req[4], req[3]])
            if self.cut:
                return
            steps, c = self.real()
            if c != expected:
                self.fail("next-step", f"flow {act.name}: interpreter expects {expected}, runtime decided {c}")
            self.log.append("-> " + (" ".join(map(_short, c)) or "(nothing)"))
            if req is not None and req[0] in ("bot", "exec") and self.cut_here(act):
                # the decided bot intent is not fed back (a decided action start is: the runtime does not advance on it)
                self.history.extend(steps if req[0] == "exec" else steps[:-1])
                self.cut_req = req
                return
            self.history.extend(steps)
            if req is None or req[0] == "user":
                if steps:
                    # a lone ContextUpdate: the runtime appends it and evaluates once more
                    steps2, c2 = self.real()
                    if c2:
                        self.fail("step-after-context-update", f"flow {act.name}: nothing expected after the ContextUpdate, runtime decided {c2}")
                break
            if req[0] == "bot":
                answer = None
            else:
                self.labels.add("execute")
                self.exec_calls.append([req[1], req[2]])
                answer = self.results[self.n_exec % len(self.results)]
                self.n_exec += 1
                start = steps[-1]
                if req[3] and self.ctx.get(req[3]) != answer:
                    self.history.append(m["new_event"]("ContextUpdate", data={req[3]: answer}))
                    self.labels.add("execute:result-changes-context")
                self.history.append(
                    m["new_event"](
                        "InternalSystemActionFinished",
                        action_uid=start["action_uid"],
                        action_name=start["action_name"],
                        action_params=start["action_params"],
                        action_result_key=start["action_result_key"],
                        status="success",
                        is_success=True,
                        failure_reason="success",
                        return_value=answer,
                        events=[],
                        is_system_action=False,
                    )
                )
                self.log.append(f"{req[1]}{req[2]} returned {answer}")
            sets, req = self.pump(act, answer)
        if req is None:
            self.labels.add("flow-completed")
            if act is self.cur:
                self.cur = self.stack.pop() if self.stack else None
                if self.cur is not None:
                    self.labels.add("resume:old-flow-waits-again")
                    self.cur.resumed = True
        else:
            act.wait = req[1]
            if getattr(act, "resumed", False):
                self.labels.add("resume:old-flow-followed-after-leave")
                act.resumed = False

    # -- leg 2 -------------------------------------------------------------------------------
    def leg2(self, before, event, results):
        if len(self.history) - before > 90:
            # generate_events gives up ("Too many events") after 100 new events in one turn
            self.labels.add("leg2-skipped:turn-of-more-than-90-events")
            return None
        self.acts.queue = list(results)
        self.acts.calls = []
        new = self.loop.run_until_complete(self.rt.generate_events(self.history[:before] + [event]))
        got = canon(new)
        want = canon(self.history[before + 1 :]) + [["listen"]]
        self.calls2.append((before, event, list(results), got))
        if got != want:
            self.fail("generate-events-differs", f"generate_events produced {got}, compute_next_steps + feedback gives {want}")
        if self.acts.calls != self.exec_calls:
            self.fail("action-parameters", f"actions were called with {self.acts.calls}, interpreter evaluates {self.exec_calls}")
        return got


def _short_req(req):
    return f"bot {req[1]}" if req[0] == "bot" else f"execute {req[1]}"


def _short(c):
    if c[0] == "ctx":
        return "set" + repr(c[1])
    if c[0] == "bot":
        return f"bot:{c[1]}"
    if c[0] == "exec":
        return f"exec:{c[1]}{c[2]}->{c[3]}"
    return str(c)


# ---------------------------------------------------------------------------------------------
# cases

# where and how a user step's turn leaves the flow on an actionable (bot / execute) step instead of feeding it back:
# on the at-th actionable step of the turn ("any") or the at-th one that lies inside a called subflow ("sub"); by an
# unexpected user intent (unknown or belonging to a later step of some flow), an unexpected bot intent, the failure of
# the started action (execute steps only; else a user intent) or the first intent of another flow.
_cut = st.fixed_dictionaries(
    {
        "at": st.sampled_from([0, 0, 1, 1, 2, 3]),
        "where": st.sampled_from(["any", "sub", "sub"]),
        "how": st.sampled_from(["user", "user", "bot", "failed", "failed", "start"]),
        "j": st.integers(0, 5),
    }
)

_choice = st.builds(
    lambda k, i, cut: {"k": k, "i": i, "cut": cut},
    st.sampled_from(["follow"] * 8 + ["start"] * 2 + ["unknown"]),
    st.integers(0, 2),
    st.one_of(st.none(), st.none(), st.none(), st.none(), _cut),
)


def _history():
    return st.fixed_dictionaries(
        {
            "choices": st.lists(_choice, min_size=3, max_size=12),
            "results": st.lists(st.integers(-1, 4), min_size=1, max_size=6),
        }
    )


def strategy(tier):
    return st.fixed_dictionaries(
        {
            "program": co1.programs(),
            "else_if": st.booleans(),
            "main": _history(),
            "other": _history(),
            "leg2": st.sampled_from([True, True, True, False]),
            "allow_instant_end": st.just(not F13_OPEN),
            "allow_nested_wait": st.just(not F14_OPEN),
        }
    )


def _v(name):
    return {"var": name}


def _core_programs(with_nested=False):
    inc = lambda c: {"t": "set", "var": c, "expr": {"op": "+", "l": _v(c), "r": 1}}  # noqa: E731
    bot = lambda b: {"t": "bot", "intent": b}  # noqa: E731
    user = lambda u: {"t": "user", "intent": u}  # noqa: E731
    lt = lambda v, n: {"op": "<", "l": _v(v), "r": n}  # noqa: E731
    s0 = {"name": "s0", "body": [bot("b0"), user("s0 u0"), {"t": "set", "var": "y", "expr": {"op": "+", "l": _v("x"), "r": 1}}, bot("b1")]}
    f0 = {
        "name": "f0",
        "intent": "f0 start",
        "body": [
            {"t": "exec", "action": "act0", "params": {"p": 2}, "result": "x"},
            {
                "t": "if",
                "cond": {"op": ">", "l": _v("x"), "r": 1},
                "then": [bot("b1"), {"t": "set", "var": "c0", "expr": 0}, {"t": "while", "cond": lt("c0", 2), "body": [bot("b2"), user("f0 u0"), inc("c0")]}],
                "else": [{"t": "if", "cond": {"op": "==", "l": _v("x"), "r": 0}, "then": [bot("b3")], "else": [bot("b4"), user("f0 u1")]}],
            },
            {"t": "do", "flow": "s0"},
            {"t": "exec", "action": "act1", "params": {"p": _v("x"), "q": _v("y")}, "result": None},
            user("f0 u2"),
            bot("b0"),
        ],
    }
    f1 = {"name": "f1", "intent": "f1 start", "body": [{"t": "set", "var": "x", "expr": 3}, bot("b3"), user("f1 u0"), bot("b4")]}
    f2 = {
        "name": "f2",
        "intent": "f2 start",
        "body": [
            {"t": "set", "var": "x", "expr": 1},
            {"t": "set", "var": "c1", "expr": 0},
            {
                "t": "while",
                "cond": lt("c1", 3),
                "body": [
                    inc("c1"),
                    {"t": "if", "cond": {"op": "==", "l": _v("c1"), "r": 2}, "then": [{"t": "do", "flow": "s0"}], "else": None},
                    {"t": "set", "var": "c2", "expr": 0},
                    {"t": "while", "cond": lt("c2", 2), "body": [bot("b2"), inc("c2")]},
                ],
            },
            bot("b1"),
        ],
    }
    yield {"flows": [f0, f1], "subflows": [s0]}
    yield {"flows": [f2, f1], "subflows": [s0]}
    yield {"flows": [f1, f0, f2], "subflows": [s0]}
    if not with_nested:
        return
    # two levels of subflows with bot, user and execute steps at both levels
    s1 = {"name": "s1", "body": [bot("b2"), user("s1 u0"), {"t": "exec", "action": "act2", "params": {"p": _v("x")}, "result": "z"}, {"t": "do", "flow": "s0"}, bot("b3")]}
    f3 = {
        "name": "f3",
        "intent": "f3 start",
        "body": [
            {"t": "set", "var": "x", "expr": 2},
            bot("b0"),
            {"t": "do", "flow": "s1"},
            {"t": "if", "cond": {"op": ">", "l": _v("z"), "r": 1}, "then": [bot("b4")], "else": [{"t": "exec", "action": "act0", "params": {}, "result": None}]},
            user("f3 u0"),
            bot("b2"),
        ],
    }
    yield {"flows": [f3, f1], "subflows": [s0, s1]}


def _cut_cases():
    """Core programs x (turn, actionable step of the turn, way of leaving): follow, leave on a bot / execute step of the
    flow or of the subflow it called, come back to the flow (it starts again) and follow it to its end."""
    f = {"k": "follow", "i": 0}
    programs = list(_core_programs(with_nested=True))
    for n_prog, program in enumerate(programs):
        for turn in range(3):
            for n_pos, (at, where) in enumerate(((0, "any"), (1, "any"), (2, "any"), (0, "sub"), (1, "sub"))):
                for n_how, how in enumerate(("user", "bot", "failed", "start")):
                    cut = {"at": at, "where": where, "how": how, "j": (turn + at + n_prog) % 6}
                    yield {
                        "program": program,
                        "else_if": bool((turn + n_how) % 2),
                        "main": {"choices": [f] * turn + [dict(f, cut=cut)] + [f] * 8, "results": [[3, 0], [2], [0], [1, 2, 4]][(at + n_how) % 4]},
                        "other": {"choices": [f] * ((turn + 1) % 3) + [dict(f, cut=dict(cut, how="user"))] + [f] * 4, "results": [1, 3]},
                        "leg2": (turn + n_pos + n_how) % 2 == 0,
                        "allow_instant_end": not F13_OPEN,
                        "allow_nested_wait": not F14_OPEN,
                    }


def enumerate_cases(tier):
    yield from _cut_cases()
    follow = [{"k": "follow", "i": 0}] * 12
    leave = [{"k": "follow", "i": 0}] * 2 + [{"k": "start", "i": 0}] + [{"k": "follow", "i": 0}] * 3 + [{"k": "unknown", "i": 0}] + [{"k": "follow", "i": 0}] * 5
    for program in _core_programs():
        for results in ([3, 0], [0], [1, 2, 4], [2]):
            for else_if in (False, True):
                for choices in (follow, leave):
                    yield {
                        "program": program,
                        "else_if": else_if,
                        "main": {"choices": choices, "results": results},
                        "other": {"choices": leave, "results": [1, 3]},
                        "leg2": True,
                    }


# ---------------------------------------------------------------------------------------------


def known(case, violation):
    """Failures of histories that went through the trigger of a listed open finding (cases carry allow_* flags)."""
    d = violation.detail or {}
    if d.get("f14"):
        return "C14-F14"
    if d.get("f13"):
        return "C14-F13"
    return None


def _run_history(program, fc, hist, rt, acts, loop, allow_instant_end, allow_nested_wait):
    sim = Sim(program, fc, hist["results"], rt, acts, loop, allow_instant_end, allow_nested_wait)
    for choice in hist["choices"]:
        if sim.done:
            break
        sim.user_step(choice)
    return sim


def _warm_up_unwatched():
    """Replay mode has no setup_worker(): do the imports with the watchdog timer paused."""
    import signal

    remaining = signal.setitimer(signal.ITIMER_REAL, 0)[0]
    try:
        setup_worker()
    finally:
        if remaining:
            signal.setitimer(signal.ITIMER_REAL, remaining)


def _trig(*sims):
    out = {"f13": False, "f14": False}
    for sim in sims:
        for k, v in sim.triggers().items():
            out[k] = out[k] or v
    return out


def prop(case):
    if "Runtime" not in _mods and case.get("leg2", True):
        _warm_up_unwatched()
    program = case["program"]
    src = co1.render(program, indent=2, else_if=case["else_if"])
    fc = build_flow_configs(src)
    missing = [f["name"] for f in program["flows"] + program["subflows"] if f["name"] not in fc]
    if missing:
        raise Violation("flow-not-loaded", f"flows {missing} are missing from the flow configs built from\n{src}")
    rt = acts = loop = None
    if case.get("leg2", True):
        rt, acts = build_runtime(src)
        loop = asyncio.new_event_loop()
    try:
        allow = bool(case.get("allow_instant_end", False))
        allow14 = bool(case.get("allow_nested_wait", False))
        main = _run_history(program, fc, case["main"], rt, acts, loop, allow, allow14)
        other = _run_history(program, fc, case["other"], rt, acts, loop, allow, allow14)
        # purity: every evaluation of the first history again, after the other history went through the same objects
        m = _repo()
        for n, c in main.evals:
            again = canon(m["flows"].compute_next_steps(main.history[:n], fc, None, []))
            if again != c:
                raise Violation("impure", f"history prefix of {n} events gave {c} first and {again} after another history was evaluated on the same flow_configs", detail=_trig(main, other))
        fresh = build_flow_configs(src)
        for n, c in main.evals[-3:]:
            again = canon(m["flows"].compute_next_steps(main.history[:n], fresh, None, []))
            if again != c:
                raise Violation("impure", f"history prefix of {n} events gave {c} on the used flow_configs and {again} on freshly built ones", detail=_trig(main, other))
        if rt is not None:
            for before, event, results, got in main.calls2:
                acts.queue = list(results)
                acts.calls = []
                again = canon(loop.run_until_complete(rt.generate_events(main.history[:before] + [event])))
                if again != got:
                    raise Violation("impure-runtime", f"generate_events on a history of {before + 1} events gave {got} first and {again} later on the same runtime", detail=_trig(main, other))
    finally:
        if loop is not None:
            loop.close()
    t = main.trace
    n_if = t.count("if-true") + t.count("if-false")
    n_iter = t.count("while-iter")
    n_ret = t.count("do-return")
    labels = set(main.labels)
    for mark in ("if-true", "if-false", "while-iter", "while-exit", "do-enter", "do-return"):
        if mark in t:
            labels.add(mark)
    if n_iter >= 2:
        labels.add("while-iter>=2")
    if any(lab.startswith("resume:old-flow-followed") for lab in other.labels):
        labels.add("other-history:resume")
    if any(lab.startswith("restart-after-leave-on-action") for lab in other.labels):
        labels.add("other-history:restart-after-leave-on-action")
    labels.add("leg2" if rt is not None else "leg1-only")
    labels.add("else-if-spelling" if case["else_if"] and "else if" in src else "plain-else")
    nt = (n_if >= 1 and n_iter >= 1) or n_ret >= 1 or main.restarts >= 1
    view = {"source": src.split("\n"), "transcript": main.log[:40], "evaluations": len(main.evals)}
    counters = {
        "compute_next_steps_calls": len(main.evals) * 2 + len(other.evals) + 3,
        "generate_events_calls": (len(main.calls2) * 2 + len(other.calls2)) if rt is not None else 0,
        "user_steps": sum(1 for e in main.history if e["type"] == "UserIntent"),
        "histories_cut_by_open_finding_F13": main.excluded + other.excluded,
        "histories_cut_by_open_finding_F14": main.excluded14 + other.excluded14,
    }
    return ok(nt=nt, labels=sorted(labels), view=view, counters=counters)
