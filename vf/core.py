"""Runner shared by all property checks: sharded Hypothesis search, collect-then-shrink, replay,
known findings, evidence (DESIGN 2.3-2.6).

A property module (vf/props/cNN.py) provides

    PID, LEVEL, RULE, ASSUMPTIONS
    budget(tier)            -> total number of generated cases (split over the shards)
    strategy(tier)          -> Hypothesis strategy of JSON-serialisable cases     (or None)
    enumerate_cases(tier)   -> iterable of cases enumerated exhaustively          (optional)
    prop(case)              -> dict(nt=bool, labels=[str], view=json)  or raises Violation
    known(case, violation)  -> id of the listed known finding this failure is an instance of (optional)
    HANG_IS_VIOLATION, CASE_TIMEOUT, EXHAUSTIVE, WALL (optional)
"""
import hashlib
import importlib
import json
import os
import signal
import subprocess
import sys
import time
import traceback
from collections import Counter

from . import env

VERIF = env.VERIF_DIR
WORK = os.path.join(VERIF, ".work")
LEVELS = ("exploration", "fault_enumeration", "model_checking", "proof", "translation_validation", "other")


class Violation(Exception):
    """The property does not hold for this case."""

    def __init__(self, kind, msg="", detail=None):
        super().__init__(f"{kind}: {msg}")
        self.kind = kind
        self.msg = msg
        self.detail = detail


class CaseTimeout(BaseException):
    pass


class StopRun(BaseException):
    pass


def jdump(x):
    return json.dumps(x, sort_keys=True, ensure_ascii=True, default=repr)


def case_hash(case):
    return hashlib.sha1(jdump(case).encode()).hexdigest()[:16]


def ok(nt=False, labels=(), view=None, key=None, skip=None, counters=None):
    return {"nt": bool(nt), "labels": list(labels), "view": view, "key": key, "skip": skip, "counters": counters}


class Watchdog:
    """Per-case SIGALRM watchdog (the tree really hangs on some inputs)."""

    def __init__(self, seconds):
        self.seconds = seconds

    def _fire(self, *_):
        raise CaseTimeout()

    def __enter__(self):
        if self.seconds:
            self.old = signal.signal(signal.SIGALRM, self._fire)
            signal.setitimer(signal.ITIMER_REAL, self.seconds)
        return self

    def __exit__(self, *exc):
        if self.seconds:
            signal.setitimer(signal.ITIMER_REAL, 0)
            signal.signal(signal.SIGALRM, self.old)
        return False


def load_module(pid):
    return importlib.import_module(f"vf.props.{pid.lower()}")


def load_known():
    path = os.path.join(VERIF, "known_findings.json")
    if not os.path.exists(path):
        return []
    with open(path) as f:
        return json.load(f).get("findings", [])


# --------------------------------------------------------------------------------------------
# one case


class Runner:
    def __init__(self, mod, tier):
        self.mod = mod
        self.tier = tier
        self.timeout = getattr(mod, "CASE_TIMEOUT", 30)
        self.hang_is_violation = getattr(mod, "HANG_IS_VIOLATION", False)
        self.open_known = {f["id"] for f in load_known() if f.get("property") == mod.PID and f.get("status") == "open"}
        self.evaluations = 0
        self.nt = set()
        self.labels = Counter()
        self.samples = []
        self.violations = []  # (kind, msg, case)
        self.known_hits = Counter()
        self.timeouts = 0
        self.skipped = Counter()
        self.counters = Counter()
        self.errors = []

    def classify(self, case, v):
        fn = getattr(self.mod, "known", None)
        if fn is None:
            return None
        try:
            fid = fn(case, v)
        except Exception:
            return None
        return fid if fid in self.open_known else None

    def run_case(self, case, timeout=None):
        """Runs prop(case); returns (status, payload): ok/violation/known/timeout."""
        t = timeout or self.timeout
        try:
            with Watchdog(t):
                res = self.mod.prop(case)
            return "ok", res or ok()
        except Violation as v:
            fid = self.classify(case, v)
            if fid:
                return "known", fid
            return "violation", v
        except Exception:
            # an exception the property module did not classify: harness error, never a VIOLATION
            self.errors.append(traceback.format_exc()[-3000:])
            return "error", None
        except CaseTimeout:
            if self.hang_is_violation:
                # confirm alone with a longer limit
                try:
                    with Watchdog(t * 3):
                        res = self.mod.prop(case)
                    return "ok", res or ok()
                except CaseTimeout:
                    v = Violation("hang", f"case did not finish within {t * 3}s (confirmed twice)")
                    fid = self.classify(case, v)
                    if fid:
                        return "known", fid
                    return "violation", v
                except Violation as v:
                    fid = self.classify(case, v)
                    if fid:
                        return "known", fid
                    return "violation", v
            return "timeout", None

    def record(self, case):
        self.evaluations += 1
        status, payload = self.run_case(case)
        if status == "ok":
            res = payload
            if res.get("skip"):
                self.skipped[res["skip"]] += 1
            for lab in res.get("labels", ()):
                self.labels[lab] += 1
            for k, v in (res.get("counters") or {}).items():
                self.counters[k] += v
            if res.get("nt"):
                h = res.get("key") or case_hash(case)
                if h not in self.nt:
                    self.nt.add(h)
                    if len(self.samples) < 4:
                        self.samples.append(res.get("view") if res.get("view") is not None else case)
        elif status == "violation":
            v = payload
            self.violations.append((v.kind, v.msg, case))
        elif status == "known":
            self.known_hits[payload] += 1
        elif status == "error":
            if len(self.errors) > 20:
                raise RuntimeError("too many unclassified exceptions; first: " + self.errors[0])
        else:
            self.timeouts += 1
        return status, payload


# --------------------------------------------------------------------------------------------
# worker process


def hyp_settings(max_examples, shrink):
    from hypothesis import HealthCheck, Phase, settings

    phases = [Phase.generate, Phase.shrink] if shrink else [Phase.generate]
    return settings(
        max_examples=max_examples,
        database=None,
        deadline=None,
        derandomize=False,
        report_multiple_bugs=False,
        phases=phases,
        suppress_health_check=list(HealthCheck),
        print_blob=False,
    )


def worker_main(argv):
    pid, tier, seed, shard, nshards, budget, wall, out = argv
    seed, shard, nshards, budget, wall = int(seed), int(shard), int(nshards), int(budget), float(wall)
    env.bootstrap()
    t0 = time.time()
    result = {"shard": shard, "error": None}
    try:
        mod = load_module(pid)
        if hasattr(mod, "setup_worker"):
            mod.setup_worker()
        r = Runner(mod, tier)
        deadline = t0 + wall
        budget_hit = False
        # tool mode for seed suites (never used by a registered command): the first violation of any shard ends the search
        stopfile = os.environ.get("VF_STOPFILE")

        def stop_now():
            if not stopfile:
                return False
            if r.violations and not os.path.exists(stopfile):
                open(stopfile, "w").close()
            return os.path.exists(stopfile)

        # 1. enumerated cases, round-robin over shards
        enum = getattr(mod, "enumerate_cases", None)
        n_enum = 0
        if enum is not None:
            for i, case in enumerate(enum(tier)):
                if i % nshards != shard:
                    continue
                if time.time() > deadline:
                    budget_hit = True
                    break
                n_enum += 1
                r.record(case)
                if stop_now():
                    budget_hit = True
                    break

        # 2. generated cases (collect mode: violations are recorded, generation goes on)
        strat = mod.strategy(tier) if getattr(mod, "strategy", None) else None
        n_gen = 0
        hseed = seed * 1000 + shard
        if strat is not None and budget > 0 and not budget_hit:
            import hypothesis
            from hypothesis import given

            def collect(case):
                nonlocal n_gen
                if time.time() > deadline:
                    raise StopRun()
                n_gen += 1
                r.record(case)
                if stop_now():
                    raise StopRun()

            test = hypothesis.seed(hseed)(hyp_settings(budget, False)(given(strat)(collect)))
            try:
                test()
            except StopRun:
                budget_hit = True

        # 3. shrink the smallest new violation of the first kind with Hypothesis itself
        minimal = []
        if r.violations:
            kinds = []
            for k, _, _ in r.violations:
                if k not in kinds:
                    kinds.append(k)
            for kind in kinds[:3]:
                cands = [(len(jdump(c)), m, c) for k, m, c in r.violations if k == kind]
                cands.sort(key=lambda x: x[0])
                best = {"kind": kind, "msg": cands[0][1], "case": cands[0][2], "shrunk": False}
                if strat is not None and tier != "replay" and not stopfile:
                    import hypothesis
                    from hypothesis import given

                    sh_deadline = time.time() + float(os.environ.get("VF_SHRINK_S", "90"))
                    state = {"last": None}
                    probe = Runner(mod, tier)

                    def failing(case):
                        if time.time() > sh_deadline:
                            return
                        status, payload = probe.run_case(case)
                        if status == "violation" and payload.kind == kind:
                            state["last"] = (payload.msg, case)
                            raise payload

                    test = hypothesis.seed(hseed)(hyp_settings(max(budget, 1), True)(given(strat)(failing)))
                    try:
                        test()
                    except Violation:
                        pass
                    except BaseException:
                        pass
                    if state["last"] is not None and len(jdump(state["last"][1])) <= cands[0][0]:
                        best.update(msg=state["last"][0], case=state["last"][1], shrunk=True)
                minimal.append(best)

        result.update(
            evaluations=r.evaluations,
            n_enum=n_enum,
            n_gen=n_gen,
            nt=sorted(r.nt),
            labels=dict(r.labels),
            samples=r.samples,
            n_violations=len(r.violations),
            minimal=minimal,
            known_hits=dict(r.known_hits),
            timeouts=r.timeouts,
            skipped=dict(r.skipped),
            counters=dict(r.counters),
            case_errors=r.errors[:3],
            n_case_errors=len(r.errors),
            budget_hit=budget_hit,
            hseed=hseed,
            wall=time.time() - t0,
        )
    except BaseException:
        result["error"] = traceback.format_exc()
    with open(out, "w") as f:
        f.write(jdump(result))


# --------------------------------------------------------------------------------------------
# parent


def replay_file(mod, path):
    with open(path) as f:
        data = json.load(f)
    case = data["case"] if isinstance(data, dict) and "case" in data and "property" in data else data
    r = Runner(mod, "replay")
    r.open_known = set()  # a replay reports what it sees
    status, payload = r.run_case(case, timeout=getattr(mod, "CASE_TIMEOUT", 30) * 2)
    return status, payload, case


def write_replay(pid, kind, msg, case):
    d = os.path.join(VERIF, "replays", "out")
    os.makedirs(d, exist_ok=True)
    path = os.path.join(d, f"{pid}-{case_hash(case)}.json")
    with open(path, "w") as f:
        json.dump({"property": pid, "kind": kind, "msg": msg, "case": case}, f, indent=1, sort_keys=True, default=repr)
    return path


def write_evidence(mod, tier, seed, cov, wall, violations, extra_assumptions=(), scratch=False):
    # runs against a scratch copy of the repository (VERIF_REPO) or with an overridden budget are experiments: their record goes
    # to .work/ so that evidence/ only ever holds records of the registered commands run against /repo itself
    sub = os.path.join(".work", "evidence") if scratch else "evidence"
    os.makedirs(os.path.join(VERIF, sub), exist_ok=True)
    ev = {
        "property_id": mod.PID,
        "tier": tier if tier in ("quick", "thorough") else "quick",
        "seed": seed,
        "level": mod.LEVEL,
        "coverage": cov,
        "assumptions": list(getattr(mod, "ASSUMPTIONS", [])) + list(extra_assumptions),
        "wall_s": round(wall, 2),
        "violations": violations,
    }
    path = os.path.join(VERIF, sub, f"{mod.PID}.json")
    tmp = path + f".{os.getpid()}.tmp"  # (unique per process: two runs of one check must not collide)
    with open(tmp, "w") as f:
        json.dump(ev, f, indent=1, sort_keys=True, default=repr)
    os.replace(tmp, path)
    return path


def main(argv=None):
    import argparse

    ap = argparse.ArgumentParser(prog="check")
    ap.add_argument("pid")
    ap.add_argument("--tier", default=os.environ.get("VERIF_TIER", "quick"), choices=["quick", "thorough"])
    ap.add_argument("--replay")
    ap.add_argument("--seed", type=int, default=None)
    ap.add_argument("--workers", type=int, default=int(os.environ.get("VF_WORKERS", "0")) or min(16, os.cpu_count() or 4))
    ap.add_argument("--budget", type=int, default=None, help="override the number of generated cases")
    args = ap.parse_args(argv)
    env.bootstrap()
    pid = args.pid.upper()
    seed = args.seed if args.seed is not None else env.seed()
    t0 = time.time()
    try:
        mod = load_module(pid)
    except Exception:
        traceback.print_exc()
        print(f"HARNESS-ERROR property={pid} cannot import the property module or the repository")
        return 2

    if args.replay:
        status, payload, case = replay_file(mod, args.replay)
        if status == "violation":
            print(f"replay: {payload.kind}: {payload.msg}")
            print(f"VIOLATION property={pid} replay={args.replay}")
            return 1
        if status == "timeout":
            print(f"replay: timeout (inconclusive) {args.replay}")
            return 2
        print(f"replay: property held on {args.replay}")
        return 0

    findings = [f for f in load_known() if f.get("property") == pid]
    out_lines = []
    violations = []  # (kind, msg, path)

    # 0. replay tier: committed regression cases (must pass) and known-finding repros
    reg_dir = os.path.join(VERIF, "replays", "regress", pid)
    n_reg = 0
    if os.path.isdir(reg_dir):
        for fn in sorted(os.listdir(reg_dir)):
            if not fn.endswith(".json"):
                continue
            n_reg += 1
            path = os.path.join(reg_dir, fn)
            status, payload, case = replay_file(mod, path)
            if status == "violation":
                # is it an instance of an open known finding?
                r = Runner(mod, "replay")
                fid = r.classify(case, payload)
                if fid:
                    continue
                violations.append((payload.kind, payload.msg, os.path.relpath(path, VERIF)))
    known_lines = []
    for f in findings:
        still = None
        for repro in [f.get("repro")] + list(f.get("more_repros", [])):
            if not repro:
                continue
            n_reg += 1
            path = os.path.join(VERIF, repro)
            status, payload, case = replay_file(mod, path)
            if status == "violation":
                still = True
                if f.get("status") == "fixed":
                    violations.append((payload.kind, "fixed finding %s is back: %s" % (f["id"], payload.msg), repro))
            elif still is None:
                still = False
        repro = f.get("repro")
        if f.get("status") == "open":
            if still is False:
                known_lines.append(f"NOTE: known finding {f['id']} no longer reproduces ({repro})")
            else:
                known_lines.append(f"KNOWN-FINDING: property={pid} {f['id']} {f['what']}")

    # 1. sharded search
    nshards = max(1, args.workers)
    total = args.budget if args.budget is not None else int(mod.budget(args.tier))
    per = (total + nshards - 1) // nshards if total else 0
    wall = float(getattr(mod, "WALL", {}).get(args.tier, 150 if args.tier == "quick" else 1500))
    wall = float(os.environ.get("VF_WALL", wall))
    os.makedirs(WORK, exist_ok=True)
    procs = []
    failfast = bool(os.environ.get("VF_FAILFAST"))
    if failfast:
        os.environ["VF_STOPFILE"] = os.path.join(WORK, f"{pid}-{os.getpid()}.stop")
        if violations:
            nshards = 0  # a committed replay already fails: nothing more to learn in this mode
    for s in range(nshards):
        out = os.path.join(WORK, f"{pid}-{os.getpid()}-{s}.json")
        cmd = [sys.executable, "-m", "vf.worker", pid, args.tier, str(seed), str(s), str(nshards), str(per), str(wall), out]
        p = subprocess.Popen(cmd, cwd=VERIF, stdout=subprocess.DEVNULL, stderr=subprocess.PIPE)
        procs.append((p, out))
    results, errors = [], []
    for p, out in procs:
        try:
            _, err = p.communicate(timeout=wall * 2 + 600)
        except subprocess.TimeoutExpired:
            p.kill()
            _, err = p.communicate()
            errors.append("worker exceeded twice the wall budget and was killed")
            continue
        if os.path.exists(out):
            with open(out) as f:
                res = json.load(f)
            os.remove(out)
            if res.get("error"):
                errors.append(res["error"])
            else:
                results.append(res)
        else:
            errors.append("worker died without a result: " + (err or b"").decode(errors="replace")[-2000:])

    if failfast and os.path.exists(os.environ["VF_STOPFILE"]):
        os.remove(os.environ["VF_STOPFILE"])
    evaluations = sum(r["evaluations"] for r in results)
    nt = set()
    labels = Counter()
    known_hits = Counter()
    skipped = Counter()
    counters = Counter()
    samples = []
    timeouts = 0
    for r in results:
        nt.update(r["nt"])
        labels.update(r["labels"])
        known_hits.update(r["known_hits"])
        skipped.update(r["skipped"])
        counters.update(r.get("counters", {}))
        errors.extend(r.get("case_errors", []))
        timeouts += r["timeouts"]
        for s in r["samples"]:
            if len(samples) < 5:
                samples.append(s)
    # violations: smallest per kind across shards
    per_kind = {}
    n_viol_cases = sum(r["n_violations"] for r in results)
    for r in results:
        for m in r["minimal"]:
            cur = per_kind.get(m["kind"])
            if cur is None or len(jdump(m["case"])) < len(jdump(cur["case"])):
                per_kind[m["kind"]] = m
    for kind, m in per_kind.items():
        path = write_replay(pid, kind, m["msg"], m["case"])
        violations.append((kind, m["msg"], os.path.relpath(path, VERIF)))

    if not samples:
        # fall back to any evaluated sample so the evidence shows what cases look like
        samples = [{"note": "no non-trivial sample recorded"}]
    cov = {
        "evaluations": evaluations + n_reg,
        "distinct_nontrivial": len(nt),
        "rule": mod.RULE,
        "samples": samples,
        "class_histogram": dict(labels.most_common(150)),
        "generated": sum(r["n_gen"] for r in results),
        "enumerated": sum(r["n_enum"] for r in results),
        "regression_replays": n_reg,
        "known_finding_instances_seen": dict(known_hits),
        "excluded_or_skipped": dict(skipped),
        "counters": dict(counters),
        "inconclusive_timeouts": timeouts,
        "violating_cases_seen": n_viol_cases,
        "shards": nshards,
        "shard_seeds": [r["hseed"] for r in results][:16],
        "budget_hit": any(r["budget_hit"] for r in results),
        "workers_failed": len(errors),
    }
    if getattr(mod, "EXHAUSTIVE", None):
        cov["exhaustive"] = bool(mod.EXHAUSTIVE if not callable(mod.EXHAUSTIVE) else mod.EXHAUSTIVE(args.tier)) and not cov["budget_hit"]
    scratch = os.path.realpath(env.REPO) != "/repo" or args.budget is not None or bool(os.environ.get("VERIF_SEEDED")) or bool(os.environ.get("VF_FAILFAST"))
    write_evidence(mod, args.tier, seed, cov, time.time() - t0, len(violations), scratch=scratch)

    for line in known_lines:
        print(line)
    print(
        f"{pid} tier={args.tier} seed={seed}: {evaluations} cases ({cov['enumerated']} enumerated, {cov['generated']} generated, "
        f"{n_reg} replays), {len(nt)} distinct non-trivial, {timeouts} timeouts, known-instances={dict(known_hits)}, "
        f"wall={time.time() - t0:.1f}s"
    )
    if labels:
        print("  classes: " + ", ".join(f"{k}={v}" for k, v in labels.most_common(14)))
    for kind, msg, path in violations:
        print(f"  {kind}: {msg[:400]}")
        print(f"VIOLATION property={pid} replay={path}")
    if violations:
        return 1
    if errors:
        print("HARNESS-ERROR " + errors[0][-3000:])
        return 2
    if evaluations == 0:
        print("HARNESS-ERROR no case was evaluated")
        return 2
    if evaluations and timeouts > 0.5 * evaluations:
        print("HARNESS-ERROR more than half of the cases timed out")
        return 2
    return 0
