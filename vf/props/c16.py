"""C16 - generation options run exactly the selected rail categories (Colang 1.0).

Domain : v1 configuration with 0-2 input rails, 0-2 output rails (all of the block-or-rewrite shape, so every rail can
         accept / reject / rewrite), 0-1 retrieval rail and dialog rails;  ALL 16 subsets of {input, dialog, retrieval,
         output} x 2 spellings of the `rails` option (list of names / dict of booleans) x every effective verdict
         vector over the selected rails - this table is enumerated completely (`enumerate_cases`) for the main
         configuration (2 input, 1-2 output, 1 retrieval rail) and, in one spelling, for the family SHAPES: every other
         pair of rail counts (a selected category may have NO rail configured) and the configurations in which ONE rail
         flow is listed in several places - in rails.input.flows and rails.output.flows, twice within one category,
         or both (the loader accepts all of these; such a flow tells its direction from the documented context
         variable $triggered_output_rail).  User / bot texts and dialog routes vary over a pool in the table and are
         drawn by Hypothesis in the sampled part, which also draws rail counts and the flow shared by each slot.
         A bot message is supplied (last message, role assistant) whenever dialog is off and output is on.
         Two further dimensions of every row: (1) HOW THE RAILS KEEP AND SIGNAL THEIR VERDICT - all rail flows of the
         configuration write their action's result to one shared variable (the library convention `$allowed = execute
         ...` / `if not $allowed`) or each to a variable of its own, and a rejecting action returns False, None (no
         return value), 0 or "" (each makes `if not $result` true) - so a rail that rejects after an earlier rail of the
         same call allowed must still block;  (2) THE CALLS BEFORE THE JUDGED ONE - 0-3 earlier calls on the same
         instance, each with its own `rails` selection (or none = all rails), verdicts, route and texts, continuing the
         conversation or belonging to another one, and the way the calls are awaited: each in its own task (`generate`,
         `run_until_complete(generate_async)`) or ALL IN ONE COROUTINE (one asyncio task = one contextvars context, as an
         application's own coroutine or a batch loop awaits `generate_async`).  Only the last call is judged: reply, rail
         invocations, LLM calls and log are those of THIS call, whatever ran before it;  (3) HOW THE CALLER HANDS OVER THE
         OPTIONS (`options: Optional[Union[dict, GenerationOptions]]`) - a new dict per call, a new GenerationOptions object
         per call, or ONE dict / ONE GenerationOptions object that the caller keeps and passes to every call of the case
         with these options (an earlier call may pass the very options of the judged call; if they take a supplied bot
         message, that earlier call may have been made WITHOUT one - the caller had no candidate answer yet.  What such a
         call does is not specified and not judged; the judged call must still run the categories selected in the options
         the caller passed);  (4) WHAT THE PREDEFINED BOT MESSAGES LOOK LIKE - fixed texts, or TEMPLATES that mention a context variable
         (`"Sorry $vf_who, ..."`, `{{ vf_who }}`, `{{ vf_who | upper }}`: the refusal of every rail and, when the caller plants the variable,
         the dialog rails' predefined messages), the variable planted by the caller with a message of role `context` in front of every call or
         set by the rail flow right before it utters its refusal.  A rendered refusal / predefined message is still a predefined message: the
         reply is its rendered text, output rails do not run on it, the log lists the rails that ran with `stop` on the blocking one;
         (5) A SPARE BOT MESSAGE - a selection with NEITHER dialog NOR output (none, input, retrieval, input+retrieval) whose caller still
         appends the bot message it holds (last message, role assistant): the selected categories run on the user message as always;
         (6) WHITESPACE AROUND THE TEXTS - the user text and the supplied bot message begin / end with spaces, tabs or newlines, and so do
         the texts the rewriting rails hand back: the reply of a rails-only call is EXACTLY the text sent / supplied / rewritten.
Oracle : reference table written from docs/user_guides/advanced/generation-options.md and the statement:
           * no rail action of an unselected category is ever invoked; selected input rails run in order on the text
             left by their predecessors until the first reject;
           * dialog unselected  -> 0 LLM calls; reply = refusal | (rewritten) user text (output off)
                                                    | refusal | (rewritten) supplied bot message (output on);
           * dialog selected    -> the LLM is called (unless the input was blocked); the LLM text passes the output
             chain iff `output` is selected;
           * log.activated_rails lists, for the input/output categories, exactly the rails that ran, in order, with
             `stop` on exactly the blocking rail; no other entry has `stop` (a flow that ran in two places is listed
             once per place, under its category, each entry with its own `stop`).
Not asserted (DESIGN 4/C16 S): retrieval rails running when `retrieval` is selected (they run inside bot-message
         generation, also for refusals) - only that they never run when it is not; per-rail name lists in the
         options (documented as unsupported) are not generated.
"""
import itertools
import json

from hypothesis import strategies as st

from vf import fakes, pipeline
from vf.core import Violation, ok
from vf.fakes import GENERATION_TASKS, PREDEF, refusal_text

PID = "C16"
LEVEL = "exploration"
CASE_TIMEOUT = 60
WALL = {"quick": 300, "thorough": 1500}
CATS = ["input", "dialog", "retrieval", "output"]
SUPPLIED_K = 9  # the supplied bot message carries the marker LM0C9Z so that output rails treat it as checked material
RULE = (
    "Colang 1.0 config: 0-2 input rails + 0-2 output rails (each can accept/reject/rewrite) + 0-1 retrieval rail + dialog rails; "
    "a rail flow may be listed in several places (in rails.input.flows AND rails.output.flows, twice within one category, or both). "
    "Enumerated completely: (a) main configuration 2 input + {1,2} output + 1 retrieval rail: all 16 subsets of "
    "{input,dialog,retrieval,output} x {list, dict} spelling of options.rails x every effective verdict vector of the selected "
    "categories (a rail after a rejecting one is not varied; unselected categories get one vector containing a reject and a "
    "rewrite) = 768 rows; (b) family SHAPES = 8 further rail-count shapes (every (n_in, n_out) in {0,1,2}^2, with and without a "
    "retrieval rail, so a selected category can have no rail at all) + 9 same-flow shapes (one flow in input and output, crossed "
    "pairs, twice in input, twice in output, one flow in all four places), each x 16 subsets x every effective verdict vector, "
    "spelling alternating = 1632 rows; texts/routes cycle over a pool; every 4th row is also judged after a call with all rails, "
    "every 3rd eligible row with an empty supplied bot message, every 6th as the last of 2-3 calls that ONE coroutine awaits one "
    "after the other (earlier calls: selection / none, verdict vectors, route, texts and same-or-other conversation derived from the "
    "row number); (c) family RESULT_SHAPES on the 2+2+1 configuration = how a rejection is signalled: result variable shared by all "
    "rail flows x rejecting action returns None / 0 / '' and own variable per rail x returns False / None (shared + False is every "
    "other table), each x 16 subsets x every effective verdict vector with a reject in a selected category = 780 rows + variants. "
    "(d) family OPTION_FORMS: every 6th row of (a)-(c) is also judged as the last of 2-3 calls that pass EQUAL options, handed over as ONE "
    "GenerationOptions object kept by the caller / a new GenerationOptions object per call / ONE dict kept by the caller (2 : 1 : 1), awaited by "
    "generate / in one task / run_until_complete per call (crossed); if the selection takes a supplied bot message (output without dialog), "
    "5 of 7 such rows make the first of these calls WITHOUT one (last message = the user's; that call is unspecified and not judged) = 532 rows. "
    "(e) family TPL_SHAPES on the 2+2+1 configuration = predefined bot messages that are templates over a context variable: ($var, planted by a "
    "context message) / ({{ var }}, set by the rail flow before its refusal) / ({{ var | upper }}, context message) / ($var, flow), each x 16 subsets x "
    "every effective verdict vector with a reject in a selected category (the refusal is rendered; with output selected too) + for the context-message "
    "shapes every dialog-selected row without a reject on a route that utters a predefined dialog message (predef / pl / next_predef) = 1133 rows with variants. "
    "(f) SPARE BOT MESSAGE: every 2nd row of (a)-(e) whose selection has neither dialog nor output is also run with a bot message appended by the caller "
    "(last message, role assistant; every 4th after a warm-up call) = 141 rows. "
    "Sampled part: the same row space with Hypothesis-drawn rail "
    "counts (0-2, 0-2, 0-1), per-slot flow sharing, hostile user texts, bot texts, routes, partial-dict spelling, "
    "enable_rails_exceptions, result variable (shared 2/3, own 1/3), value returned by a rejecting rail action (False 1/3, None 1/3, "
    "0 and '' 1/6 each), 0-2 earlier calls (selection: any subset 1/2, the judged call's own = equal options 1/3, none 1/6; a call whose "
    "selection takes a bot message leaves it out 1/2) (+ the optional all-rails warm-up call), the way the calls are "
    "awaited (generate / run_until_complete(generate_async) per call / all in one task, 1/4 : 1/4 : 1/2) and the way the options are handed "
    "over (new dict per call 1/3, dict kept by the caller 1/6, new GenerationOptions object per call 1/6, one object kept by the caller 1/3), "
    "predefined messages (fixed 1/2, templates 1/2 with style $var / {{ var }} / {{ var | upper }} and variable from a context message / set by the rail flow drawn), "
    "spare bot message for selections without dialog and output (1/2). "
    "Non-trivial = subset != all four and (a reject or rewrite among the verdicts of a selected "
    "category, or a selected input/output category without any rail, or one flow that ran in two places); distinct by the whole case."
    " Enumerated first: (g) family PADS = texts with leading / trailing whitespace: 6 pads (two spaces in front; newline at the end; tab on both sides; newline in front + "
    "two spaces at the end; one space at the end; space in front + space-newline at the end) x 16 subsets x 4 rows on the 2+2+1 configuration: all accept with padded user text "
    "and bot message / first input + last output rail rewrite, their PRODUCT padded, texts padded with the next pad / the other two rails rewrite, product padded / a reject "
    "after an accepting rail with padded texts (rows with padded rewrite products use one result variable per rail, whose rail actions are this module's); spare bot message "
    "on every other eligible selection = 384 rows. Sampled part: texts of the judged call padded 1/3, rewrite products padded 1/3 of the configurations with the module's own "
    "rail actions (lead and trail drawn from '', ' ', '  ', tab, newline, space-newline)."
    " Enumerated also: texts that begin with a dollar sign (user text and supplied bot message in four spellings x every subset x all-accept / rewriting verdicts; 128 rows)."
)
ASSUMPTIONS = [
    "the supplied bot message is passed as a last message with role `assistant` (the code path tests/test_generation_options.py uses; the docs say `bot`)",
    "rails option values are booleans / category names only (per-rail name lists are documented as unsupported)",
    "a bot message is supplied (a) whenever dialog is unselected and output is selected and (b) as a SPARE one in part of the judged calls whose selection has "
    "neither dialog nor output (the caller reuses the message list of its input+output check; probed on the unchanged tree: the message is taken off the list, "
    "the input rails run on the user message, the reply is the user text / rewritten text / refusal exactly as without it - what the statement says for these "
    "selections); with dialog selected a trailing assistant message is never sent (unspecified). (a) holds in the judged call always; an EARLIER call of that "
    "selection may leave it out (last message = the user's). The statement and the docs say nothing about such a call (probed: its output rails "
    "run on an undefined $bot_message): it is never judged, whatever it returns; a case in which it raised is skipped like any earlier raise",
    "options may be passed as a dict or as a GenerationOptions object (signature of generate/generate_async, docs/user_guides/advanced/"
    "generation-options.md); the options a call runs under are the value of the object the caller passed at the time of the call, so a caller "
    "that keeps one dict/object and passes it to several calls selects the same categories in each of them (the harness never changes a kept "
    "object itself; calls share an object only if their options are equal as JSON values)",
    "with dialog selected the reply text itself is asserted only through markers (which text reached the reply), not character by character",
    "a flow listed in several places decides whether it checks $user_message or $bot_message by the documented context variable $triggered_output_rail (docs/user_guides/detailed_logging), as a user-written two-way rail would; the harness attributes its k-th run per direction and call to its k-th listed place in that category (routes with two LLM messages per call are not generated here)",
    "$triggered_output_rail keeps naming the output rail that blocked (that is its documented use) until output rails run again, also into the next call "
    "of the conversation: a judged call with input rails selected that follows a call in which an output rail blocked is skipped (counted) when the "
    "configuration has a flow listed in input AND output - the harness's flow could not tell its direction there",
    "listing one flow in several places is accepted by RailsConfig (probed: no validation error, every occurrence runs)",
    "a rail flow of the library shape `$x = execute a(...)` / `if not $x` / refuse / stop blocks whenever its action's result is falsy: "
    "False, None (an action without return value), 0 and the empty string are all generated as the 'not allowed' answer; "
    "`$x = execute a` assigns the action's return value whatever it is (docs/user_guides/colang-language-syntax-guide.md: a context variable is set 'as the return value from an action execution')",
    "several generate_async calls awaited one after the other inside one coroutine are independent calls: reply and log of a call describe "
    "that call only (the statement's 'the rails that actually ran'); only the last call of a case is judged, a case whose earlier call raised is skipped",
    "predefined bot messages may mention context variables ($name or Jinja {{ name }} / filters: docs/user_guides/colang-language-syntax-guide.md, 'bot messages "
    "with variables'); the variable is always defined when the message is uttered (planted by a `context` message in front of every call - the documented way to "
    "pass context - or assigned by the rail flow right before `bot refuse`), so the rendered text is determined; a rendered predefined message is a predefined "
    "message: 'the refusal' of the statement is its rendered text and output rails do not run on it (generation.py: 'We skip output rails for predefined messages'); "
    "with enable_rails_exceptions the refusal is an exception event (not templated); predefined DIALOG messages are templated only when the caller plants the variable",
    "user texts, supplied bot messages and the texts returned by rewriting rails are data: leading / trailing whitespace (spaces, tabs, newlines) belongs to them, and "
    "'the unchanged user text' / 'that message' / 'its rewritten form' of the statement is the text character by character (the comparison of these replies has always been exact; "
    "probed on the unchanged tree: all padded rows come back unchanged). Refusals are still compared after stripping; with dialog selected only markers are followed",
    "a call marked new_conversation sends only its own messages (another conversation served by the same LLMRails instance); the harness "
    "does not clear the instance's events cache between the calls of a case",
]
EXHAUSTIVE = True


def budget(tier):
    return 240 if tier == "quick" else 10000


EXT = "c16-same-flow"  # vf.pipeline extension (registered below): rail slots that list one shared flow


# what a rail's action hands back when it rejects: every one of these makes the rail's `if not $result` true
BLOCK_VALUES = {"false": False, "none": None, "zero": 0, "empty": ""}


def _cfg(n_out, exc=False, n_in=2, n_ret=1, flows=None, var=None, block=None, tpl=None):
    """flows = {"in": [label | None, ...], "out": [...]}: slots with the same label list the SAME rail flow `vf shared <label>`
    (None = the slot's own flow).  The key (and the pipeline extension) is present only if some slot has a label.
    var = "own": every rail flow keeps its action's result in a variable of its own (default: all rails of the configuration
    write the same variable, the library's `$allowed = execute ...` convention).  block = "none" | "zero" | "empty": the value a
    rejecting rail action returns (default: False).  Both keys are present only when they differ from the default.
    tpl = [style, via]: the predefined bot messages of the configuration are TEMPLATES that mention the context variable $vf_who
    (style "var": `$vf_who`, "jinja": `{{ vf_who }}`, "filter": `{{ vf_who | upper }}`); via "context": the caller plants the
    variable with a message of role `context` in front of every call (then the refusals of all rails AND the dialog rails' predefined
    messages are templates), via "flow": the rail flow sets it right before it utters its refusal (refusals only)."""
    cfg = {"v": 1, "in": ["both"] * n_in, "out": ["both"] * n_out, "ret": n_ret, "dialog": True, "exc": exc}
    flows = {cat: (list((flows or {}).get(cat) or []) + [None] * n)[:n] for cat, n in (("in", n_in), ("out", n_out))}
    if any(flows["in"]) or any(flows["out"]):
        cfg["ext"] = EXT
        cfg["flows"] = flows
    if var == "own":
        cfg["ext"] = EXT
        cfg["var"] = "own"
    if block in ("none", "zero", "empty"):
        cfg["ext"] = EXT
        cfg["block"] = block
    if tpl:
        cfg["ext"] = EXT
        cfg["tpl"] = list(tpl)
    return cfg


TPL_WHO = "Ann"
TPL_STYLES = {"var": "$vf_who", "jinja": "{{ vf_who }}", "filter": "{{ vf_who | upper }}"}
TPL_RENDERED = {"var": TPL_WHO, "jinja": TPL_WHO, "filter": TPL_WHO.upper()}
TPL_SET = '$vf_who = "%s"' % TPL_WHO


def _tpl_text(cfg, fixed, rendered=False):
    """A predefined bot message of the configuration: the fixed text, or (cfg["tpl"]) a template that mentions $vf_who / what it renders to."""
    if not cfg.get("tpl"):
        return fixed
    style = cfg["tpl"][0]
    return f"Sorry {(TPL_RENDERED if rendered else TPL_STYLES)[style]}, {fixed}"


def _tpl_context(cfg):
    """The `context` message the caller puts in front of every call (tpl via context), or None."""
    if cfg.get("tpl") and cfg["tpl"][1] == "context":
        return {"role": "context", "content": {"vf_who": TPL_WHO}}
    return None


def _own_rails(cfg):
    """True if the configuration's rails are generated by this module's extension (own result variables / block value)."""
    return cfg.get("var") == "own" or cfg.get("block") is not None


def _block_value(cfg):
    return BLOCK_VALUES[cfg.get("block") or "false"]


def _result_var(cfg, kind, own):
    """Variable in which a rail flow keeps its action's result: the shared name of its shape, or `own` for this flow only."""
    if cfg.get("var") == "own":
        return f"$vf_result_{own}"
    return "$allowed" if kind == "check" else "$vf_checked"


def _action_name(cat, i):
    return f"vf_c16_{cat}_r{i}"


def _label(cfg, cat, i):
    fl = (cfg.get("flows") or {}).get(cat) or []
    return fl[i] if i < len(fl) else None


def _shared_labels(cfg):
    return sorted({lab for cat in ("in", "out") for lab in (cfg.get("flows") or {}).get(cat, []) if lab})


def _places(cfg, label, cat):
    """Slots of category `cat` that list the shared flow `label`, in configured order."""
    return [i for i in range(len(cfg.get(cat, []))) if _label(cfg, cat, i) == label]


def flow_name(cfg, cat, i):
    """Name under which slot i of the category is listed in config.yml (and must appear in the log)."""
    lab = _label(cfg, cat, i)
    return f"vf shared {lab}" if lab else pipeline.rail_flow_name(cat, i, cfg[cat][i])


def _refusal_slot(cfg, cat, i):
    """A shared flow utters, per direction, the refusal of its first place in that category."""
    lab = _label(cfg, cat, i)
    return _places(cfg, lab, cat)[0] if lab else i


def _shared_branch(cfg, lab, cat):
    first = _places(cfg, lab, cat)[0]
    kind = cfg[cat][first]
    var = "$user_message" if cat == "in" else "$bot_message"
    exc = "InputRailException" if cat == "in" else "OutputRailException"
    res = _result_var(cfg, kind, f"{lab}_{cat}")
    lines = [
        f'{res} = execute vf_shared_{lab}(direction="{cat}", text={var})',
        f"if not {res}",
        "  if $config.enable_rails_exceptions",
        f'    create event {exc}(message="{fakes.block_message(cat, first, kind)}")',
        "  else",
        f"    bot vf refuse {cat} r{first}",  # defined by the generated configuration for every slot
        "  stop",
    ]
    if cfg.get("tpl") and cfg["tpl"][1] == "flow":
        lines.insert(5, "    " + TPL_SET)
    if kind != "check":
        lines.append(f"{var} = {res}")
    return lines


def _ext_build_config(cfg, colang, yaml_text):
    import yaml

    if _own_rails(cfg):
        # the slots' own rail flows: same shape as the shared harness generates, but the action is this module's (it
        # returns the configured block value) and, with var = "own", the result variable belongs to the flow
        for cat in ("in", "out"):
            for i, kind in enumerate(cfg.get(cat, [])):
                text = pipeline._v1_rail(cat, i, kind)
                call = f"execute {pipeline.rail_action_name(cat, i, 1)}("
                if colang.count(text) != 1 or text.count(call) != 1:
                    raise RuntimeError("vf.props.c16: the generated rail flow is not where the extension expects it")
                mine = text.replace(call, f"execute {_action_name(cat, i)}(").replace(_result_var({}, kind, None), _result_var(cfg, kind, f"{cat}{i}"))
                colang = colang.replace(text, mine)
    if cfg.get("tpl"):
        # the predefined messages become templates (after the rewriting above: the refusal definitions are still as generated)
        for cat in ("in", "out"):
            for i, kind in enumerate(cfg.get(cat, [])):
                fixed = refusal_text(cat, i, kind)
                old = f'define bot vf refuse {cat} r{i}\n  "{fixed}"\n'
                if colang.count(old) != 1:
                    raise RuntimeError("vf.props.c16: the refusal message is not where the extension expects it")
                colang = colang.replace(old, f'define bot vf refuse {cat} r{i}\n  "{_tpl_text(cfg, fixed)}"\n')
                if cfg["tpl"][1] == "flow":
                    colang = colang.replace(f"      bot vf refuse {cat} r{i}\n", f"      {TPL_SET}\n      bot vf refuse {cat} r{i}\n")
        if cfg["tpl"][1] == "context":
            for key in ("greet", "help"):
                old = f'"{PREDEF[key]}"'
                if colang.count(old) != 1:
                    raise RuntimeError("vf.props.c16: the predefined dialog message is not where the extension expects it")
                colang = colang.replace(old, f'"{_tpl_text(cfg, PREDEF[key])}"')
    co = [colang]
    for lab in _shared_labels(cfg):
        dirs = [cat for cat in ("in", "out") if _places(cfg, lab, cat)]
        body = [f"define subflow vf shared {lab}"]
        if dirs == ["in", "out"]:
            # the way a user-written two-way rail finds out what it is checking (see the detailed-logging guide)
            body += ["  if $triggered_output_rail"] + ["    " + ln for ln in _shared_branch(cfg, lab, "out")]
            body += ["  else"] + ["    " + ln for ln in _shared_branch(cfg, lab, "in")]
        else:
            body += ["  " + ln for ln in _shared_branch(cfg, lab, dirs[0])]
        co.append("\n".join(body) + "\n")
    y = yaml.safe_load(yaml_text)
    for cat, word in (("in", "input"), ("out", "output")):
        if cfg.get(cat):
            y["rails"][word] = {"flows": [flow_name(cfg, cat, i) for i in range(len(cfg[cat]))]}
    return "\n".join(co), yaml.safe_dump(y, sort_keys=False)


def _make_shared_action(cfg, lab):
    name = f"vf_shared_{lab}"

    async def shared_action(direction=None, text=None, context=None):
        session, turn = fakes.current()
        cat = "out" if direction == "out" else "in"
        places = _places(cfg, lab, cat)
        # the k-th run of the flow in this direction during this call is its k-th listed place (chains run in order, once per text)
        k = sum(1 for e in session.trace if e["turn"] == turn and e.get("flow") == lab and e["cat"] == cat)
        idx = places[min(k, len(places) - 1)]
        entry = {"rail": f"{cat}{idx}", "cat": cat, "idx": idx, "text": text, "via": "action", "flow": lab}
        if context is not None:
            entry["ctx"] = context.get("user_message" if cat == "in" else "bot_message")
        fakes._enter(name, entry)
        kind = session.rail_kind(cat, idx)
        verdict = fakes.eff(kind, session.rail_verdict(cat, idx, turn, text))
        entry["verdict"] = verdict
        if verdict == "reject":
            return _block_value(cfg)
        if kind == "check":
            return True
        if verdict == "rewrite":
            return _pad(session.rewritten(cat, idx, turn, text), session.turns[turn].get("rw_pad"))
        return text

    shared_action.__name__ = name
    return fakes._system(shared_action, name)


def _make_rail_action(cfg, cat, idx):
    """vf.fakes.make_rail_action with the configured block value: a rejecting rail returns False, None (no return value), 0 or ""."""
    name = _action_name(cat, idx)

    async def rail_action(text=None, context=None):
        entry = {"rail": f"{cat}{idx}", "cat": cat, "idx": idx, "text": text, "via": "action"}
        if context is not None:
            entry["ctx"] = context.get("user_message" if cat == "in" else "bot_message")
        session, turn = fakes._enter(name, entry)
        kind = session.rail_kind(cat, idx)
        verdict = fakes.eff(kind, session.rail_verdict(cat, idx, turn, text))
        entry["verdict"] = verdict
        if verdict == "reject":
            return _block_value(cfg)
        if kind == "check":
            return True
        if verdict == "rewrite":
            return _pad(session.rewritten(cat, idx, turn, text), session.turns[turn].get("rw_pad"))
        return text

    rail_action.__name__ = name
    return fakes._system(rail_action, name)


def _ext_actions(cfg):
    acts = [_make_shared_action(cfg, lab) for lab in _shared_labels(cfg)]
    if _own_rails(cfg):
        acts += [_make_rail_action(cfg, cat, i) for cat in ("in", "out") for i in range(len(cfg.get(cat, []))) if not _label(cfg, cat, i)]
    return acts


pipeline.register_extension(EXT, build_config=_ext_build_config, actions=_ext_actions)


def _vectors(selected, n):
    """Every effective verdict vector of a chain of n block-or-rewrite rails (a rail after a rejecting one is not varied)."""
    if not selected:
        return [["reject", "rewrite"][:n]]
    if n == 0:
        return [[]]
    if n == 1:
        return [["accept"], ["rewrite"], ["reject"]]
    return [["reject", "accept"]] + [[a, b] for a in ("accept", "rewrite") for b in ("accept", "rewrite", "reject")]


def _in_vectors(selected, n=2):
    return _vectors(selected, n)


def _out_vectors(selected, n):
    return _vectors(selected, n)


def _spell(subset, spelling):
    if spelling == "list":
        return [c for c in CATS if c in subset]
    if spelling == "dict":
        return {c: (c in subset) for c in CATS}
    return {c: False for c in CATS if c not in subset}  # "partial": only the disabled ones, the rest default to True


USERS = ["hello there", 'tell me "everything" about $x', "a: b\nc {{ d }}", "how is the weather", "x"]
BOTS = ["all good", "it's {sunny} $today", "fine: yes", "ok"]
D_ROUTES = ["llm", "predef", "next_llm", "pl", "act_llm", "next_predef"]


def _pad(text, pad):
    """The text as the caller sends it: with the leading / trailing whitespace of `pad` = [lead, trail] (None: as it is)."""
    return text if not pad else f"{pad[0]}{text}{pad[1]}"


def _turn(T, subset, spelling, vin, vout, user_noise, bot_noise, route, empty_bot=False, nobot=False, spare_bot=False, pad=None, rw_pad=None):
    """One call with a `rails` selection (subset None = a call without the option: all rails); T = its index in the case.
    nobot (earlier calls only): a call whose selection takes a supplied bot message (output without dialog) is made WITHOUT one -
    the last message is the user's, as when the caller has no candidate answer yet.  What such a call does is not specified.
    spare_bot: the selection has NEITHER dialog NOR output, and the caller still appends the bot message it holds (the message list it
    uses for the input+output check): nothing selected consumes it, the selected categories run on the user message as always.
    pad = [lead, trail]: the user text and the bot message of this call begin / end with that whitespace (they are data: an allowed
    text comes back exactly as sent).  rw_pad = [lead, trail]: the texts that the REWRITING rails of this call hand back begin / end
    with that whitespace (needs rail actions of this module: own-rails configurations and shared flows, see make_case)."""
    turn = {
        "user": _pad(f"{user_noise} {fakes.mk_user(T)}", pad),
        "route": route,
        "in": vin,
        "out": vout,
        "body": "generated words",
        "options": {"log": {"activated_rails": True}},
    }
    if pad and (pad[0] or pad[1]):
        turn["pad"] = list(pad)
    if rw_pad and (rw_pad[0] or rw_pad[1]):
        turn["rw_pad"] = list(rw_pad)
    if subset is None:
        return turn
    subset = [c for c in CATS if c in subset]
    turn["options"]["rails"] = _spell(subset, spelling)
    if "dialog" not in subset and "output" in subset and nobot:
        turn["unspecified"] = "output selected without dialog, no bot message supplied"
    elif "dialog" not in subset and "output" in subset:
        turn["bot"] = _pad(f"{fakes.mk_llm(T, SUPPLIED_K)} {bot_noise}", pad)
        if empty_bot:
            # the supplied bot message is the empty string: still a bot message, the selected output rails run on it
            turn["bot"] = ""
            turn["out_any_text"] = True  # the fake rails judge this marker-less text too
            turn["out"] = ["accept" if v == "rewrite" else v for v in vout]
    elif "dialog" not in subset and "output" not in subset and spare_bot:
        turn["bot"] = _pad(f"{fakes.mk_llm(T, SUPPLIED_K)} {bot_noise}", pad)
        turn["spare_bot"] = True
    return turn


def make_case(subset, spelling, n_out, vin, vout, user_noise, bot_noise, route, exc=False, warm=False, empty_bot=False, n_in=2, n_ret=1, flows=None,
              var=None, block=None, pre=None, new=False, api="sync", options_as="dict", tpl=None, spare_bot=False, pad=None, rw_pad=None):
    """pre = calls made on the same LLMRails instance before the judged one: [{"subset": [...] | None (all rails, no option)
    | "same" (selection and spelling of the judged call: the two calls pass EQUAL options), "spelling", "in", "out", "route",
    "user", "bot", "new": bool, "nobot": bool (see _turn)}, ...]; "new" on a call (parameter `new` for the judged one)
    = the call starts another conversation (its message list does not carry the earlier calls).
    options_as = how the caller hands the options of every call to generate: "dict" (a new dict per call), "object" (a new
    GenerationOptions object per call), "dict-reused" / "object-reused" (the caller keeps ONE dict / GenerationOptions object per
    distinct options value and passes that same object to every call of the case with these options).
    api = "sync" / "async": every call is its own `generate` / `run_until_complete(generate_async)`;
    "task": all calls of the case are awaited one after the other in ONE coroutine (one asyncio task, one contextvars context).
    pad / rw_pad = [lead, trail] (judged call, see _turn): whitespace around the user text and the bot message / around the texts the
    rewriting rails hand back.  The padded rewrite is produced by this module's rail actions: a configuration whose slots all have the
    shared harness's rails gets one result variable per rail (var = "own") so that the module's actions are the ones in place."""
    subset = [c for c in CATS if c in subset]
    if rw_pad and (rw_pad[0] or rw_pad[1]) and var is None and block is None:
        var = "own"
    pre = list(pre or [])
    T = len(pre) + (1 if warm else 0)
    turn = _turn(T, subset, spelling, vin, vout, user_noise, bot_noise, route, empty_bot, spare_bot=spare_bot, pad=pad, rw_pad=rw_pad)
    turns = []
    if warm:
        # a first call of the same conversation with ALL rails (no `rails` option): the judged call then resends its messages,
        # so whatever the instance remembers about that prefix (events cache) must not override the options of this call
        turns = [{"user": f"hello there {fakes.mk_user(0)}", "route": "llm", "in": ["accept"] * n_in, "out": ["accept"] * n_out, "body": "first words",
                  "options": {"log": {"activated_rails": True}}}]
    for pc in pre:
        t = len(turns)
        same = pc["subset"] == "same"
        ptn = _turn(t, subset if same else pc["subset"], spelling if same else pc.get("spelling", "list"), pc["in"], pc["out"], pc.get("user", "hello there"),
                    pc.get("bot", "all good"), pc.get("route", "llm"), nobot=bool(pc.get("nobot")))
        if pc.get("new") and t:
            ptn["new_conversation"] = True
        turns.append(ptn)
    if new and turns:
        turn["new_conversation"] = True
    turns.append(turn)
    cfg = _cfg(n_out, exc, n_in, n_ret, flows, var, block, tpl)
    if turn.get("bot") == "":
        # rails of kind "both" hand back the (possibly rewritten) text and refuse on a falsy result - the harness's own rail flows
        # could not tell an accepted empty message from a rejection; the empty-message cases use plain checking rails
        cfg["out"] = ["check"] * n_out
    case = {"config": cfg, "turns": turns, "subset": subset, "spelling": spelling, "api": api}
    if options_as != "dict":
        case["options_as"] = options_as  # (the key is present only when it differs from the default)
    return case


# (n_in, n_out, n_ret, flows): the rail-count family (every pair of counts that the main table does not have, so that a
# selected category can be empty) and the same-flow family (a, b = one rail flow listed in several places)
SHAPES = [
    (0, 0, 0, None),
    (0, 0, 1, None),
    (0, 1, 1, None),
    (0, 2, 0, None),
    (1, 0, 0, None),
    (2, 0, 1, None),
    (1, 1, 1, None),
    (1, 2, 0, None),
    (1, 1, 1, {"in": ["a"], "out": ["a"]}),
    (1, 2, 0, {"in": ["a"], "out": [None, "a"]}),
    (2, 1, 1, {"in": [None, "a"], "out": ["a"]}),
    (2, 2, 1, {"in": ["a", "b"], "out": ["b", "a"]}),
    (2, 0, 0, {"in": ["a", "a"]}),
    (2, 1, 0, {"in": ["a", "a"], "out": [None]}),
    (0, 2, 1, {"out": ["a", "a"]}),
    (1, 2, 1, {"in": [None], "out": ["a", "a"]}),
    (2, 2, 0, {"in": ["a", "a"], "out": ["a", "a"]}),
]


# (var, block): how the rails keep and signal their verdict (see _cfg); (None, None) = shared variable + False is every other table
RESULT_SHAPES = [(None, "none"), (None, "zero"), (None, "empty"), ("own", None), ("own", "none")]


# (style, via): predefined bot messages as templates over the context variable $vf_who (see _cfg)
TPL_SHAPES = [("var", "context"), ("jinja", "flow"), ("filter", "context"), ("var", "flow")]


def _pre_calls(n, n_in, n_out):
    """One or two earlier calls for table row n, each with a selection of its own (None = no `rails` option: all rails),
    its own verdict vectors, route and texts, continuing the conversation or starting another one - all derived from n."""
    pre = []
    for j in range(1 + (n // 6) % 2):
        m = n // 6 + 7 * j + 3
        vi, vo = _vectors(True, n_in), _vectors(True, n_out)
        pre.append({
            "subset": None if m % 5 == 0 else [c for b, c in enumerate(CATS) if (m >> b) & 1],
            "spelling": ("list", "dict")[m % 2],
            "in": vi[m % len(vi)],
            "out": vo[(m // 2) % len(vo)],
            "route": D_ROUTES[m % len(D_ROUTES)],
            "user": USERS[m % len(USERS)],
            "bot": BOTS[m % len(BOTS)],
            "new": bool((m // 3) % 2),
        })
    return pre


OPTION_FORMS = ["object-reused", "object", "dict-reused"]


def _same_options_calls(n, n_in, n_out, takes_bot):
    """One or two earlier calls for table row n that pass the SAME options as the judged call (own verdicts, route, texts - all
    derived from n).  If the selection takes a supplied bot message, five of seven such rows make the first of these calls without
    one (the caller has no candidate answer yet: not a specified call, only what it leaves behind matters)."""
    pre = []
    k = n // 6
    for j in range(2 if k % 5 in (1, 3) else 1):
        m = k + 5 * j + 1
        vi, vo = _vectors(True, n_in), _vectors(True, n_out)
        pre.append({
            "subset": "same",
            "in": vi[m % len(vi)],
            "out": vo[(m // 2) % len(vo)],
            "route": D_ROUTES[m % len(D_ROUTES)],
            "user": USERS[m % len(USERS)],
            "bot": BOTS[m % len(BOTS)],
            "new": bool((m // 2) % 2),
            "nobot": takes_bot and j == 0 and k % 7 < 5,
        })
    return pre


PREDEF_ROUTES = ["predef", "pl", "next_predef"]


def _rows(subset, spelling, n_in, n_out, n_ret, flows, n, var=None, block=None, only_reject=False, tpl=None):
    """The cases of one table row (n = running row number: picks texts/route and the extra variants)."""
    kw = dict(n_in=n_in, n_ret=n_ret, flows=flows, var=var, block=block, tpl=tpl)
    for vin in _in_vectors("input" in subset, n_in):
        for vout in _out_vectors("output" in subset, n_out):
            n += 1
            route = D_ROUTES[n % len(D_ROUTES)]
            if only_reject and not (("input" in subset and "reject" in vin) or ("output" in subset and "reject" in vout)):
                # (the family varies how a rejection is signalled / what a predefined message looks like: rows without a rejection
                # are the main table's - except, in the template family, the rows in which the dialog rails utter a predefined message)
                if not (tpl and tpl[1] == "context" and "dialog" in subset):
                    continue
                route = PREDEF_ROUTES[n % len(PREDEF_ROUTES)]
            if "dialog" not in subset and "output" not in subset and n % 2 == 0:
                # neither dialog nor output selected, and the caller still appends the bot message it holds
                yield make_case(subset, spelling, n_out, vin, vout, USERS[n % len(USERS)], BOTS[n % len(BOTS)], route, spare_bot=True, warm=(n % 4 == 0), **kw)
            if route != D_ROUTES[n % len(D_ROUTES)]:
                yield make_case(subset, spelling, n_out, vin, vout, USERS[n % len(USERS)], BOTS[n % len(BOTS)], route, **kw)
                continue
            yield make_case(subset, spelling, n_out, vin, vout, USERS[n % len(USERS)], BOTS[n % len(BOTS)], D_ROUTES[n % len(D_ROUTES)], **kw)
            if n % 4 == 0:
                yield make_case(subset, spelling, n_out, vin, vout, USERS[n % len(USERS)], BOTS[n % len(BOTS)], D_ROUTES[n % len(D_ROUTES)], warm=True, **kw)
            if "dialog" not in subset and "output" in subset and "rewrite" not in vout and n % 3 == 0:
                yield make_case(subset, spelling, n_out, vin, vout, USERS[n % len(USERS)], "", D_ROUTES[0], empty_bot=True, **kw)
            if n % 6 == 1:
                # the same row as the last of two or three calls that ONE coroutine awaits one after the other
                yield make_case(subset, spelling, n_out, vin, vout, USERS[n % len(USERS)], BOTS[n % len(BOTS)], D_ROUTES[n % len(D_ROUTES)],
                                pre=_pre_calls(n, n_in, n_out), new=bool((n // 12) % 2), api="task", **kw)
            if n % 6 == 4:
                # the same row as the last of two or three calls with EQUAL options, handed over as GenerationOptions objects / one
                # object or dict that the caller keeps and passes to each of these calls
                takes_bot = "dialog" not in subset and "output" in subset
                yield make_case(subset, spelling, n_out, vin, vout, USERS[n % len(USERS)], BOTS[n % len(BOTS)], D_ROUTES[n % len(D_ROUTES)],
                                pre=_same_options_calls(n, n_in, n_out, takes_bot), new=bool((n // 6) % 11 % 2), api=("sync", "task", "async")[(n // 24) % 3],
                                options_as=OPTION_FORMS[(n // 6) % 4 % 3], **kw)  # (moduli 4, 3, 5, 7, 11: the dimensions are crossed)


# [lead, trail]: whitespace around a user text / a supplied bot message / a rewrite product (spaces, tabs, newlines; leading, trailing, both)
PADS = [["  ", ""], ["", "\n"], ["\t", "\t"], ["\n", "  "], ["", " "], [" ", " \n"]]


def _whitespace_rows():
    """Texts that begin / end with whitespace: every subset x every pad x (all accept, texts padded / a rewrite in each selected chain,
    product padded, texts padded otherwise / the other rewriting rails, product padded, texts as they are / a reject after an accepting
    rail, texts padded).  Rows whose rails rewrite run on the own-variable configuration (the module's rail actions pad the product)."""
    n = 0
    for k, pad in enumerate(PADS):
        other = PADS[(k + 1) % len(PADS)]
        for r in range(5):
            for subset in itertools.combinations(CATS, r):
                n += 1
                spelling = ("list", "dict")[n % 2]
                kw = dict(spare_bot=("dialog" not in subset and "output" not in subset and n % 2 == 1))
                user, bot, route = USERS[n % len(USERS)], BOTS[n % len(BOTS)], D_ROUTES[n % len(D_ROUTES)]
                yield make_case(subset, spelling, 2, ["accept", "accept"], ["accept", "accept"], user, bot, route, pad=pad, warm=(n % 8 == 0), **kw)
                yield make_case(subset, spelling, 2, ["rewrite", "accept"], ["accept", "rewrite"], user, bot, route, pad=other, rw_pad=pad, **kw)
                yield make_case(subset, spelling, 2, ["accept", "rewrite"], ["rewrite", "accept"], user, bot, route, rw_pad=pad, **kw)
                yield make_case(subset, spelling, 2, ["accept", "reject"], ["accept", "reject"], user, bot, route, pad=pad, **kw)


def enumerate_cases(tier):
    # (first: a newer family is not cut when the shard's wall budget ends the table early on a loaded machine)
    for case in _whitespace_rows():
        yield case
    n = 0
    for r in range(5):
        for subset in itertools.combinations(CATS, r):
            for spelling in ("list", "dict"):
                for n_out in (1, 2):
                    for case in _rows(subset, spelling, 2, n_out, 1, None, n):
                        yield case
                    n += len(_in_vectors("input" in subset, 2)) * len(_out_vectors("output" in subset, n_out))
    # rail counts and same-flow configurations: grouped by configuration (instances are cached per worker)
    for s, (n_in, n_out, n_ret, flows) in enumerate(SHAPES):
        for r in range(5):
            for subset in itertools.combinations(CATS, r):
                for case in _rows(subset, ("list", "dict")[(n + s) % 2], n_in, n_out, n_ret, flows, n):
                    yield case
                n += len(_in_vectors("input" in subset, n_in)) * len(_out_vectors("output" in subset, n_out))
    # how a rejection is signalled: result variable shared by all rails / own per rail x value returned by the rejecting action
    for s, (var, block) in enumerate(RESULT_SHAPES):
        for r in range(5):
            for subset in itertools.combinations(CATS, r):
                for case in _rows(subset, ("list", "dict")[(n + s) % 2], 2, 2, 1, None, n, var=var, block=block, only_reject=True):
                    yield case
                n += len(_in_vectors("input" in subset, 2)) * len(_out_vectors("output" in subset, 2))
    # predefined bot messages that are templates over a context variable (refusals of the rails, predefined dialog messages)
    for s, tpl in enumerate(TPL_SHAPES):
        for r in range(5):
            for subset in itertools.combinations(CATS, r):
                for case in _rows(subset, ("list", "dict")[(n + s) % 2], 2, 2, 1, None, n, tpl=tpl, only_reject=True):
                    yield case
                n += len(_in_vectors("input" in subset, 2)) * len(_out_vectors("output" in subset, 2))
    # texts that BEGIN with a dollar sign (a user text, a supplied bot message): they are data, not variable references - every
    # subset x (all accept / a rewrite in the first selected category) on the 2+2+1 configuration, four spellings of the text
    for k, (user, bot) in enumerate([("$price is 5", "$total is 9"), ("$user_message", "$bot_message"), ("$", "$ 5"), ("$undefined_name now", "${x}")]):
        for r in range(5):
            for subset in itertools.combinations(CATS, r):
                for vin, vout in ((["accept", "accept"], ["accept", "accept"]), (["rewrite", "accept"], ["accept", "rewrite"])):
                    yield make_case(list(subset), ("list", "dict")[(k + r) % 2], 2, vin, vout, user, bot, D_ROUTES[(k + r) % len(D_ROUTES)])


def _pre_subset(draw):
    """Selection of an earlier call: none (all rails) 1/6, the judged call's own (equal options) 1/3, any subset 1/2."""
    kind = draw(st.sampled_from(["all", "same", "same", "drawn", "drawn", "drawn"]))
    if kind == "drawn":
        return [c for c in CATS if draw(st.booleans())]
    return None if kind == "all" else "same"


@st.composite
def _case(draw):
    subset = [c for c in CATS if draw(st.booleans())]
    spelling = draw(st.sampled_from(["list", "dict", "partial"]))
    # number of rails per category (0 = the category is configured empty) and, per slot, the flow it lists: its own
    # or one of two shared flows - a label drawn for several slots puts ONE flow in several places
    n_in = draw(st.sampled_from([0, 1, 2, 2]))
    n_out = draw(st.sampled_from([0, 1, 1, 2, 2]))
    n_ret = draw(st.sampled_from([0, 1, 1]))
    flows = None
    if draw(st.booleans()):
        slot = st.sampled_from([None, None, "a", "a", "b"])
        flows = {"in": [draw(slot) for _ in range(n_in)], "out": [draw(slot) for _ in range(n_out)]}
    vin = [draw(pipeline.st_verdict("both")) for _ in range(n_in)]
    vout = [draw(pipeline.st_verdict("both")) for _ in range(n_out)]
    noise = st.one_of(st.text(pipeline.HOSTILE, min_size=1, max_size=14), st.sampled_from(pipeline.INTENT_EXAMPLES))
    bot = st.text(pipeline.TAME + "${}:\"", min_size=1, max_size=14)
    case_kw = dict(exc=draw(st.sampled_from([False, False, False, True])), warm=draw(st.booleans()), empty_bot=draw(st.integers(0, 5)) == 0)
    # how the rails keep / signal their verdict, the calls made before the judged one and how the calls are awaited
    var = draw(st.sampled_from([None, None, "own"]))
    block = draw(st.sampled_from([None, None, "none", "none", "zero", "empty"]))
    pre = []
    for _ in range(draw(st.sampled_from([0, 0, 1, 1, 2]))):
        pre.append({
            "subset": _pre_subset(draw),
            "spelling": draw(st.sampled_from(["list", "dict", "partial"])),
            "in": [draw(pipeline.st_verdict("both")) for _ in range(n_in)],
            "out": [draw(pipeline.st_verdict("both")) for _ in range(n_out)],
            "route": draw(st.sampled_from(D_ROUTES)),
            "user": draw(noise),
            "bot": draw(bot),
            "new": draw(st.booleans()),
            "nobot": draw(st.booleans()),
        })
    api = draw(st.sampled_from(["sync", "async", "task", "task"]))
    options_as = draw(st.sampled_from(["dict", "dict", "dict-reused", "object", "object-reused", "object-reused"]))
    # predefined messages: fixed texts 1/2, templates over a context variable 1/2 (style and origin of the variable drawn);
    # a selection without dialog and output comes with a spare bot message 1/2
    if draw(st.booleans()):
        case_kw["tpl"] = (draw(st.sampled_from(sorted(TPL_STYLES))), draw(st.sampled_from(["context", "flow"])))
    case_kw["spare_bot"] = draw(st.booleans())
    # whitespace around the texts of the judged call 1/3; around the rewrite products 1/3 of the configurations with the module's own rail actions
    ws = st.sampled_from(["", "", " ", "  ", "\t", "\n", " \n"])
    if draw(st.integers(0, 2)) == 1:
        case_kw["pad"] = [draw(ws), draw(ws)]
    if (var == "own" or block is not None) and draw(st.integers(0, 2)) == 1:
        case_kw["rw_pad"] = [draw(ws), draw(ws)]
    return make_case(subset, spelling, n_out, vin, vout, draw(noise), draw(bot), draw(st.sampled_from(D_ROUTES)), n_in=n_in, n_ret=n_ret, flows=flows,
                     var=var, block=block, pre=pre, new=draw(st.booleans()), api=api, options_as=options_as, **case_kw)


def strategy(tier):
    return _case()


# ------------------------------------------------------------------------------------------------


def _check(case, obs):
    cfg = case["config"]
    T = len(case["turns"]) - 1  # the judged call (the one before it, if any, is a warm-up call with all rails)
    spec = case["turns"][T]
    o = obs.turns[T]
    for t in range(T):
        if obs.turns[t]["raised"]:
            return ok(skip="earlier call raised: " + str(obs.turns[t]["raised"])[:80], labels=["warm-up-raised"])
    sel = set(case["subset"])
    I, D, R, O = ("input" in sel), ("dialog" in sel), ("retrieval" in sel), ("output" in sel)
    if I and T and any(_places(cfg, lab, "in") and _places(cfg, lab, "out") for lab in _shared_labels(cfg)):
        # $triggered_output_rail names the output rail that blocked (docs/user_guides/detailed_logging) and keeps that value in the
        # conversation's context until output rails run again: in a call made after such a block, the harness's two-way flow cannot
        # tell from it that it is now running as an INPUT rail - the harness could not attribute its runs, so the row is not judged
        blocked = any(e["cat"] == "out" and e.get("verdict") == "reject" for t in range(T) for e in obs.turns[t]["trace"]) or any(
            r["type"] == "output" and r["stop"] for t in range(T) for r in (obs.turns[t]["log"] or []))
        if blocked:
            return ok(skip="two-way rail flow after a call in which an output rail blocked ($triggered_output_rail still names it)", labels=["two-way-flow-after-an-output-block"])
    what = f"rails={spec['options']['rails']!r} in={spec['in']} out={spec['out']}" + (f" route={spec['route']}" if D else "") + ((" +bot message" if spec["bot"] else " +EMPTY bot message") if spec.get("bot") is not None else "")
    if o["raised"]:
        if pipeline.EVENT_BUDGET in o["raised"]:
            return ok(skip="v1 runtime gave up: more than 100 new events in one turn", labels=["event-budget-exceeded"])
        if not D:
            # rails-only checking: the statement fixes the reply completely, so "no reply" is a failure of the property
            raise Violation("generate-raised", f"{what}: generate raised {o['raised'][:200]} instead of returning the specified reply")
        raise RuntimeError(f"generate raised: {o['raised']} ({what})")
    labels = ["subset=" + ("+".join(c[0] for c in case["subset"]) or "none"), "spelling=" + case["spelling"], f"in-rails={len(cfg['in'])}", f"out-rails={len(cfg['out'])}", f"ret-rails={cfg['ret']}"]
    for word, on, cat in (("input", I, "in"), ("output", O, "out")):
        if on and not cfg[cat]:
            labels.append(f"{word}-selected-but-no-{word}-rail-configured")
    for lab in _shared_labels(cfg):
        ni, no = len(_places(cfg, lab, "in")), len(_places(cfg, lab, "out"))
        if ni and no:
            labels.append("config:same-flow-in-input-and-output")
        if ni > 1 or no > 1:
            labels.append("config:same-flow-twice-in-" + ("input" if ni > 1 else "output"))
    earlier = case["turns"][:T]
    if any("rails" not in (tn.get("options") or {}) for tn in earlier):
        labels.append("after-a-call-with-all-rails")
    if any("rails" in (tn.get("options") or {}) for tn in earlier):
        labels.append("after-a-call-with-another-selection")
    labels.append(f"calls-before={T}")
    if T:
        labels.append("calls-awaited:" + ("in-one-task" if case.get("api") == "task" else "each-in-its-own-task"))
        ran_before = any(e["cat"] in ("in", "out") for t in range(T) for e in obs.turns[t]["trace"])
        if case.get("api") == "task" and ran_before:
            labels.append("in-one-task-after-a-call-whose-input/output-rails-ran")
        if any(tn.get("new_conversation") for tn in case["turns"][1:]):
            labels.append("calls-of-several-conversations")
    form = case.get("options_as") or "dict"
    labels.append("options-passed-as=" + {"dict": "new-dict-per-call", "object": "new-GenerationOptions-object-per-call", "dict-reused": "dict-kept-by-the-caller",
                                           "object-reused": "GenerationOptions-object-kept-by-the-caller"}[form])
    equal = [tn for tn in earlier if _options_key(tn) == _options_key(spec)]
    if equal:
        labels.append("after-a-call-with-equal-options")
        if form.endswith("-reused"):
            labels.append(f"options-{form.split('-')[0]}-already-used-by-an-earlier-call")
    unspecified = [tn for tn in earlier if tn.get("unspecified")]
    if unspecified:
        labels.append("after-a-call-without-bot-message(output-without-dialog:unspecified,not-judged)")
        if form.endswith("-reused") and any(tn in unspecified for tn in equal):
            labels.append(f"options-{form.split('-')[0]}-already-used-by-a-call-without-bot-message")
    labels.append("rail-result-variable=" + ("own" if cfg.get("var") == "own" else "shared"))
    labels.append("reject-returns=" + {"false": "False", "none": "None", "zero": "0", "empty": "empty-string"}[cfg.get("block") or "false"])
    if cfg["exc"]:
        labels.append("rails-exceptions")
    if cfg.get("tpl"):
        labels.append(f"predefined-messages=templates:{cfg['tpl'][0]},variable-set-by-{cfg['tpl'][1]}")
    else:
        labels.append("predefined-messages=fixed-texts")
    if spec.get("spare_bot"):
        labels.append("bot-message-supplied-although-neither-dialog-nor-output-selected")
    for key, word in (("pad", "texts"), ("rw_pad", "rewrite-products")):
        if spec.get(key):
            lead, trail = spec[key]
            labels.append(f"{word}-with-whitespace:" + ("leading+trailing" if lead and trail else "leading" if lead else "trailing"))
            if "\n" in lead + trail or "\t" in lead + trail:
                labels.append(f"{word}-with-whitespace:newline/tab")
    text = pipeline.reply_text(o)
    excs = pipeline.reply_exceptions(o)
    trace = o["trace"]

    # 1. unselected categories never run
    for cat, on, name in (("in", I, "input"), ("out", O, "output"), ("ret", R, "retrieval")):
        ran = [e["rail"] for e in trace if e["cat"] == cat]
        if ran and not on:
            raise Violation("unselected-category-ran", f"{what}: {name} rails are not selected but {ran} ran", {"cat": cat})
    gen = [c for c in o["llm"] if c["task"] in GENERATION_TASKS]
    if not D and o["llm"]:
        raise Violation("llm-called-without-dialog", f"{what}: dialog rails are not selected but the LLM was called for {[c['task'] for c in o['llm']]}")
    if not D and any(e["cat"] == "dialog" for e in trace):
        raise Violation("unselected-category-ran", f"{what}: dialog rails are not selected but the custom dialog action ran", {"cat": "dialog"})

    # 2. the input chain
    mi = pipeline.model_input(cfg, spec, T, selected=I)
    prob = pipeline.chain_problem(mi["calls"], [e for e in trace if e["cat"] == "in"], what)
    if prob:
        raise Violation("input-rail-chain", prob)
    last_rw = max([i for i, c in enumerate(mi["calls"]) if c["verdict"] == "rewrite"], default=None)
    user_now = spec["user"] if last_rw is None else _pad(fakes.rw_in_text(last_rw, T), spec.get("rw_pad"))
    expected_log = [("input", flow_name(cfg, "in", i), c["verdict"] == "reject") for i, c in enumerate(mi["calls"])]
    out_entries = [e for e in trace if e["cat"] == "out"]
    nt_event = I and any(c["verdict"] != "accept" for c in mi["calls"])

    def expect_refusal(cat, i, exact=True):
        i = _refusal_slot(cfg, cat, i)
        if cfg["exc"]:
            want = fakes.block_message(cat, i, "both")
            typ = "InputRailException" if cat == "in" else "OutputRailException"
            if not any(e.get("type") == typ and e.get("message") == want for e in excs):
                raise Violation("refusal-missing", f"{what}: expected a {typ} with message {want!r}, got {o['reply']!r}"[:500])
        else:
            # (a refusal that is a template is uttered rendered: "Sorry $vf_who, ..." -> "Sorry Ann, ...")
            want = _tpl_text(cfg, refusal_text(cat, i, "both"), rendered=True)
            if (text.strip() != want) if exact else (want not in text):
                raise Violation("refusal-missing", f"{what}: rail {cat}{i} rejected, reply must be its refusal {want!r}, got {o['reply']!r}"[:500])

    if mi["blocked"] is not None:
        labels.append("input-blocked")
        if cfg.get("tpl") and not cfg["exc"]:
            labels.append("templated-refusal-of-an-input-rail" + ("-with-output-selected" if O else ""))
        if gen:
            raise Violation("llm-call-after-block", f"{what}: input was blocked but the LLM was called for {[c['task'] for c in gen]}")
        if [e for e in out_entries if fakes.lineage(e["text"])]:
            raise Violation("output-rails-after-block", f"{what}: input was blocked but output rails ran on {[str(e['text'])[:40] for e in out_entries]}")
        expect_refusal("in", mi["blocked"])
    elif not D:
        if not O:
            # input only (or nothing): the reply is the (possibly rewritten) user text
            labels.append("reply=user-text" + ("-rewritten" if mi["final"] != mi["orig"] else ""))
            if user_now != user_now.strip():
                labels.append("reply-must-keep-whitespace:" + ("rewritten-user-text" if last_rw is not None else "user-text"))
            if text != user_now:
                raise Violation("reply-not-user-text", f"{what}: expected the reply to be the user text {user_now!r}, got {o['reply']!r}"[:500])
        else:
            mo = pipeline.model_output(cfg, spec, T, SUPPLIED_K, selected=True)
            if spec["bot"] == "":
                # no marker to follow: the chain is judged by rail names and by the text each rail was given
                labels.append("empty-supplied-bot-message")
                want_rails = [c["rail"] for c in mo["calls"][: mo["need"]]]
                if [e["rail"] for e in out_entries] != want_rails or any(e["text"] != "" for e in out_entries):
                    raise Violation("output-rail-chain", f"{what}: output rails ran as {[(e['rail'], str(e['text'])[:30]) for e in out_entries]}, expected {want_rails} on the empty message")
                prob = None
            else:
                prob = pipeline.chain_problem(mo["calls"][: mo["need"]], out_entries, what)
            if prob:
                raise Violation("output-rail-chain", prob)
            expected_log += [("output", flow_name(cfg, "out", i), c["verdict"] == "reject") for i, c in enumerate(mo["calls"][: mo["need"]])]
            nt_event = nt_event or any(c["verdict"] != "accept" for c in mo["calls"][: mo["need"]])
            if mo["blocked"] is not None:
                labels.append("bot-message-blocked")
                if cfg.get("tpl") and not cfg["exc"]:
                    labels.append("templated-refusal-of-an-output-rail")
                expect_refusal("out", mo["blocked"])
            else:
                last_rw = max([i for i, c in enumerate(mo["calls"]) if c["verdict"] == "rewrite"], default=None)
                want = spec["bot"] if last_rw is None else _pad(fakes.rw_out_text(last_rw, spec["bot"]), spec.get("rw_pad"))
                labels.append("reply=bot-message" + ("-rewritten" if mo["final"] != mo["orig"] else ""))
                if want != want.strip():
                    labels.append("reply-must-keep-whitespace:" + ("rewritten-bot-message" if last_rw is not None else "bot-message"))
                if text != want:
                    raise Violation("reply-not-bot-message", f"{what}: expected the reply to be {want!r}, got {o['reply']!r}"[:500])
    else:
        # dialog selected: normal pipeline, the LLM is consulted
        if not gen:
            raise Violation("llm-not-called", f"{what}: dialog rails are selected and the input was not blocked, but the LLM was never called")
        generated = pipeline.generated_texts(o)
        in_reply = fakes.lineage(text)
        labels.append("dialog-llm-message" if generated else "dialog-predefined-message")
        if cfg.get("tpl") and cfg["tpl"][1] == "context" and (PREDEF["greet"] in text or PREDEF["help"] in text):
            labels.append("templated-predefined-dialog-message" + ("-with-output-selected" if O else ""))
        for ln in in_reply:
            if ln not in generated:
                raise Violation("foreign-llm-text", f"{what}: reply carries text {ln} that the LLM did not generate in this turn: {text[:100]!r}")
        if not generated and PREDEF["greet"] not in text and PREDEF["help"] not in text:
            raise Violation("reply-unexpected", f"{what}: predefined route, reply {text[:100]!r}")
        for tt, k in generated:
            mo = pipeline.model_output(cfg, spec, tt, k, selected=O)
            entries = [e for e in out_entries if (tt, k) in fakes.lineage(e["text"])]
            present = (tt, k) in in_reply
            if not O or present or entries:
                prob = pipeline.chain_problem(mo["calls"][: mo["need"]], entries, what, prefix_ok=not present)
                if prob:
                    raise Violation("output-rail-chain", prob)
            if entries:
                expected_log += [("output", flow_name(cfg, "out", i), c["verdict"] == "reject") for i, c in enumerate(mo["calls"][: len(entries)])]
                nt_event = nt_event or any(c["verdict"] != "accept" for c in mo["calls"][: len(entries)])
            if present:
                if mo["blocked"] is not None:
                    raise Violation("blocked-text-in-reply", f"{what}: rail out{mo['blocked']} rejected the LLM text but the reply carries it: {text[:100]!r}")
                if mo["final"] not in text or (mo["final"] != mo["orig"] and mo["orig"] in text):
                    raise Violation("rewrite-not-returned", f"{what}: expected the reply to carry {mo['final']} only, got {text[:100]!r}")
            if O and mo["blocked"] is not None and len(entries) >= mo["need"]:
                labels.append("llm-message-blocked")
                expect_refusal("out", mo["blocked"], exact=False)  # a predefined message may precede it (route pl)
        if R and cfg["ret"] and not any(e["cat"] == "ret" for e in trace):
            raise Violation("selected-category-skipped", f"{what}: dialog and retrieval are selected, a bot message was generated, but the retrieval rail never ran")

    # 3. the log
    log = o["log"]
    if log is None:
        raise Violation("log-missing", f"{what}: options.log.activated_rails was requested but the response has no log")
    got_log = [(r["type"], r["name"], r["stop"]) for r in log if r["type"] in ("input", "output")]
    if got_log != expected_log:
        raise Violation("activated-rails-log", f"{what}: log.activated_rails (input/output entries: type, name, stop) = {got_log}, rails that ran = {expected_log}")
    others = [(r["type"], r["name"]) for r in log if r["type"] not in ("input", "output") and r["stop"]]
    if others:
        raise Violation("activated-rails-log", f"{what}: `stop` is set on {others}, which are not rails that blocked")
    if not D:
        ghosts = [(r["type"], r["name"]) for r in log if r["type"] in ("dialog", "generation")]
        if ghosts:
            raise Violation("activated-rails-log", f"{what}: dialog rails are not selected but the log lists {ghosts}")
    names = [name for _, name, _ in expected_log]
    twice = len(set(names)) < len(names)
    if any(stop for _, _, stop in expected_log[1:]):
        # a rail of this call allowed (accepted / rewrote) before the rejecting one ran: its result was there to be mistaken for this one's
        labels.append(f"reject-after-an-allowing-rail:{'own' if cfg.get('var') == 'own' else 'shared'}-variable,returns-{cfg.get('block') or 'false'}")
    if len({(t, n) for t, n, _ in expected_log}) < len(expected_log):
        labels.append("same-flow-ran-twice-in-one-category")
    if {n for t, n, _ in expected_log if t == "input"} & {n for t, n, _ in expected_log if t == "output"}:
        labels.append("same-flow-ran-in-input-and-output")
    empty_selected = (I and not cfg["in"]) or (O and not cfg["out"])
    nt = len(sel) < 4 and bool(nt_event or twice or empty_selected)
    # (the evidence keeps the 60 most frequent labels only: the shares of the options hand-over dimension are also kept as counters)
    counters = {lab: 1 for lab in set(labels) if lab.startswith(("options-", "after-a-call-with", "predefined-messages=", "templated-", "bot-message-supplied-although", "reply-must-keep-whitespace", "texts-with-whitespace", "rewrite-products-with-whitespace"))}
    return ok(nt=nt, labels=sorted(set(labels)), counters=counters, view={"rails": spec["options"]["rails"], "in": spec["in"], "out": spec["out"], "user": spec["user"], "bot": spec.get("bot"), "reply": o["reply"], "rail_calls": [e["rail"] for e in trace], "llm_calls": len(o["llm"]), "log": [(r["type"], r["name"], r["stop"]) for r in log]})


def _options_key(turn):
    return json.dumps(turn.get("options"), sort_keys=True)


def _caller_options(case, p):
    """p._kwargs with the caller's way of handing over the options (case["options_as"]): the shared runner builds a new dict for
    every call; here the dict becomes a GenerationOptions object ("object*") and/or is kept by the caller and passed again to
    every later call of the case whose options have the same value ("*-reused": ONE dict / object serves all these calls)."""
    form = case.get("options_as") or "dict"
    kept = {}
    build = p._kwargs

    def kwargs(session, t):
        kw, user = build(session, t)
        if "options" in kw:
            key = _options_key(session.turns[t])
            if form.endswith("-reused") and key in kept:
                kw["options"] = kept[key]
            else:
                if form.startswith("object"):
                    from nemoguardrails.rails.llm.options import GenerationOptions

                    kw["options"] = GenerationOptions(**kw["options"])
                kept[key] = kw["options"]
        return kw, user

    return kwargs


def _with_context_message(build, ctx):
    """The caller plants its context variables with a message of role `context` in front of the messages of every call."""

    def kwargs(session, t):
        kw, user = build(session, t)
        kw["messages"] = [json.loads(json.dumps(ctx))] + kw["messages"]
        return kw, user

    return kwargs


def _run_conversation(case, fresh):
    """vf.pipeline.run_conversation for the call schedules the shared runner does not have: api "task" (one coroutine
    awaits every call of the case in turn - one asyncio task, one contextvars context, as an application's own coroutine or
    a batch loop does), turns marked "new_conversation" (the call's message list starts afresh: another conversation
    served by the same LLMRails instance) and options handed over as (reused) objects (see _caller_options)."""
    p = None
    try:
        p = pipeline.get_pipeline(case["config"], fresh=fresh)
        s = p.new_session(case)
        if (case.get("options_as") or "dict") != "dict":
            p._kwargs = _caller_options(case, p)  # (instance attribute in front of the method, removed below)
        ctx = _tpl_context(case["config"])
        if ctx is not None:
            p._kwargs = _with_context_message(p._kwargs, ctx)

        def begin(t):
            if case["turns"][t].get("new_conversation"):
                s.messages = []

        n = len(case["turns"])
        if case.get("api") == "task":
            async def all_calls():
                out = []
                for t in range(n):
                    begin(t)
                    out.append(await p.turn_async(s, t))
                return out

            turns = pipeline.loop().run_until_complete(all_calls())
        else:
            turns = []
            for t in range(n):
                begin(t)
                turns.append(p.turn(s, t))
        return pipeline.Observations(case, s, turns, p)
    except BaseException:
        pipeline.reset_runtime()
        raise
    finally:
        if p is not None:
            p.__dict__.pop("_kwargs", None)


def _run_checked(case):
    """vf.pipeline.run_checked on top of _run_conversation: a violation seen on the cached instance must reproduce on a fresh one."""
    try:
        return _check(case, _run_conversation(case, False))
    except Violation as first:
        try:
            _check(case, _run_conversation(case, True))
        except Violation:
            raise
        raise RuntimeError(f"harness: violation seen only on a reused LLMRails instance, not on a fresh one: {first}")


def prop(case):
    if (case.get("api") == "task" or any(tn.get("new_conversation") for tn in case["turns"]) or (case.get("options_as") or "dict") != "dict"
            or _tpl_context(case["config"]) is not None):
        return _run_checked(case)
    return pipeline.run_checked(case, _check)
