#!/usr/bin/env python3
"""Regenerates MANIFEST.json from the table below (keeps it schema-valid at all times)."""
import json
import os
import subprocess

HERE = os.path.dirname(os.path.dirname(os.path.abspath(__file__)))

# pid -> (category, technique, level text, level note, design ref)
CHECKS = {'C01': ('exploration',
         'Hypothesis: generated rail sets/orders x accept/reject/rewrite verdict tables x hostile user texts x multi-turn conversations (Colang 1.0 and 2.x) through LLMRails.generate; reference '
         "pipeline model over the rail-action trace, the scripted LLM's prompt log and the reply",
         'Conversations of 1-4 turns with 1-4 input rails (custom check/rewrite rails and the shipped self check input), with/without dialog rails, rail exceptions on/off, sync and async API, are '
         'run through the public LLMRails API with marker-carrying texts; a reference model requires: rails called in configured order on the text as rewritten so far and before any '
         "dialog/generation step; after a reject no later rail, no generation LLM call, no dialog action, reply = that rail's refusal/exception; (1.0) after a rewrite no prompt of this or any later "
         'turn contains the original marker. Since rounds 3-5 also: user texts and rewrite products that are exactly `$name` of a defined variable, per-call generation options (input-off call, then '
         'plain calls), rail-exception event types, listener flows in other Colang 2.x interaction loops.',
         'Fake embedding provider and prompt-classifying scripted LLM (vf/fakes.py); every violation is re-confirmed on a fresh LLMRails instance; v2 rails are check-only (the statement restricts '
         'rewriting to 1.0); turns that exceed the v1 100-event limit are skipped and counted.',
         'DESIGN.md 4/C01'),
 'C02': ('exploration',
         'Hypothesis: generated output-rail sets x verdict sequences x conversations of 2-5 turns where any turn may be blocked/rewritten, predefined and LLM messages alternating (Colang 1.0 and '
         '2.x); reference model + history invariant (turn t is checked like turn 0)',
         'Every LLM-originated text (tracked by lineage markers) that reaches a reply must have passed all configured output rails in order, never after a reject, only in its final rewritten form; a '
         "rejected turn's reply carries the refusal or OutputRailException; no LLM text of another turn resurfaces; the rail-call trace of turn t depends only on turn t's verdicts, whatever happened "
         'in earlier turns. Since rounds 3-5 also: per-call options (output-off call then plain calls), completions with a leading <think> block, very long completions with head and tail markers, '
         'multi-step generation with inline messages, Colang 2.x parallel replies (open finding C02-F23).',
         "Same harness and fresh-instance confirmation as C01; messages produced by the rails themselves and predefined messages are exempt; failing rails are C03's domain.",
         'DESIGN.md 4/C02'),
 'C03': ('fault_enumeration',
         'Hypothesis-generated rail configurations and conversations (Colang 1.0 and 2.x) x enumeration of ALL single fault plans (action call site x invocation index; thorough: all pairs) derived '
         'from a fault-free dry run; oracle = generate returns, unchecked LLM text withheld, next turn identical to the dry run',
         'For every drawn configuration/conversation a fault-free dry run yields the sequence of custom-action invocations (input rails, output rails, retrieval and dialog actions); then every '
         "single invocation (thorough: every pair) is made to raise RuntimeError in turn. For each plan: generate must return normally; a fault in an output-rail action must keep that turn's LLM "
         'text out of the reply (refusal or fixed internal-error message instead); a fault in an input-rail action must prevent any generation LLM call in that turn; and the following fault-free '
         'turn must show exactly the rail trace and reply of the dry run (the failure does not poison the conversation). Since rounds 3-4 also: 22 exception kinds (NotImplementedError, '
         'StopIteration, unprintable exceptions ...), 8 implementation kinds of custom actions (async/sync/object with run/coroutine-returning); every generate call has its own deadline and a '
         'confirmed hang is a violation.',
         'Fail-closed is asserted for rails of the library convention (`if not $allowed`); a dialog-action fault in v2 may legitimately give an empty reply; LLM provider failures are excluded as the '
         'property says.',
         'DESIGN.md 4/C03'),
 'C04': ('exploration',
         "Hypothesis: recursive pattern generator + payloads derived from the pattern's witness by structural mutation; differential against an independent reference matcher; exhaustive "
         'small-universe table',
         'Generated (pattern, payload) pairs - payloads derived from the pattern by insert/drop/swap/alter/retype - are run through the real interpreter (`match Ev(p=P)` then `send Hit()`), and the '
         'verdict must equal an independent 40-line recursive matcher written from the property text; a table over a tiny universe is enumerated completely; instance-specific matches '
         '($ref.Finished()) are enumerated for 3 action/flow instances. Since rounds 3-5 also: zero-width regular expressions, priority statements, escape-spelled strings in several styles, payloads '
         'with 40-324 extras, one reference-based match statement visited for objects of different kinds.',
         'Trusts the reference matcher; regex-vs-bool/None and numerically-equal cross-type scalars are treated as unspecified and skipped/never generated; patterns are literals (no '
         'ComparisonExpression).',
         'DESIGN.md 4/C04'),
 'C05': ('exploration',
         'Hypothesis: generated sets of 2-6 competing flows (specificity, priority, action identity, loop, tie-break outcome); reference winner model with a validity predicate for ties',
         'Generated competitions are run through the real interpreter with the tie-break (`random.choice`) owned by the case; per interaction loop the set of flows still running must be the '
         'co-winner set of ONE top-scoring flow (score = 0.9^unmentioned x priority), every other fitting flow stopped, non-fitting flows untouched, and each winning action started exactly once. '
         'Since rounds 3-5 also: chained competitors (helper flows, by-name and await links, priorities on internal matches; first position of the documented left-to-right comparison asserted), '
         'multi-argument actions written differently, instances of one activated flow as competitors, started actions finish after the competition.',
         'Trusts the score formula of the docs (0.9 per unmentioned parameter x priority); ties within 1e-9 accept any tied winner; wrapped variant keeps all flows at equal depth.',
         'DESIGN.md 4/C05'),
 'C06': ('exploration',
         'Hypothesis: grammar-based Colang 2 program generator (flow/action hierarchies, activation, when, groups) x event histories with late/early/missing action Finished events x tie-breaks; '
         'history invariants over Start/Stop events and flow statuses',
         'After every processed event the harness checks, from the outgoing events and a read-only snapshot of the flow instances: no Stop for a never-started, already-stopped or already-finished '
         'action; every flow instance that left the running set had all its unshared unfinished actions stopped exactly once by the end of that step; no running flow has a non-running parent; '
         'activated flows are listening while an activator runs and gone when none does. Since rounds 3-4 also: co-won (shared) actions in every order of ends / Started / Finished, activation '
         'arguments (configurations, several activators, activators arriving after idle clean-up, nested activation), recursive programs.',
         'Activators are approximated statically (flows containing `activate X`); the finish-without-waiting exception is outside the generated domain.',
         'DESIGN.md 4/C06'),
 'C07': ('exploration',
         'Hypothesis: and/or formula generator x event sequences; oracle = evaluate the boolean formula over events seen; exhaustive permutations for all formula shapes with <=4 leaves',
         'Every formula shape with <=4 leaves (depth<=3) is run under ALL orders of its leaf events in the three program forms (match / await / when), and generated formulas of up to 5 leaves are '
         'run against generated event sequences with repetitions and irrelevant events; the marker after the group statement must appear at exactly the first step at which the formula evaluates to '
         'true over the set of events seen, never earlier and never twice. Since rounds 3-4 also: statements in loops (re-activation), failing and instant member flows (open finding C07-F20), idle '
         'time between the events.',
         'Trusts the 5-line formula evaluator; leaves of one formula are distinct; each leaf flow is `match Ev_i()`; `when` else-branches are not exercised.',
         'DESIGN.md 4/C07'),
 'C08': ('exploration',
         'Hypothesis: generated signatures x call forms x value types; reference binder (positional -> named -> default -> None) and straight-line callee model; sibling-instance interleavings',
         'Generated flow signatures and calls (positional/named/default mixes, simple and classic syntax, await/assign/start-ref, literal and event-carried values incl. containers, None, bools and '
         "hostile strings) are executed by the real interpreter; the parameters echoed by the callee, the value assigned by `$x = await f`, and the caller's/sibling's same-named variables must equal "
         'a Python reference binder and straight-line evaluation. Since rounds 3-5 also: overridden callees, activated callees with restarts and second activations, parameter reassignment, defaults '
         'at any position of the signature, return members and bare return.',
         'Trusts the 20-line reference binder; surplus positionals, globals, no-return assign-await, list literals as simple-syntax positionals and `$`/`{}` in literal strings are outside the '
         'domain.',
         'DESIGN.md 4/C08'),
 'C09': ('exploration',
         "Hypothesis: grammar-based Colang 2 program generator x event histories (incl. co-simulated 'hit' events and action life-cycle events) x tie-breaks; invariant checking of the interpreter "
         'State against a from-scratch scan after every event',
         'After the start and after every fed event the State object is inspected: no pending internal event, every live head of a listening flow parked on a waiting element, done instances hold no '
         'live head, the dispatch index equals a from-scratch scan of all waiting match statements (no missing, stale or duplicate entry; reverse map exact), flow_id_states partitions flow_states, '
         'referenced actions/children/parents exist. Thorough tier additionally enumerates all histories of length <= 4 over a 3-event alphabet for 60 generated programs. Since rounds 3-4 also: '
         'same-event or-groups with case-owned tie-breaks, heads left on MergeHeads, parent and child waiting for the same event, state round trips inside histories.',
         "The scan uses the interpreter's own notion of 'listening flow' and of the event name of a match element; the shipped library flows are not part of the generated domain yet.",
         'DESIGN.md 4/C09'),
 'C10': ('fault_enumeration',
         'Hypothesis-generated Colang 2 programs with one injected erroneous statement at every enumerated/drawn position + immediately failing activated flows; oracle = deterministic step budget, '
         'canary flows, ColangError watcher, C09 invariants, through the real RuntimeV2_x.process_events',
         'Eight kinds of erroneous statements (bad expression, subscript, undefined reference, invalid regex / comparison pattern in a match, surplus arguments, out-of-range priority, wrong action '
         'argument type) are injected at every position after the first wait of fixed helper families (enumerated) and at drawn positions of generated helpers; activated flows that '
         "finish/return/abort/raise before any wait are added. Events are processed through the real RuntimeV2_x.process_events; per event a step budget on the interpreter's entry points decides "
         'termination, two canary flows must each react exactly once to every canary event (same and later events), a reached fault must be visible as ColangError to a watcher flow, no exception may '
         'escape and the C09 structural invariants must still hold. Since rounds 3-5 also: valid comparison patterns meeting wrong-typed payloads, reference faults (undefined / unknown member / '
         'erroneous arguments), erroneous return statements, faults behind the canary event, erroneous parameter defaults, meta tags and malformed internal events, steered histories.',
         "Step budget max(2000, 200 x source lines) per event stands in for 'a bound that depends only on the program size'; faults before a flow's first wait and failing activations legitimately "
         'fail the starter, so only termination is asserted for them.',
         'DESIGN.md 4/C10'),
 'C11': ('exploration',
         'Hypothesis: generated Colang 2 programs with rich variables x histories x cut points x {save/restore, ageing, both}; differential oracle live continuation vs restored/aged continuation '
         'under identical tie-breaks and a controlled clock',
         'For every drawn (program, history, cut, mode) two executions from scratch are compared: the live one, and one that at the cut serialises and restores the State through '
         "state_to_json/json_to_state (must not raise; C09 invariants must hold on the result) and/or advances the interpreter's clock past the 5 s clean-up age; the canonicalised outgoing events of "
         'every later step must be identical. Fixed program families (one per rich value kind, activated flows that restart) are run with EVERY cut point x mode. Since round 3 also: round trip '
         'before every later event (every / every-age), shipped-library leg, runtime leg with state-dependent system actions and dynamic flows through RuntimeV2_x.process_events, LLMRails leg (State '
         'object live vs JSON state, idle time, rewind to an older snapshot), mixed-key dicts, shared activation, failing child flows; open finding C11-F25 (list aliasing).',
         'Cuts are between events; set values compared as sets; the LLMRails-level generate(state=...) path is not driven by this check.',
         'DESIGN.md 4/C11'),
 'C12': ('exploration',
         'exhaustive enumeration of every shipped .co file + Hypothesis grammar-based generation of Colang 1.0/2.x programs; static closure predicate over the compiled element lists',
         'Every .co file in the repository (210 today; both Colang versions) and generated programs with nested if/while/when, groups, break/continue and flow/action calls are compiled by the real '
         'parser/expander; a static predicate then requires that only interpreter primitives remain, that every Goto/ForkHead/CatchPatternFailure/Break/Continue target is an indexed Label of the '
         'same flow, every MergeHeads has its ForkHead, scopes are closed, and (1.0) every relative or absolute jump and branch head lands inside the flow. Since rounds 3-5 also: every generated 2.x '
         'program compiled twice from the same parsed flows and a further State initialised on the same flow configs, v1 when-chains with flow exits and goto fan-in, bare/mixed loop bodies with '
         'exit-only branches, groups with repeated members, flows whose expansion raises.',
         'The predicate is written against the element classes `slide` executes; scope closure is per name, not per path; 2.x files that need flows from outside the standard library and their own '
         'directory are skipped and counted.',
         'DESIGN.md 4/C12'),
 'C13': ('exploration',
         'Hypothesis: layout-preserving edits of every shipped .co file and of generated v1/v2 programs (metamorphic parse equality); character mutations, truncations and token soups loaded through '
         'RailsConfig.from_path (exception-type oracle + hang watchdog), bucketed by root cause',
         'Layout leg: blank lines, trailing spaces/tabs, (2.x) end-of-line comments, uniform indentation scaling and final-newline changes are applied to all shipped files and generated programs; '
         'the parse result must be identical modulo source positions. Error leg: mutated/truncated/token-soup texts are written to a temp config and loaded through RailsConfig.from_path; the outcome '
         'must be success or ColangParsingError naming the file; any other exception type, bucketed by innermost nemoguardrails frame, or a confirmed hang is a violation. Truncation at every byte of '
         'two small programs is enumerated. Since rounds 4-5 also: argument-list mutations that the grammar accepts and the transformer rejects; probes of an unresolvable import (open finding '
         'C13-F30).',
         'Comments are only appended to lines that already hold code (comment-only lines are statements in 2.x); v1 comments are semantic and never inserted; texts with import/include tokens are '
         'excluded and counted.',
         'DESIGN.md 4/C13'),
 'C14': ('exploration',
         'Hypothesis: generated structured Colang 1.0 programs (vf/co1.py) x co-simulated follow/leave histories; independent reference interpreter over the source AST; purity re-evaluation on a '
         'used instance',
         'Generated flows/subflows (user/bot steps, set, if/else, while, do, execute) are compiled by the real parser; after every event of a co-simulated history (follow the flow, leave it for '
         'another flow, unknown intent) compute_next_steps - and in most cases RuntimeV1_0.generate_events - must decide exactly the step a 60-line reference interpreter of the source AST expects '
         '(bot intent, action start with parameters, context updates); every recorded prefix is re-evaluated after other histories ran on the same flow configs/runtime and must give identical steps. '
         'Since round 4 also: histories that leave a flow on an actionable bot/execute step (also inside a subflow) and re-trigger it.',
         'Competing intents, when-branches, extension flows and parallel-active flows are outside the stated subset; histories stop where two top-level flows would be active side by side.',
         'DESIGN.md 4/C14'),
 'C15': ('exploration',
         'Hypothesis: generated sets of adversarially related conversations x sequential interleavings on one shared LLMRails instance, and concurrent generate_async tasks with generated '
         'latencies/offsets on a virtual-time loop; differential oracle against isolated replay on fresh instances + parameter invariant at quiescence',
         "Sequential leg: 2-4 conversations over a collision-prone alphabet (':' in texts, histories that re-spell another conversation's transcript with merged messages or swapped roles, context "
         'messages) are interleaved on one instance; concurrent leg: 2-5 generate_async tasks with per-task llm_params, log and streaming options run under a virtual clock with generated latencies. '
         'The LLM is a pure function of the prompt. Every conversation is also replayed alone on a fresh instance; replies, logs, streamed chunks, per-turn prompts and the temperature/max_tokens '
         "seen at call start and end must be identical, and whenever no request is in flight the LLM object's parameters must be the configured ones. Two findings are listed open (C15-F9b llm_params "
         'race, C15-F9c None left in model_kwargs); while F9b is open three quarters of the concurrent cases come from a sub-domain without llm_params so that the search continues past it. Since '
         'rounds 3-4 also: an exact defect model of the two open LLMParams findings (schedule probe + replay of save/restore) so that any other parameter deviation is reported, disjoint parameter '
         'sets, up to 300 conversations of other users between two turns, a Colang 2.x llm-continuation leg, multi-step generation with shared flow bodies.',
         'asyncio interleavings only (no OS threads); a supplied history that equals (roles and contents) a transcript already served by the instance is the same conversation for the instance and is '
         'not judged.',
         'DESIGN.md 4/C15'),
 'C16': ('exploration',
         'exhaustive enumeration of the option-subset x spelling x verdict-vector table (768 rows) + Hypothesis-sampled texts; reference decision table over rail-action trace, LLM call count, reply '
         'and GenerationResponse.log',
         'All 16 subsets of {input, dialog, retrieval, output} in list and dict spelling x every effective verdict vector are enumerated completely; for each row no rail of an unselected category '
         'may run, selected input rails run in order until the first reject, rails-only modes make 0 LLM calls and return exactly user text / rewritten text / supplied bot message / refusal, and '
         'log.activated_rails lists exactly the rails that ran with stop on exactly the blocking rail. Since rounds 3-5 also: 0-2 rails per category (empty selected categories), one flow listed in '
         'several rail places, shared result variable and falsy block values, earlier calls awaited in the same task.',
         'Colang 1.0 only (as the property says); per-rail name lists in options are documented as unsupported and not generated; retrieval rails during refusal generation are not asserted.',
         'DESIGN.md 4/C16'),
 'C17': ('exploration',
         'Hypothesis + enumerated hostile corpus: adversarial / malformed LLM answers (and mutations of well-formed ones) placed at every LLM call position of multi-turn conversations in nine '
         'pipeline modes (Colang 1.0 three-step, single-call, multi-step, passthrough, general, with shipped rails; Colang 2.x llm continuation, value generation, passthrough); oracle = generate '
         'returns a well-formed message, never raises or hangs, planted template/variable syntax is returned literally and the planted secret never appears',
         'About 190 hostile answer classes, 20 template payloads wrapped in the format of the task at that position, and generated mutations of the well-formed answer are returned by the scripted '
         "LLM at each call position (reach is measured from the LLM call log); generate must return {'role': 'assistant'|'exception', ...}, never raise, never hang (confirmed watchdog), a following "
         'benign turn must complete too, and where planted `{{ 7*7 }}` / `$secret_var` / `{$secret_var}` syntax is returned at a message-text position the reply must contain it literally and neither '
         'the evaluated value nor the planted secret. Violations are bucketed by exception type + innermost nemoguardrails frame. Findings C17-F7c, C17-F7g, C17-F7i and C17-F7j are listed open and '
         'classified by precise signatures so that the search continues past them. Since rounds 3-4 also: interpolation of several generated values into one string (answers spelling a peer '
         'placeholder), control strings such as `(remove last message)`, expression errors in multi-step generated flows and self-starting generated Colang 2.x flows (open findings C17-F7i, '
         'C17-F7j).',
         'The fixed internal-error reply and empty v2 replies are well-formed outcomes (counted, not violations); a `$var` in a generated bot INTENT is resolved by design and is not a message-text '
         'position.',
         'DESIGN.md 4/C17'),
 'C18': ('exploration',
         'Hypothesis-generated texts/configs x exhaustive enumeration of all 2^(n-1) chunkings; metamorphic + reference-function oracle',
         'Every chunking of each generated short text (all 2^(n-1) of them) is driven through the real StreamingHandler callbacks and must deliver the same concatenation, equal to an independent '
         'reference string function and to `completion`; texts/configs are sampled, so this is exploration, but the schedule dimension (chunkings) is complete for n<=11. Since rounds 3-5 also: '
         'generated prefix/suffix/stop patterns, backslash escapes split across tokens, letter-case variants of the configured patterns.',
         "Trusts the 20-line reference function ref() (prefix strip, first stop cut, suffix strip); tokens are non-empty; cases where 'suffix first' and 'stop first' readings differ are not compared "
         'with the reference (only with each other).',
         'DESIGN.md 4/C18'),
 'C19': ('exploration',
         "Hypothesis: generated batching/caching configurations x request schedules (arrival offsets, model latencies) on a virtual-time asyncio loop; oracle = each result equals the fake model's "
         'own vector, order preserved, no deadlock; enumerated burst grid',
         'The real BasicEmbeddingsIndex (batching, cache decorator with every store/key generator) is driven with a deterministic fake embedding model on a virtual-clock event loop owned by the '
         'harness, so arrival times, batch hold times and model latencies are part of the generated case; every returned vector must equal model(text) in input order, stored item embeddings and '
         'search ranking must be consistent, every request must complete (deadlock/livelock/hang are violations) and nothing may stay pending. A 1465-case burst grid around the batch size is '
         'enumerated. Since rounds 3-5 also: long list requests, several indexes with different models sharing one cache configuration in one process.',
         'Only asyncio interleavings at the await points of this code path are explored (no OS threads); a raising model is out of scope.',
         'DESIGN.md 4/C19'),
 'C20': ('exploration',
         'Hypothesis: grammar-based generator of config id strings (separators, dot sequences, encodings, look-alikes, absolute paths) and generated request histories over several thread ids against '
         'the real FastAPI app; path-confinement predicate + dict model of threads',
         'Requests are sent through TestClient to the real api.app with LLMRails stubbed and RailsConfig.from_path wrapped: every path the server tries to load must resolve to the root or below (an '
         "audit hook also watches file access outside the root), valid ids load exactly root/<id>, everything else gets the fixed 'could not load' reply; for thread histories a dict model predicts "
         'the exact message list the rails receive and what is stored afterwards, for every step. Since rounds 3-5 also: single-config roots, joined forms of served combinations, overlapping turns '
         'on two threads, datastore read faults, failing turns.',
         "The empty/absent id and '.' are checked for confinement only; requests with `context` use the weaker 'stored = received + reply' check; symlinks inside the root are not created.",
         'DESIGN.md 4/C20')}


# additions of round 6, appended to the level text
ROUND8 = {
    "C01": "rails that only normalise case / whitespace of the user text (exact spellings).",
    "C03": "a raise in a fault-free conversation is a violation (sync wrappers around async actions).",
    "C04": "sequences of 3-5 events at one statement with == values that print differently.",
    "C11": "compiled regexes with out-of-pattern flags held across the cut.",
    "C15": "the empty context message and JSON texts in re-spelled histories, parameters declared as None next to model_kwargs.",
    "C16": "whitespace around texts, texts that begin with a dollar sign.",
}

ROUND7 = {
    "C17": "generated values rendered through a predefined bot message that mentions the variable.",
    "C03": "later turns that repeat the LLM text of a faulted turn, exception kinds from the LangChain hierarchy.",
    "C07": "repeated leaves in formulas, event leaves inside when groups.",
    "C09": "long cascades of internal events (above 1000) for one external event.",
    "C13": "files whose lines parser and message formatter number differently.",
    "C15": "failing LLM calls at llm_params sites, a context variable in a predefined message with a canary instance.",
    "C19": "vector components that single precision cannot represent.",
    "C20": "empty and fixed-text replies on threads.",
    "C01": "the not-allowed result of a rail action (None / 0 / empty string), 70-200 other conversations between two turns.",
    "C02": "empty user messages and event-started turns as turn kinds.",
    "C11": "non-finite floats in the state, open scopes that list an ended flow.",
    "C16": "templated predefined messages, a spare bot message for selections without dialog and output.",
    "C04": "large numbers with neighbour mutations, long received strings around the 4096th character.",
    "C05": "competitors that wait with a group of event matches.",
    "C12": "Colang 1.0 value-generation statements in every block.",
}

ROUND6 = {
    "C01": "overlapping conversations on one instance (asyncio tasks on a virtual loop, rail actions and LLM calls with drawn latencies), two user messages in one call (open finding C01-F42 for config-style rails).",
    "C02": "LLM completions with $-tokens naming planted context variables / run-time context keys, compared on the whole text (the reply carries LLM text exactly as the rails released it).",
    "C03": "actions registered as configured instances that fail once and are needed again in a later turn.",
    "C04": "start arguments of actions held in flow variables (found and fixed C04-F39).",
    "C05": "structured parameters (dict / list / set / action start arguments) mentioned with a different number of members, with a nested score model.",
    "C06": "one flow holding an action through two of its own heads (twin heads) and ended from outside.",
    "C07": "member flows that finish on the same event under every tie-break outcome, a group statement directly followed by a second one that re-awaits the loser.",
    "C08": "wide signatures (up to 14 parameters, more than ten positional arguments), named arguments written before positional ones in bracket-less calls.",
    "C09": "main flows that end (and are re-armed) or carry the faulty action themselves; the thorough tier found and fixed C09-F40.",
    "C10": "meta-tag hierarchies (a tagged action flow finishing under an ancestor whose intent tag cannot be evaluated); open finding C10-F41.",
    "C11": "references to ended flows read after the cut, an unfinished action of a discarded flow instance (found and fixed C11-F38), dict-valued action arguments matched by a literal.",
    "C12": "flows added to a running runtime through AddFlowsAction, a Colang 1.0 when block inside a while body with loop exits around it.",
    "C16": "the options handed over as new / kept dict or GenerationOptions object, reused across calls of different shapes.",
    "C15": "prompt overflow (max_length) of one conversation between two turns of another, rail-name-list options on a request in flight next to a request without options.",
    "C19": "client cancellations of single requests as part of the schedule (only the other requests are asserted).",
    "C17": "generated values that are container literals with an unholdable element in any slot incl. dict keys; lone surrogates and unclosed / reversed <think> tokens as plain message texts.",
}

TITLES = {}
with open(os.path.join(HERE, "properties.jsonl")) as f:
    for line in f:
        p = json.loads(line)
        TITLES[p["id"]] = p["title"]

NOT_YET = "check not built yet in this session (planned in DESIGN.md section 4; property-based testing applies)"
NA_REASONS = {}


def main():
    try:
        commits = subprocess.check_output(
            ["git", "-C", "/repo", "log", "--format=%h %s", "--grep=^hook:"], text=True
        ).strip().splitlines()
    except Exception:
        commits = []
    checks = []
    for pid in sorted(CHECKS):
        cat, tech, text, note, ref = CHECKS[pid]
        if pid in ROUND6:
            text = text.rstrip() + " Since round 6 also: " + ROUND6[pid]
        if pid in ROUND7:
            text = text.rstrip() + " Since round 7 also: " + ROUND7[pid]
        if pid in ROUND8:
            text = text.rstrip() + " Since round 8 also: " + ROUND8[pid]
        checks.append(
            {
                "property_id": pid,
                "quick_cmd": f"./check {pid} --tier quick",
                "thorough_cmd": f"./check {pid} --tier thorough",
                "evidence_file": f"evidence/{pid}.json",
                "replay_cmd_template": f"./check {pid} --replay {{path}}",
                "engine": "vf",
                "level_claimed": {"category": cat, "text": text, "design_ref": ref},
                "level_note": note,
                "technique": tech,
            }
        )
    na = [
        {"property_id": pid, "reason": NA_REASONS.get(pid, NOT_YET)}
        for pid in sorted(TITLES)
        if pid not in CHECKS
    ]
    manifest = {
        "version": 1,
        "setup_cmd": "/venv/bin/python -c 'import hypothesis' 2>/dev/null || /venv/bin/pip install --no-index --find-links /opt/veriftools/wheels hypothesis",
        "hooks": {
            "guard": "NEMO_GUARDRAILS_VERIF",
            "enable": "no source hooks are needed: checks import the working tree of /repo (editable install) in a fresh interpreter "
            "and wrap module-level names in their own process; ./check sets NEMO_GUARDRAILS_VERIF=1 for completeness",
            "baseline_off_cmd": "cd /repo && env -u NEMO_GUARDRAILS_VERIF /venv/bin/python -m pytest -ra -q -p no:cacheprovider --timeout=900 --continue-on-collection-errors",
            "source_commits": [c.split()[0] for c in commits],
            "add_only": True,
        },
        "engines": [
            {
                "name": "vf",
                "path": "vf/",
                "serves_properties": sorted(CHECKS),
                "kind_free_text": "Hypothesis 6.168 property-based testing: sharded generated-input search (16 fresh interpreters), "
                "collect-then-shrink, exhaustive enumeration of small finite sub-domains, replay files, known-finding classification",
            }
        ],
        "checks": checks,
        "not_applicable": na,
        "notes": "Checks rebuild nothing but import /repo's working tree afresh (pure Python, editable install). "
        "Exit 0 held / 1 VIOLATION / 2 harness error. known_findings.json lists fixed and open findings.",
    }
    with open(os.path.join(HERE, "MANIFEST.json"), "w") as f:
        json.dump(manifest, f, indent=1)
        f.write("\n")
    try:
        import jsonschema

        jsonschema.validate(manifest, json.load(open("/root/.vp/MANIFEST.schema.json")))
        print("MANIFEST.json valid;", len(checks), "checks,", len(na), "not_applicable")
    except ImportError:
        print("MANIFEST.json written (jsonschema not available to validate)")


if __name__ == "__main__":
    main()
