#!/bin/bash
# usage: tools/run_seeded.sh <seeded dir name> [check args...]
# Applies seeded/<name>/patch.diff to /repo, runs the check of the property it breaks (meta.json: property),
# prints the verdict lines and ALWAYS restores /repo afterwards.
set -u
name=$1; shift
dir=/verif/seeded/$name
pid=$(python3 -c "import json;print(json.load(open('$dir/meta.json'))['property'])")
cd /repo || exit 2
if ! git diff --quiet; then echo "/repo has local changes; refusing"; exit 2; fi
git apply "$dir/patch.diff" || { echo "patch does not apply"; exit 2; }
trap 'git -C /repo checkout -q -- . ; git -C /repo clean -fdq nemoguardrails 2>/dev/null' EXIT
cd /verif && timeout 1800 ./check "$pid" "$@" 2>&1 | grep -E "tier=|VIOLATION|HARNESS|KNOWN|^  [a-zA-Z0-9_:<>=-]+: " | cut -c1-260
echo "exit=${PIPESTATUS[0]}"
