"""Virtual time for the checks (DESIGN 3.2).

`VirtualLoop` is a real `asyncio.SelectorEventLoop` whose clock is a float owned by the loop: `time()`
returns the virtual time and the selector's `select(timeout)` is wrapped so that, when no file
descriptor is ready, `timeout` is *added to the virtual time* instead of being slept.  Timers
(`asyncio.sleep`, `call_later`, `wait_for`) therefore fire in exactly the order and at exactly the
virtual instants the code under test asked for, a schedule runs in microseconds and is
deterministic.

Two guards turn "never finishes" into exceptions instead of a wall-clock hang:

* `Deadlock`  - the loop is idle (nothing ready, no timer) while the main future is not done: only
                I/O could wake it up and the harness does not do I/O;
* `StepLimit` - more than `max_steps` loop iterations (a task spinning without advancing time).

Both derive from `VirtualTimeError` (an `Exception`; they are raised out of `run_until_complete`).

    loop = VirtualLoop(max_steps=200_000)
    try:
        result = loop.run_until_complete(main())
    finally:
        loop.shutdown()          # cancels what is left, closes the loop

`FakeDateTime`/`make_fake_datetime(clock)` give the Colang 2 interpreter (`statemachine.datetime`,
`flows.datetime`) a `datetime` class whose `now()` is `BASE + clock()` seconds.
"""
import asyncio
import datetime as _dt


class VirtualTimeError(Exception):
    pass


class Deadlock(VirtualTimeError):
    """Nothing is ready, no timer is scheduled, and the awaited future is not done."""


class StepLimit(VirtualTimeError):
    """The loop ran more than `max_steps` iterations (tasks spin without making progress)."""


class VirtualLoop(asyncio.SelectorEventLoop):
    def __init__(self, start=0.0, max_steps=1_000_000, io_grace=0.0):
        super().__init__()
        self._vtime = float(start)
        self._vsteps = 0
        self._vmax_steps = max_steps
        self._vio_grace = io_grace
        self._real_select = self._selector.select
        self._selector.select = self._virtual_select

    # ------------------------------------------------------------------ clock
    def time(self):
        return self._vtime

    @property
    def steps(self):
        return self._vsteps

    def advance(self, seconds):
        """Move the virtual clock forward by hand (timers due are run by the next iteration)."""
        if seconds > 0:
            self._vtime += seconds

    def _virtual_select(self, timeout=None):
        self._vsteps += 1
        if self._vmax_steps and self._vsteps > self._vmax_steps:
            raise StepLimit(f"more than {self._vmax_steps} event-loop iterations at virtual time {self._vtime!r}")
        events = self._real_select(0)
        if events:
            return events
        if timeout is None:
            if self._vio_grace:
                events = self._real_select(self._vio_grace)
                if events:
                    return events
            raise Deadlock(f"event loop idle at virtual time {self._vtime!r}: nothing ready and no timer scheduled")
        if timeout > 0:
            target = self._vtime + timeout
            if self._scheduled:
                # t + (when - t) can fall one ulp short of `when`; land exactly on the timer
                when = self._scheduled[0]._when
                if abs(when - target) < 1e-9:
                    target = max(target, when)
            self._vtime = target
        return []

    # ------------------------------------------------------------------ helpers
    def pending_tasks(self):
        return [t for t in asyncio.all_tasks(self) if not t.done()]

    def shutdown(self):
        """Cancel whatever is left, give cancelled tasks a chance to unwind, close the loop."""
        if self.is_closed():
            return
        try:
            tasks = self.pending_tasks()
            for t in tasks:
                t.cancel()
            if tasks:
                self._vsteps, self._vmax_steps = 0, 10_000
                try:
                    self.run_until_complete(asyncio.gather(*tasks, return_exceptions=True))
                except BaseException:
                    pass
        finally:
            try:
                self._selector.select = self._real_select
            except Exception:
                pass
            self.close()


def run(coro, max_steps=1_000_000, start=0.0):
    """Runs `coro` on a fresh VirtualLoop; returns (result, virtual end time, loop iterations)."""
    loop = VirtualLoop(start=start, max_steps=max_steps)
    try:
        result = loop.run_until_complete(coro)
        return result, loop.time(), loop.steps
    finally:
        loop.shutdown()


# ---------------------------------------------------------------------------------------------
# fake datetime for the Colang 2 interpreter (DESIGN 2.2)

BASE = _dt.datetime(2024, 1, 1, 12, 0, 0)


class VirtualClock:
    """A float the harness advances explicitly."""

    def __init__(self, start=0.0):
        self.t = float(start)

    def __call__(self):
        return self.t

    def advance(self, seconds):
        self.t += seconds


def make_fake_datetime(clock, base=BASE):
    """Returns a `datetime` subclass whose now()/utcnow() is `base + clock()` seconds.

    Install with `statemachine.datetime = flows.datetime = make_fake_datetime(clock)`.
    """

    class FakeDateTime(_dt.datetime):
        @classmethod
        def now(cls, tz=None):
            d = base + _dt.timedelta(seconds=clock())
            r = cls(d.year, d.month, d.day, d.hour, d.minute, d.second, d.microsecond)
            return r.replace(tzinfo=tz) if tz is not None else r

        @classmethod
        def utcnow(cls):
            return cls.now()

    return FakeDateTime
