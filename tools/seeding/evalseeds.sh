#!/bin/bash
# usage: evalseeds.sh <worktree> "PID i" ...   (appends to /tmp/round4.log)
wt=$1; shift
cd /verif
for x in "$@"; do set -- $x; 
  c=$(tools/seeding/confirm_seed.sh $1 $2 2>&1 | grep -v WARNING)
  r=$(VFMUT=$wt tools/seeding/tryseed.sh $1 /tmp/seed-$1/seeded_$1_$2.diff --workers 8 2>&1 | grep -v WARNING | grep -vE "^  classes" | cut -c1-300)
  { echo "=== $1-$2 $(date +%T)"; echo "$c"; echo "$r"; } >> /tmp/round4.log
done
