#!/bin/bash
# usage: confirm_seed.sh <PID> <i>   -> runs demo on clean and patched worktree
pid=$1; i=$2; wt=/tmp/seed-$pid
cd $wt || exit 2
git checkout -q -- . 
PYTHONPATH=$wt timeout 300 /venv/bin/python demo_${pid}_$i.py >/tmp/cs_clean.$pid.$i.out 2>&1; c=$?
git apply seeded_${pid}_$i.diff || { echo "apply failed"; exit 2; }
PYTHONPATH=$wt timeout 300 /venv/bin/python demo_${pid}_$i.py >/tmp/cs_mut.$pid.$i.out 2>&1; m=$?
git checkout -q -- .
echo "$pid/$i clean_exit=$c ($(tail -1 /tmp/cs_clean.$pid.$i.out | cut -c1-60)) patched_exit=$m ($(tail -1 /tmp/cs_mut.$pid.$i.out | cut -c1-140))"
