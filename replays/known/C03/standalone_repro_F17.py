"""Standalone: v1 general mode, a retrieval rail whose custom action raises once; no knowledge base configured."""
import sys
sys.path.insert(0, "/repo"); sys.path.insert(0, "/verif")
import logging; logging.disable(logging.CRITICAL)
import pytest  # noqa
from nemoguardrails import LLMRails, RailsConfig
from langchain_core.language_models.llms import LLM

class Fake(LLM):
    @property
    def _llm_type(self): return "fake"
    def _call(self, prompt, stop=None, run_manager=None, **kw): return "  express greeting"
    async def _acall(self, prompt, stop=None, run_manager=None, **kw): return "  express greeting"

from vf import fakes; fakes.register_fake_embedding()
import yaml
CO = """
define user express greeting
  "hello there"

define bot express greeting
  "Hi, how can I help?"

define flow greeting
  user express greeting
  bot express greeting

define subflow filter chunks
  $relevant_chunks = execute filter_chunks(chunks=$relevant_chunks)
"""
YAML = """
models: [{type: main, engine: openai, model: gpt-3.5-turbo-instruct}, {type: embeddings, engine: verif_fake, model: x}]
rails:
  retrieval:
    flows:
      - filter chunks
"""
calls = {"n": 0}
async def filter_chunks(chunks=None):
    calls["n"] += 1
    if calls["n"] == 1:
        raise RuntimeError("backend down")
    return chunks

rails = LLMRails(RailsConfig.from_content(CO, YAML), llm=Fake())
rails.register_action(filter_chunks, "filter_chunks")
msgs = []
for t in range(3):
    msgs.append({"role": "user", "content": f"hello there"})
    r = rails.generate(messages=msgs)
    print("turn", t, "filter_chunks calls so far", calls["n"], "->", r)
    msgs.append(r)
