"""C20 - the server loads configurations only from its root; threads keep the exact history.

Domain : the real FastAPI app `nemoguardrails.server.api.app` driven through `TestClient`, configured with a temp
         tree  BASE/root/{cfgA,cfgB}  (+ sibling BASE/root-evil and BASE/outside/secret, all valid configs) and a
         second tree  BASE/solo/cfgA  (a root that IS a configuration: single-config mode) with the valid configs
         BASE/solo/{cfgB,root-evil,cfgA-evil,outside/secret} next to it; every case starts the server on one of the
         two roots (module defaults + the app's own startup handlers, which pick the mode);
         `api.LLMRails` is a stub that records the messages it is asked to continue and answers with a digest of
         them, or - scripted per turn - with an EMPTY assistant message (flow ending in `stop`) / a fixed bot text; `RailsConfig.from_path` is wrapped (call-through) to record every path, and an audit hook records
         every open/listdir/scandir below BASE that is not below the root of the case.
         part "ids"     : 1-4 requests whose config_id / config_ids come from a grammar over dot sequences,
                          separators, percent-encodings, unicode look-alikes, absolute paths, valid names;
         part "threads" : 3-24 requests over 3 thread ids (prefixes of each other, case variants, 255 chars) with
                          1-3 new messages each, interleaved with requests without a thread id, then one probe
                          request per thread; a step may be a turn with a failing generation, a turn that overlaps
                          with a turn on another thread, or a turn during which the datastore cannot be read for its
                          thread (DataStore.get raises / returns text that is not JSON / a truncated copy of the
                          stored value / JSON that is not a list; set() keeps working).
         ids, histories : a quarter of the requests behind the first one use the ids of an earlier request of the case
                          joined into ONE id ('a/b', 'a-b', 'a,b', 'a b', ...: what a cache key or a log line of a
                          served combination looks like), alone or next to a valid name.
Oracle : ids - every path handed to from_path resolves (realpath) to the root or below it and nothing outside is
         touched; a request whose ids are all names of configuration directories of the root loads exactly
         root/<id> (or nothing if that list is already cached) and is answered by the rails; on a single-config
         root only the root's folder name is such an id and it loads the root itself; every other
         request gets the fixed "Could not load the [...] guardrails configuration. An internal error has
         occurred." reply and no rails run.  threads - reference model dict[thread_id] -> list: the stub must
         receive model[tid] + new messages, the reply exactly as delivered (also when its content is empty) is stored
         behind them, the set of stored threads equals the model after every step (so other threads are unchanged).  A turn with a datastore read fault either does
         not take place (no reply of its own, stored thread unchanged) or runs on exactly model[tid] + new messages
         and stores that + reply; the model keeps the thread unchanged otherwise.
"""
import atexit
import hashlib
import json
import os
import shutil
import sys
import tempfile

from hypothesis import strategies as st

from vf.core import Violation, ok

PID = "C20"
LEVEL = "exploration"
CASE_TIMEOUT = 30
HANG_IS_VIOLATION = False
RULE = (
    "part ids (10 of 11 cases): server mode drawn per case - 2/3 multi-config root (BASE/root holding cfgA, cfgB; siblings root-evil, "
    "outside/secret) and 1/3 single-config root (BASE/solo/cfgA holds a config.yml itself, valid configurations cfgB, root-evil, "
    "cfgA-evil, outside/secret lie next to it; the server is started on it through its own startup handlers, so only the id 'cfgA' "
    "= the root's folder name is served); then 1-4 requests, each with config_id or config_ids (1-3 ids); on a single-config root "
    "15% of the ids are the plain name of a folder next to the root or the root's own name; otherwise an id is a curated escape attempt "
    "(../root-evil, ../outside/secret, absolute paths of the sibling/outside/inside configs, cfgA/../cfgB, backslash and "
    "percent-encoded and unicode look-alike variants, ...), a concatenation of 1-6 tokens from {.., ., ..., /, \\, //, %2e, %2f, "
    "%5c, fullwidth/one-dot-leader/division-slash look-alikes, cfgA, cfgB, root-evil, outside, secret, {BASE}, {ROOT}, {PARENT} = parent of the root, -, "
    "space, ~, '' ...} or a valid name; 2 of 22 requests are a combination the server serves (2-3 valid names; [cfgA] or [cfgA,cfgA] on the "
    "single-config root); every request behind the first is with probability 1/4 DERIVED from an earlier request of the case (one with 2+ ids "
    "if there is one): its ids, in order (1/6 reversed), joined by one of / - , space \\ // ; : | + _ . '' %2f division-slash ', ' \"', '\" "
    "('/' and '-' weighted) into ONE id, sent as config_id, as one-element config_ids or next to a valid name (labels "
    "id:joined-form-of-earlier-ids / id:joined-form-of-served-combination when the earlier list was answered by rails); part threads (1 of 11): 3-24 operations over 3 thread ids drawn from a pool with shared "
    "16-character prefixes/case variants/255 characters, each with 1-3 messages (roles, small content alphabet so different "
    "threads hold equal messages, optional extra keys), ~10% without thread id, a quarter of the plain thread turns overlap with a complete turn on another thread id (served as its own task while the first is being generated), ~8% with context, configs cfgA/cfgB/[cfgA,cfgB], "
    "1/7 of the plain thread turns have a failing generation, 1/6 of the remaining plain sequential thread turns suffer a DATASTORE READ FAULT: for that one turn DataStore.get of "
    "that thread's key raises (ConnectionError, TimeoutError, OSError, RuntimeError, KeyError, ValueError; 1/2), returns text that is not JSON (1/4), "
    "a truncated copy (1-99%) of the stored value (1/8) or JSON that is not a list (null, 42, a string, an object, true; 1/8), while set() keeps working "
    "(labels datastore-read-fault:<kind>, datastore-read-fault-on-thread-with-history), "
    "REPLY KIND drawn per turn that is not a failing one (thread turns, turns without thread id, read-fault turns, and separately the turn that "
    "overlaps another one): 7/10 the digest of the received messages, 1/5 an assistant message with EMPTY content (what the rails deliver when a flow "
    "ends in `stop` without a bot message), 1/10 the fixed text 'Hello!' (equal on all threads) - the model stores the reply exactly as delivered and the "
    "next turn of that thread must receive it (labels reply:empty-content, reply:fixed-text, empty-reply-then-thread-used-again, empty-reply-on-overlapping-turn), "
    "followed by a probe request per thread. Enumerated (first): for each reply kind - interleaved turns on two threads with that reply on a thread with history, "
    "on fresh threads / a request without thread id, several in a row (also with empty user text), as the overlapping and the overlapped turn, next to read-fault turns - "
    "and one mix of both kinds on 255-character ids; then: every joined form (each separator) of [cfgA,cfgB], [cfgB,cfgA], [cfgA,cfgB,cfgA], [cfgA,cfgA] "
    "before and after that combination was served (config_id, one-element list, next to a valid name, reversed order) followed by the combination again; "
    "every read fault kind/value on a thread with history and on a fresh thread between turns on two threads; every curated id alone / after a valid load / inside lists on the "
    "multi-config root, and every curated id, sibling folder name, '' and '.' alone (config_id and one-element list) and around loads "
    "of the root's own id on the single-config root. Non-trivial: ids case = some id contains a separator, a dot sequence, a "
    "percent-encoding or a look-alike, or (single-config root) is the name of a folder next to the root; threads case = at least 3 thread requests and at least 2 thread ids interleaved "
    "(a thread is used again after another one was used); distinct by case hash."
)
ASSUMPTIONS = [
    "the multi-config root contains exactly the configuration directories cfgA and cfgB (no symlinks, no files, no nested configs); "
    "the single-config root contains only its config.yml (no sub-folders); roots are given without trailing separator (as the CLI does)",
    "single-config root: the id that is served is the folder name of the root (what GET /v1/rails/configs lists; docs: 'only that "
    "configuration will be available'); a list repeating that id (['cfgA','cfgA']) is not specified: only confinement is asserted",
    "the server mode is established by running the app's registered startup handlers on attributes reset to the module defaults "
    "(the copies of the '/' route they register are dropped again); the threads part always runs on the multi-config root",
    "ids are NUL-free strings; requests never set config_id and config_ids together (HTTP 422 by schema)",
    "no id / empty id / [] (server answers HTTP 500 without default config) and lists containing '' or '.' (resolve to the root "
    "itself, which single-config mode loads on purpose): only confinement is asserted, in both server modes (DESIGN 4/C20 S)",
    "requests with `context` on a thread: only 'stored = received + reply' is asserted (DESIGN 4/C20 S)",
    "excluded unless case.strict: (a) an id equal to the '-'-join of a list served earlier (cache key collision), "
    "(b) ids ending in .yml/.yaml (from_path opens them as files; a missing file surfaces as HTTP 500); confinement is still asserted",
    "loads are observed at RailsConfig.from_path plus open/listdir/scandir audit events; the in-memory datastore is used "
    "(a subclass whose get() fails the scripted way for one key during a turn with a read fault)",
    "datastore read fault (get raises / returns a value that is not a JSON list, for the thread of that turn, for the whole turn; set works): "
    "the statement leaves two outcomes - the turn does not take place (the client gets no reply produced by the rails, the stored thread is "
    "unchanged; the unchanged server answers 'Internal server error.', probed for every fault value) or it runs on exactly stored thread + new "
    "messages and stores that list + reply; the reply text of a turn that did not take place is not asserted; a store that answers None/'' "
    "for an existing thread (indistinguishable from a new thread) and faults of set() are not generated; read faults are not combined with "
    "context, a failing generation or an overlapping turn",
    "reply kinds: the scripted rails return {'role': 'assistant', 'content': ...} with the digest, '' or 'Hello!' as content (a dict, as "
    "LLMRails.generate_async does without options); 'the new reply' of the statement is that message as returned to the client, whatever its content; "
    "failing turns have no reply kind; GenerationResponse replies (options) and streaming are not generated",
    "joined forms are judged like any other id string, by whether the string names a configuration directory of the root (the join of a "
    "one-element list is that id itself; no join of two valid names names a directory); the labels joined-form-* do not enter the verdict",
]
WALL = {"quick": 150, "thorough": 1500}
VALID = ("cfgA", "cfgB")
SOLO_ID = "cfgA"  # folder name of the single-config root = the only id that server serves
SOLO_SIBLINGS = ("cfgB", "root-evil", "cfgA-evil", "outside")  # folders next to the single-config root ("outside" holds outside/secret)
FIXED_HEAD = "Could not load the "
FIXED_TAIL = " guardrails configuration. An internal error has occurred."
HI = [{"role": "user", "content": "hi"}]


def budget(tier):
    return 6600 if tier == "quick" else 132000


# ---------------------------------------------------------------------------------------------
# process-wide environment (temp tree, stub, wrappers); built lazily so that --replay works too

_E = None


class _Env:
    pass


def _mk_config(path, mark):
    os.makedirs(path)
    with open(os.path.join(path, "config.yml"), "w") as f:
        f.write(f"models: []\ninstructions:\n  - type: general\n    content: MARK-{mark}\n")


def _close_client(client):
    try:
        client.__exit__(None, None, None)
    except Exception:
        pass


def _digest(messages):
    return hashlib.sha1(json.dumps(messages, sort_keys=True, ensure_ascii=True).encode()).hexdigest()[:12]


# what the scripted rails answer on a turn: a digest of the messages they received (default), an EMPTY assistant message
# (what the rails deliver when a flow ends in `stop` without a bot message), or a fixed bot text (the same on every thread)
REPLY_KINDS = ("empty", "fixed")
FIXED_REPLY = "Hello!"


def _reply_for(messages, kind=None):
    if kind == "empty":
        return {"role": "assistant", "content": ""}
    if kind == "fixed":
        return {"role": "assistant", "content": FIXED_REPLY}
    return {"role": "assistant", "content": "R:" + _digest(messages)}


def _env():
    global _E
    if _E is not None:
        return _E
    from fastapi.testclient import TestClient

    import nemoguardrails  # noqa: F401
    from nemoguardrails.server import api

    e = _Env()
    e.api = api
    e.base = os.path.realpath(tempfile.mkdtemp(prefix="vf-c20-"))
    atexit.register(shutil.rmtree, e.base, True)
    e.root = os.path.join(e.base, "root")
    for name in VALID:
        _mk_config(os.path.join(e.root, name), name)
    _mk_config(os.path.join(e.base, "root-evil"), "EVIL")
    _mk_config(os.path.join(e.base, "outside", "secret"), "SECRET")
    # second tree for the single-config server mode: the root BASE/solo/cfgA is itself a configuration (it holds a
    # config.yml) and every other folder of BASE/solo is a valid configuration NEXT TO the root
    e.solo = os.path.join(e.base, "solo")
    _mk_config(os.path.join(e.solo, SOLO_ID), "SOLO")
    for name in SOLO_SIBLINGS:
        _mk_config(os.path.join(e.solo, name, "secret") if name == "outside" else os.path.join(e.solo, name), "SOLO-" + name)
    e.roots = {"multi": e.root, "single": os.path.join(e.solo, SOLO_ID)}
    e.paths, e.calls, e.touched = [], [], []
    e.watch = False
    e.nested, e.nested_result = None, None
    e.reply_kind = None  # reply kind scripted for the next turn that reaches the rails (threads part)

    class StubRails:
        def __init__(self, config=None, llm=None, verbose=False, **kwargs):
            self.config = config
            self.events_history_cache = {}

        async def generate_async(self, messages=None, **kwargs):
            snap = json.loads(json.dumps(messages))
            e.calls.append(snap)
            kind, e.reply_kind = e.reply_kind, None
            if e.nested is not None:
                # another request (other thread id) arrives and is served completely while this one is being generated;
                # it runs as its own task with an empty context, like a request accepted by the server meanwhile
                import asyncio
                import contextvars

                import httpx

                body, e.nested = e.nested, None
                e.reply_kind = body.pop("_reply", None)  # the reply scripted for the turn that arrives meanwhile

                async def inner():
                    async with httpx.AsyncClient(transport=httpx.ASGITransport(app=api.app), base_url="http://testserver") as c:
                        r = await c.post("/v1/chat/completions", json=body)
                        try:
                            return r.status_code, r.json()
                        except Exception:
                            return r.status_code, None

                e.nested_result = await asyncio.get_running_loop().create_task(inner(), context=contextvars.Context())
            if snap and isinstance(snap[-1], dict) and snap[-1].get("content") == BOOM:
                raise RuntimeError("scripted generation failure")
            return _reply_for(snap, kind)

    api.LLMRails = StubRails
    orig = api.RailsConfig.from_path

    def from_path(config_path, *a, **kw):
        e.paths.append(config_path)
        return orig(config_path, *a, **kw)

    api.RailsConfig.from_path = staticmethod(from_path)
    def audit(event, args):
        if not e.watch or event not in ("open", "os.listdir", "os.scandir"):
            return
        p = args[0] if args else None
        if isinstance(p, bytes):
            p = os.fsdecode(p)
        if isinstance(p, str) and e.base in p:
            rp = os.path.realpath(p)
            # below BASE, not the root / below the root, and not one of the root's own ancestors
            if rp.startswith(e.base + os.sep) and not (rp == e.root or rp.startswith(e.root + os.sep)) and not e.root.startswith(rp + os.sep):
                e.touched.append(f"{event}:{p}")

    sys.addaudithook(audit)
    api.app.disable_chat_ui = True
    api.app.rails_config_path = e.root
    api.app.auto_reload = False
    e.client = TestClient(api.app, raise_server_exceptions=False)
    # one portal (server event loop) for the life of the process: makes a request ~3x cheaper than a portal per request;
    # entering it runs the app's startup handlers once, _reset runs them again for the root of every case
    e.client.__enter__()
    atexit.register(_close_client, e.client)
    e.n_routes = len(api.app.router.routes)
    _E = e
    return e


def setup_worker():
    _env()


def _imports():
    # the import takes seconds: do it when the module is loaded, not under the per-case watchdog
    import fastapi.testclient  # noqa: F401

    import nemoguardrails  # noqa: F401
    import nemoguardrails.server.api  # noqa: F401
    import nemoguardrails.server.datastore.memory_store  # noqa: F401


_imports()


def _reset(e, mode="multi"):
    """A freshly started server on the root of `mode`: module-level defaults, then the app's own startup handlers (they
    decide between multi-config and single-config mode by looking at the root), on the server's event loop."""
    import inspect

    from nemoguardrails.server.datastore.memory_store import MemoryStore

    api = e.api
    api.llm_rails_instances.clear()
    api.llm_rails_events_history_cache.clear()
    api.registered_loggers.clear()
    e.root = e.roots[mode]
    api.app.rails_config_path = e.root
    api.app.default_config_id = None
    api.app.single_config_mode = False
    api.app.single_config_id = None
    api.app.auto_reload = False
    api.app.disable_chat_ui = True
    for handler in list(api.app.router.on_startup):
        if inspect.iscoroutinefunction(handler):
            e.client.portal.call(handler)
        else:
            handler()
    # the startup handler registers its "/" route again on every run: drop the copies (harness hygiene only)
    del api.app.router.routes[e.n_routes:]
    class FaultyStore(MemoryStore):
        """The in-memory datastore; while `e.fault` is set, reading the key named there fails the scripted way."""

        async def get(self, key):
            f = e.fault
            if f is not None and key == f["key"]:
                e.fault_hits += 1
                if f["kind"] == "raise":
                    raise FAULT_EXC[f["exc"]]("scripted datastore read failure")
                return f["value"]
            return await MemoryStore.get(self, key)

    e.fault, e.fault_hits = None, 0
    e.store = FaultyStore()
    api.register_datastore(e.store)


def _post(e, body):
    del e.paths[:], e.calls[:], e.touched[:]
    e.watch = True
    try:
        r = e.client.post("/v1/chat/completions", json=body)
    finally:
        e.watch = False
    try:
        js = r.json()
    except Exception:
        js = None
    return r.status_code, js, list(e.paths), list(e.calls), list(e.touched)


# ---------------------------------------------------------------------------------------------
# generators

CURATED = [
    "..",
    "../root-evil",
    "../outside/secret",
    "../root/cfgA",
    "../../",
    "cfgA/../cfgB",
    "cfgA/../../outside/secret",
    "cfgA/../../root-evil",
    "cfgA/..",
    "cfgA/.",
    "cfgA/",
    "./cfgA",
    ".//cfgA",
    "/",
    "//",
    "/etc",
    "{BASE}/outside/secret",
    "{BASE}/root-evil",
    "{ROOT}-evil",
    "{ROOT}/cfgA",
    "{ROOT}/../outside/secret",
    "/{ROOT}/cfgA",
    "..\\root-evil",
    "..\\outside\\secret",
    "cfgA\\..\\cfgB",
    "..\\..\\",
    "\\",
    "....//outside/secret",
    "..../outside",
    "...",
    ".../cfgA",
    "%2e%2e/outside/secret",
    "%2e%2e%2foutside%2fsecret",
    "..%2foutside%2fsecret",
    "..%2froot-evil",
    "%2e%2e%5croot-evil",
    "%252e%252e%252froot-evil",
    "..%c0%afroot-evil",
    "․․/root-evil",
    "．．/outside/secret",
    "..／root-evil",
    "..∕root-evil",
    "..⁄outside⁄secret",
    "．．／root-evil",
    "cfgＡ",
    "cfgA ",
    " cfgA",
    "cfgA\t",
    "CFGA",
    "cfga",
    "cfgA-cfgB",
    "cfgA-cfgA",
    "cfgC",
    "root",
    "root-evil",
    "-evil",
    "~",
    "~/cfgA",
    "file://{ROOT}/cfgA",
    "cfgA;cfgB",
    "cfgA,cfgB",
    "cfgA\ncfgB",
    "*",
    "cfg?",
    "cfgA/config.yml",
    # names and paths that matter when the root itself is the configuration (siblings of the root, the root, its parent)
    "cfgA-evil",
    "outside",
    "secret",
    "../cfgB",
    "../cfgA",
    "../cfgA-evil",
    "../cfgA/",
    "{PARENT}",
    "{PARENT}/",
    "{PARENT}/cfgB",
    "{PARENT}/root-evil",
    "{PARENT}/cfgA-evil",
    "{ROOT}",
    "{ROOT}/",
    "{ROOT}/.",
    "{ROOT}/../cfgB",
]
TOKENS = (
    ["..", "..", "..", ".", "...", "/", "/", "/", "\\", "\\", "//", "%2e", "%2e%2e", "%2E", "%2f", "%2F", "%5c", "%252e", "%252f"]
    + ["․", "．", "／", "∕", "⁄", "⧸", "。"]
    + ["cfgA", "cfgA", "cfgB", "cfgC", "root", "root-evil", "outside", "secret", "config", "-evil"]
    + ["{BASE}", "{ROOT}", "{PARENT}", "-", " ", "~", "", "x", "é"]
)
YAML_TOKENS = [".yml", ".yaml", "config.yml"]


@st.composite
def _id(draw, mode="multi"):
    k = draw(st.integers(0, 19))
    if k < 2:
        return draw(st.sampled_from(VALID))
    if mode == "single" and k < 5:
        # the plain name of a folder next to the root (or the root's own name)
        return draw(st.sampled_from(SOLO_SIBLINGS + (SOLO_ID,)))
    if k < 8:
        return draw(st.sampled_from(CURATED))
    toks = draw(st.lists(st.sampled_from(TOKENS), min_size=1, max_size=6))
    if draw(st.integers(0, 24)) == 0:
        toks.append(draw(st.sampled_from(YAML_TOKENS)))
    return "".join(toks)


# separators with which the ids of an earlier request are joined into ONE id (what a cache key / log line / joined form of
# a served list looks like); every such string names no configuration directory of the root
JOINERS = ["/", "/", "/", "-", "-", ",", " ", "\\", "//", ";", ":", "|", "+", "_", ".", "", "%2f", "∕", ", ", "', '"]


def _req_ids(req):
    if "config_ids" in req:
        return [i for i in req["config_ids"] if isinstance(i, str)]
    return [req["config_id"]] if isinstance(req.get("config_id"), str) and req["config_id"] else []


@st.composite
def _derived_request(draw, earlier, mode="multi"):
    """A request whose id is the ids of an earlier request of the case joined by a separator (same order, sometimes
    reversed): alone (config_id / one-element list) or next to a valid name."""
    src = draw(st.sampled_from(earlier))
    if draw(st.integers(0, 5)) == 0:
        src = src[::-1]
    joined = draw(st.sampled_from(JOINERS)).join(src)
    form = draw(st.integers(0, 5))
    if form < 3:
        return {"config_id": joined}
    if form == 3:
        return {"config_ids": [joined]}
    name = SOLO_ID if mode == "single" else draw(st.sampled_from(VALID))
    return {"config_ids": [joined, name] if form == 4 else [name, joined]}


@st.composite
def _id_request(draw, mode="multi"):
    k = draw(st.integers(0, 21))
    if k == 0:
        return draw(st.sampled_from([{}, {"config_id": None}, {"config_id": ""}, {"config_ids": []}, {"config_ids": [""]}, {"config_id": "."}]))
    if k >= 20:
        # a combination of configurations that the server serves (multi-config root), the one served id in a list (single)
        if mode == "single":
            return {"config_ids": [SOLO_ID] * draw(st.sampled_from([1, 1, 2]))}
        return {"config_ids": draw(st.lists(st.sampled_from(VALID), min_size=2, max_size=3))}
    if k < 12:
        return {"config_id": draw(_id(mode))}
    n = draw(st.sampled_from([1, 2, 2, 3]))
    ids = []
    for _ in range(n):
        ids.append(draw(st.sampled_from(VALID)) if draw(st.booleans()) else draw(_id(mode)))
    return {"config_ids": ids}


TIDS = [
    "t" * 16,
    "t" * 17,
    "t" * 16 + "-x",
    "T" * 16,
    "thread-abcdefghij",
    "thread-abcdefghijk",
    "thread-abcdefghiJ",
    "0123456789abcdef",
    "0123456789abcdef0",
    "thread-thread-0123456789abcdef",
    "../../../../etc/passwd",
    "ｔhread-0123456789",
    "x" * 255,
    "x" * 254,
    "thread-0123456789 ",
]
CONTENT = ["hi", "hello", "", "a", "b", "ok", "what can you do?", "é你", 'q"uo\\te', "R:000000000000"]
ROLES = ["user", "user", "user", "assistant", "system", "tool"]


BOOM = "@@BOOM@@"  # a turn whose last new message has this content makes the (stubbed) generation raise


@st.composite
def _message(draw):
    m = {"role": draw(st.sampled_from(ROLES)), "content": draw(st.one_of(st.sampled_from(CONTENT), st.sampled_from(CONTENT), st.text(max_size=8)))}
    if m["content"] == BOOM:
        # Hypothesis harvests string constants of this module for st.text(): the failure marker is reserved for turns
        # that are scripted (and modelled) as failing
        m["content"] = "boom"
    if draw(st.integers(0, 7)) == 0:
        m[draw(st.sampled_from(["name", "n", "meta"]))] = draw(st.one_of(st.integers(-5, 5), st.sampled_from(["x", None, True]), st.just({"k": [1, "v"]})))
    return m


# datastore read faults: for exactly one turn DataStore.get for the thread of that turn raises, or returns something that is
# not the stored JSON list (text that is not JSON, a truncated copy of the stored value, JSON that is not a list)
FAULT_EXC = {"ConnectionError": ConnectionError, "TimeoutError": TimeoutError, "OSError": OSError, "RuntimeError": RuntimeError, "KeyError": KeyError, "ValueError": ValueError}
FAULT_GARBAGE = ["<html><body>502 Bad Gateway</body></html>", "{", '[{"role": "user", "content": "hi"', "[{'role': 'user', 'content': 'hi'}]", "\x00\x01", "undefined", "[] []", "ERR timeout"]
FAULT_NOT_A_LIST = ["null", "42", '"x"', '{"role": "user", "content": "hi"}', "true"]


@st.composite
def _read_fault(draw):
    k = draw(st.integers(0, 7))
    if k < 4:
        return {"kind": "raise", "exc": draw(st.sampled_from(sorted(FAULT_EXC)))}
    if k < 6:
        return {"kind": "garbage", "value": draw(st.sampled_from(FAULT_GARBAGE))}
    if k == 6:
        return {"kind": "truncated", "keep": draw(st.integers(1, 99))}
    return {"kind": "not-a-list", "value": draw(st.sampled_from(FAULT_NOT_A_LIST))}


@st.composite
def _threads_case(draw):
    tids = draw(st.lists(st.sampled_from(TIDS), min_size=3, max_size=3, unique=True))
    ops = []
    for _ in range(draw(st.integers(3, 24))):
        k = draw(st.integers(0, 9))
        tid = None if k == 0 else draw(st.integers(0, 2))
        cfg = draw(st.sampled_from(["cfgA", "cfgA", "cfgB", ["cfgA", "cfgB"]]))
        msgs = draw(st.lists(_message(), min_size=1, max_size=3))
        ctx = draw(st.sampled_from([{"user_name": "v"}, {"a": 1, "b": [2]}])) if draw(st.integers(0, 11)) == 0 else None
        op = {"tid": tid, "cfg": cfg, "messages": msgs, "context": ctx}
        if tid is not None and ctx is None and draw(st.integers(0, 6)) == 0:
            op["messages"] = msgs + [{"role": "user", "content": BOOM}]
            op["fail"] = True
        if tid is not None and ctx is None and not op.get("fail") and draw(st.integers(0, 3)) == 0:
            # a turn on ANOTHER thread is served completely while this turn is being generated
            other = draw(st.sampled_from([t for t in range(3) if t != tid]))
            op["during"] = {"tid": other, "cfg": draw(st.sampled_from(["cfgA", "cfgB"])), "messages": draw(st.lists(_message(), min_size=1, max_size=2))}
            rk = draw(st.integers(0, 9))
            if rk < 3:
                op["during"]["reply"] = "empty" if rk < 2 else "fixed"
        if tid is not None and ctx is None and not op.get("fail") and "during" not in op and draw(st.integers(0, 5)) == 0:
            # the datastore cannot be read for this thread during this turn (writing keeps working)
            op["read_fault"] = draw(_read_fault())
        if not op.get("fail"):
            # what the rails answer on this turn: 1/5 an EMPTY assistant message, 1/10 a fixed bot text, else the digest
            rk = draw(st.integers(0, 9))
            if rk < 3:
                op["reply"] = "empty" if rk < 2 else "fixed"
        ops.append(op)
    return {"part": "threads", "tids": tids, "ops": ops}


@st.composite
def _case(draw):
    if draw(st.integers(0, 10)) == 0:
        return draw(_threads_case())
    # server mode: the root holds configuration folders (multi) or the root itself is the configuration (single)
    mode = "single" if draw(st.integers(0, 2)) == 0 else "multi"
    reqs = []
    for n in range(draw(st.integers(1, 4))):
        # ids of an earlier request (preferably a list of several ids) joined into one id
        earlier = [i for i in map(_req_ids, reqs) if len(i) >= 2] or [i for i in map(_req_ids, reqs) if i]
        if earlier and draw(st.integers(0, 3)) == 0:
            reqs.append(draw(_derived_request(earlier, mode)))
        else:
            reqs.append(draw(_id_request(mode)))
    return {"part": "ids", "mode": mode, "requests": reqs, "strict": True}


def strategy(tier):
    return _case()


def _reply_kind_cases():
    """Turns whose reply is empty / a fixed text, on threads with and without history, alone, in a row, interleaved over
    two threads, as the overlapped turn and as the turn that is overlapped, and next to a datastore read fault."""
    m = lambda s: [{"role": "user", "content": s}]  # noqa: E731
    tids = ["t" * 16, "t" * 17, "thread-abcdefghij"]

    def seq(spec, texts=None):
        ops = []
        for i, (t, rk) in enumerate(spec):
            o = {"tid": t, "cfg": "cfgA" if i % 3 else "cfgB", "messages": m(texts[i] if texts else f"m{i}"), "context": None}
            if rk:
                o["reply"] = rk
            ops.append(o)
        return ops

    for rk in REPLY_KINDS:
        # two threads in turn, each with a turn of that kind on a thread with history; then on fresh threads; then in a row
        yield {"part": "threads", "tids": tids, "ops": seq([(0, None), (1, None), (0, rk), (1, None), (0, None), (1, rk)])}
        yield {"part": "threads", "tids": tids, "ops": seq([(0, rk), (1, rk), (0, None), (2, None), (1, None), (2, rk), (None, rk), (2, None)])}
        yield {"part": "threads", "tids": tids, "ops": seq([(0, None), (0, rk), (0, rk), (1, rk), (0, None), (1, None), (0, rk)], ["hi", "", "hi", "hi", "", "a", "hi"])}
        # the turn that arrives while another one is generated / the turn during which another one arrives
        ops = seq([(0, None), (1, None), (0, None), (1, rk), (0, None), (1, None)])
        ops[2]["during"] = {"tid": 1, "cfg": "cfgA", "messages": m("d2"), "reply": rk}
        ops[3]["during"] = {"tid": 2, "cfg": "cfgB", "messages": m("d3")}
        yield {"part": "threads", "tids": tids, "ops": ops}
        # next to a turn whose thread cannot be read
        ops = seq([(0, None), (1, rk), (0, rk), (1, None), (0, None), (1, rk)])
        ops[3]["read_fault"] = {"kind": "raise", "exc": "ConnectionError"}
        ops[5]["read_fault"] = {"kind": "garbage", "value": "{"}
        yield {"part": "threads", "tids": tids, "ops": ops}
    yield {"part": "threads", "tids": ["x" * 255, "x" * 254, "T" * 16], "ops": seq([(0, "empty"), (1, "fixed"), (0, "fixed"), (1, "empty"), (2, "empty"), (0, None), (1, None), (2, "fixed")])}


def enumerate_cases(tier):
    # reply kinds of the thread leg first (few and cheap)
    yield from _reply_kind_cases()
    # every curated id alone, after a valid load, and inside a list behind a valid name
    for cid in CURATED:
        yield {"part": "ids", "requests": [{"config_id": cid}], "strict": True}
        yield {"part": "ids", "requests": [{"config_id": "cfgA"}, {"config_ids": ["cfgA", cid]}, {"config_ids": [cid, "cfgB"]}], "strict": True}
    yield {"part": "ids", "requests": [{"config_ids": ["cfgA", "cfgB"]}, {"config_ids": ["cfgB", "cfgA"]}, {"config_id": "cfgB"}, {"config_id": "cfgB"}], "strict": True}
    # every joined form of a combination, before and after that combination was served
    for lst in (["cfgA", "cfgB"], ["cfgB", "cfgA"], ["cfgA", "cfgB", "cfgA"], ["cfgA", "cfgA"]):
        for j in sorted(set(JOINERS)):
            s = j.join(lst)
            yield {"part": "ids", "requests": [{"config_id": s}, {"config_ids": lst}, {"config_id": s}, {"config_ids": [s]}, {"config_ids": [s, "cfgA"]}, {"config_id": j.join(lst[::-1])}, {"config_ids": lst}], "strict": True}
    # single-config root: every curated id and every sibling folder name alone (config_id and one-element list), and
    # around loads of the root's own id
    for cid in CURATED + list(SOLO_SIBLINGS) + ["", "."]:
        yield {"part": "ids", "mode": "single", "requests": [{"config_id": cid}, {"config_ids": [cid]}], "strict": True}
        yield {"part": "ids", "mode": "single", "requests": [{"config_id": SOLO_ID}, {"config_id": cid}, {"config_ids": [SOLO_ID, cid]}, {"config_ids": [cid, SOLO_ID]}, {"config_ids": [SOLO_ID]}], "strict": True}
    # a fixed interleaving on ids sharing their first 16 characters
    m = lambda s: [{"role": "user", "content": s}]  # noqa: E731
    for tids in (["t" * 16, "t" * 17, "T" * 16], ["x" * 255, "x" * 254, "thread-abcdefghij"]):
        ops = [{"tid": i % 3, "cfg": "cfgA" if i % 2 else "cfgB", "messages": m("hi"), "context": None} for i in range(7)]
        yield {"part": "threads", "tids": tids, "ops": ops}
        ops2 = []
        for i in range(8):
            o = {"tid": i % 2, "cfg": "cfgA", "messages": m(f"m{i}"), "context": None}
            if i in (2, 5):
                o["messages"] = o["messages"] + [{"role": "user", "content": BOOM}]
                o["fail"] = True
            ops2.append(o)
        yield {"part": "threads", "tids": tids, "ops": ops2}
    # every kind of datastore read fault on a thread with history / on a fresh thread, between turns on two threads
    faults = [{"kind": "raise", "exc": x} for x in sorted(FAULT_EXC)] + [{"kind": "garbage", "value": v} for v in FAULT_GARBAGE]
    faults += [{"kind": "truncated", "keep": k} for k in (1, 50, 99)] + [{"kind": "not-a-list", "value": v} for v in FAULT_NOT_A_LIST]
    for f in faults:
        ops3 = [{"tid": t, "cfg": "cfgA", "messages": m(f"m{i}"), "context": None} for i, t in enumerate([0, 1, 0, 0, 1, 0, 2, 2])]
        ops3[3]["read_fault"] = f
        ops3[6]["read_fault"] = f
        yield {"part": "threads", "tids": ["t" * 16, "t" * 17, "thread-abcdefghij"], "ops": ops3}


# ---------------------------------------------------------------------------------------------
# part 1


def _expand(e, s):
    return s.replace("{BASE}", e.base).replace("{ROOT}", e.root).replace("{PARENT}", os.path.dirname(e.root))


LOOKALIKES = "․．／∕⁄⧸。Ａ"


def _features(raw):
    f = []
    if "/" in raw or "\\" in raw:
        f.append("separator")
    if ".." in raw:
        f.append("dotdot")
    elif "." in raw:
        f.append("dot")
    if "%" in raw:
        f.append("percent-encoding")
    if any(c in raw for c in LOOKALIKES):
        f.append("unicode-lookalike")
    if raw.startswith(("/", "{BASE}", "{ROOT}", "{PARENT}")):
        f.append("absolute")
    return f


def _inside(e, path):
    rp = os.path.realpath(path)
    return rp == e.root or rp.startswith(e.root + os.sep)


def _check_confinement(e, what, paths, touched):
    for p in paths:
        if not isinstance(p, str) or not _inside(e, p):
            raise Violation("outside-root-load", f"{what}: RailsConfig.from_path was asked to load {p!r} (resolves to {os.path.realpath(p)!r}), root is {e.root!r}")
    if touched:
        raise Violation("outside-root-access", f"{what}: files outside the root were read: {touched[:3]}")


def _is_fixed_reply(status, js):
    if status != 200 or not isinstance(js, dict):
        return False
    msgs = js.get("messages")
    if not (isinstance(msgs, list) and len(msgs) == 1 and isinstance(msgs[0], dict)):
        return False
    c = msgs[0].get("content")
    return msgs[0].get("role") == "assistant" and isinstance(c, str) and c.startswith(FIXED_HEAD) and c.endswith(FIXED_TAIL)


def _ids_case(e, case):
    strict = bool(case.get("strict"))
    single = case.get("mode", "multi") == "single"
    own = os.path.basename(e.root)  # single-config mode: the name of the root folder is the one id that is served
    served = {}  # cache key -> id list, for every request that was answered by rails in this case
    earlier_lists, served_lists = [], []  # id lists (2+ ids, as written in the case) requested / answered by rails so far: labels only
    labels, skips = [], []
    nt = False
    view = []
    for n, req in enumerate(case["requests"]):
        body = {"messages": [dict(m) for m in HI]}
        raw_ids = None
        if "config_id" in req:
            body["config_id"] = None if req["config_id"] is None else _expand(e, req["config_id"])
            raw_ids = [req["config_id"]] if req["config_id"] not in (None, "") else None
        elif "config_ids" in req:
            body["config_ids"] = [_expand(e, i) for i in req["config_ids"]]
            raw_ids = list(req["config_ids"]) or None
        ids = None if raw_ids is None else [_expand(e, i) for i in raw_ids]
        status, js, paths, calls, touched = _post(e, body)
        what = f"request #{n} {json.dumps(req, ensure_ascii=True)}" + (f" [single-config root {e.root!r}]" if single else "")
        _check_confinement(e, what, paths, touched)
        feats = {f for i in (raw_ids or []) for f in _features(i)}
        if single and any(i in SOLO_SIBLINGS for i in (raw_ids or [])):
            feats.add("name-of-folder-next-to-single-root")
        for i in raw_ids or []:
            # the id is the ids of an earlier request joined into one string (label only; the verdict below does not use it)
            if any(i == j.join(lst) for lst in earlier_lists for j in set(JOINERS)):
                feats.add("joined-form-of-earlier-ids")
            if any(i == j.join(lst) for lst in served_lists for j in set(JOINERS)):
                feats.add("joined-form-of-served-combination")
        feats = sorted(feats)
        if feats:
            nt = True
        labels += ["id:" + f for f in feats] or ["id:plain"]
        if "config_ids" in req:
            labels.append("config_ids-list")
        answered = status == 200 and isinstance(js, dict) and len(calls) == 1 and js.get("messages") == [_reply_for(calls[0])]
        key = None if ids is None else "-".join(ids)
        if ids is None:
            outcome = "no-id(confinement only)"
        elif any(i in ("", ".") for i in ids):
            outcome = "root-itself(confinement only)"
        elif single and len(ids) > 1 and all(i == own for i in ids):
            outcome = "single-id-repeated(confinement only)"  # combining the one configuration with itself: not specified
        elif (ids == [own]) if single else all(i in VALID for i in ids):
            outcome = "accepted"
            expected = [e.root] if single else [os.path.join(e.root, i) for i in ids]
            got = [os.path.normpath(p) for p in paths]
            cached = served.get(key) == ids
            if not (got == expected or (cached and got == [])):
                raise Violation("wrong-config-loaded", f"{what}: loaded {paths!r}, expected {expected!r}" + (" or nothing (cached)" if cached else ""))
            if not answered or calls[0] != HI:
                raise Violation("accepted-not-served", f"{what}: valid ids but HTTP {status} {str(js)[:160]} (rails calls: {len(calls)})")
            if cached and got == []:
                labels.append("served-from-cache")
        else:
            outcome = "rejected"
            excluded = None
            if key in served and served[key] != ids:
                excluded = "cache-key-collision"
            elif any(i.endswith((".yml", ".yaml")) for i in ids):
                excluded = "yaml-suffix-id"
            if not _is_fixed_reply(status, js) or calls:
                if excluded and not strict:
                    skips.append(excluded)
                    outcome = "excluded:" + excluded
                else:
                    raise Violation(
                        excluded or "not-rejected",
                        f"{what}: ids {ids!r} do not name " + (f"the single configuration {own!r} of the root" if single else "configuration directories of the root") + ", expected the fixed "
                        f"'Could not load ...' reply, got HTTP {status} {str(js)[:200]} (rails ran: {len(calls)}, loaded: {paths!r})",
                    )
            elif paths:
                labels.append("rejected-after-from_path")
        if answered and key is not None:
            served.setdefault(key, ids)
            if len(raw_ids) >= 2 and raw_ids not in served_lists:
                served_lists.append(list(raw_ids))
        if raw_ids and len(raw_ids) >= 2 and raw_ids not in earlier_lists:
            earlier_lists.append(list(raw_ids))
        labels.append("outcome:" + outcome)
        view.append({"request": req, "status": status, "reply": (js or {}).get("messages", js) if isinstance(js, dict) else js, "loaded": [p.replace(e.base, "{BASE}") for p in paths]})
    labels.append("mode:single-config-root" if single else "mode:multi-config-root")
    res = ok(nt=nt, labels=sorted(set(labels)), view={"part": "ids", "mode": "single" if single else "multi", "steps": view[:4]}, counters={"id_requests": len(case["requests"])})
    if skips:
        res["skip"] = "excluded feature: " + skips[0]
    return res


# ---------------------------------------------------------------------------------------------
# part 2


def _stored(e):
    vals = []
    for k, v in e.store.data.items():
        vals.append(json.loads(v))
    return sorted(vals, key=lambda x: json.dumps(x, sort_keys=True))


def _model_values(model):
    return sorted([v for v in model.values() if v], key=lambda x: json.dumps(x, sort_keys=True))


def _threads_run(e, case):
    tids = case["tids"]
    model = {t: [] for t in tids}
    order = []
    n_thread_reqs = 0
    n_failed = 0
    n_overlaps = 0
    n_faults = n_faults_hist = 0
    fault_kinds = set()
    reply_kinds = set()
    probes = [{"tid": i, "cfg": "cfgA", "messages": [{"role": "user", "content": f"probe-{i}"}], "context": None, "probe": True} for i in range(3)]
    for n, op in enumerate(list(case["ops"]) + probes):
        tid = None if op["tid"] is None else tids[op["tid"]]
        body = {"messages": json.loads(json.dumps(op["messages"]))}
        if isinstance(op["cfg"], list):
            body["config_ids"] = list(op["cfg"])
        else:
            body["config_id"] = op["cfg"]
        if tid is not None:
            body["thread_id"] = tid
        if op.get("context") is not None:
            body["context"] = op["context"]
        during = op.get("during")
        if during:
            e.nested = {"messages": json.loads(json.dumps(during["messages"])), "config_id": during["cfg"], "thread_id": tids[during["tid"]], "_reply": during.get("reply")}
            e.nested_result = None
        fault = op.get("read_fault") if tid is not None else None
        if fault:
            raw = e.store.data.get("thread-" + tid)
            f = {"key": "thread-" + tid, "kind": fault["kind"], "exc": fault.get("exc"), "value": fault.get("value")}
            if fault["kind"] == "truncated":
                full = raw if raw is not None else "[]"
                f["value"] = full[: min(len(full) - 1, max(1, len(full) * fault["keep"] // 100))]
            e.fault, e.fault_hits = f, 0
        kind = op.get("reply")  # what the scripted rails answer on this turn (None: digest of what they received)
        e.reply_kind = kind
        try:
            status, js, paths, calls, touched = _post(e, body)
        finally:
            e.fault = None
            e.reply_kind = None
        for k in (kind, (during or {}).get("reply")):
            if k:
                reply_kinds.add(k)
        what = f"step #{n} thread={tid!r:.40} cfg={op['cfg']!r} new={op['messages']!r}" + (f" context={op['context']!r}" if op.get("context") else "")
        if fault:
            # The datastore could not be read for this thread during this turn. The statement leaves two outcomes: the turn
            # does not take place (no reply for it, the stored thread stays as it is), or it takes place on exactly the
            # stored thread + the new messages and that list + the reply is stored. Never: a turn on other messages, a
            # stored thread that is neither of the two, a change of another thread.
            _check_confinement(e, what, paths, touched)
            what += f" [datastore read fault for this thread during this turn: {json.dumps(fault)}, thread held {len(model[tid])} messages]"
            n_faults += 1
            if e.fault_hits:
                fault_kinds.add(fault["kind"])
                if model[tid]:
                    n_faults_hist += 1
            else:
                fault_kinds.add("never-read")
            expected = model[tid] + op["messages"]
            for c in calls:
                if c != expected:
                    raise Violation("wrong-history-used", f"{what}: rails received {len(c)} messages {json.dumps(c)[:300]} but stored thread + new messages is {len(expected)} messages {json.dumps(expected)[:300]}")
            replied = status == 200 and isinstance(js, dict) and len(calls) == 1 and js.get("messages") == [_reply_for(calls[0], kind)]
            try:
                now = json.loads(e.store.data.get("thread-" + tid, "[]"))
            except ValueError:
                now = {"not-json": e.store.data.get("thread-" + tid)}
            want = expected + [_reply_for(expected, kind)] if replied else model[tid]
            if now != want:
                raise Violation(
                    "wrong-thread-store",
                    f"{what}: the turn " + ("was answered with its reply" if replied else f"did not take place (HTTP {status} {str(js)[:120]}, rails calls {len(calls)})")
                    + f" but the thread now holds {json.dumps(now)[:300]}, expected {json.dumps(want)[:300]}",
                )
            if replied:
                n_thread_reqs += 1
                order.append(op["tid"])
            model[tid] = want
            got, exp = _stored(e), _model_values(model)
            if got != exp:
                raise Violation("wrong-thread-store", f"{what}: another thread changed: datastore {json.dumps(got)[:300]} vs model {json.dumps(exp)[:300]}")
            continue
        if during:
            tid2 = tids[during["tid"]]
            what += f" [while it was generated, a turn on thread {tid2!r:.40} with {during['messages']!r} was served]"
            if len(calls) != 2 or e.nested_result is None or e.nested_result[0] != 200:
                raise Violation("turn-failed", f"{what}: overlapped turn: rails calls {len(calls)}, inner result {str(e.nested_result)[:200]}")
            inner_received = calls.pop(1)
            exp2 = model[tid2] + during["messages"]
            if inner_received != exp2:
                raise Violation("wrong-history-used", f"{what}: the overlapped turn received {json.dumps(inner_received)[:300]} but its stored thread + new messages is {json.dumps(exp2)[:300]}")
            reply2 = _reply_for(inner_received, during.get("reply"))
            if not isinstance(e.nested_result[1], dict) or e.nested_result[1].get("messages") != [reply2]:
                raise Violation("wrong-reply", f"{what}: the overlapped turn answered {str(e.nested_result[1])[:200]}, its reply is {reply2!r}")
            model[tid2] = inner_received + [reply2]
            n_thread_reqs += 1
            n_overlaps += 1
        _check_confinement(e, what, paths, touched)
        if op.get("fail"):
            # generation failed: nothing is said about the reply or about what is stored for THIS thread, but the turn
            # must have been attempted with stored thread + new messages, other threads must be untouched, and the next
            # turn must again start from whatever the datastore now holds for this thread
            n_failed += 1
            if len(calls) == 1 and calls[0] != model[tid] + op["messages"]:
                raise Violation("wrong-history-used", f"{what} (failing turn): rails received {json.dumps(calls[0])[:300]} but stored thread + new messages is {json.dumps(model[tid] + op['messages'])[:300]}")
            model[tid] = json.loads(e.store.data.get("thread-" + tid, "[]"))
            got, exp = _stored(e), _model_values(model)
            if got != exp:
                raise Violation("wrong-thread-store", f"{what} (failing turn): another thread changed: datastore {json.dumps(got)[:300]} vs model {json.dumps(exp)[:300]}")
            continue
        if status != 200 or len(calls) != 1 or not isinstance(js, dict):
            raise Violation("turn-failed", f"{what}: HTTP {status} {str(js)[:200]}, rails calls {len(calls)}")
        received = calls[0]
        reply = _reply_for(received, kind)
        if js.get("messages") != [reply]:
            raise Violation("wrong-reply", f"{what}: response {str(js)[:200]} is not the reply {reply!r} produced for this turn")
        if tid is None:
            pass  # nothing is said about requests without thread id, except that they must not touch a thread
        else:
            n_thread_reqs += 1
            order.append(op["tid"])
            if op.get("context") is None:
                expected = model[tid] + op["messages"]
                if received != expected:
                    raise Violation(
                        "wrong-history-used",
                        f"{what}: rails received {len(received)} messages {json.dumps(received)[:300]} but stored thread + new messages is "
                        f"{len(expected)} messages {json.dumps(expected)[:300]}",
                    )
            model[tid] = received + [reply]
        got, exp = _stored(e), _model_values(model)
        if got != exp:
            raise Violation(
                "wrong-thread-store",
                f"{what}: datastore holds {len(got)} thread(s) {json.dumps(got)[:400]} but the model says {len(exp)} thread(s) {json.dumps(exp)[:400]}",
            )
    # interleaved = some thread is used again after a different one
    inter = any(order[i] != order[i + 1] and order[i] in order[i + 2:] for i in range(len(order) - 2)) if len(order) >= 3 else False
    real = [o for o in case["ops"] if o["tid"] is not None]
    nt = len(real) >= 3 and len({o["tid"] for o in real}) >= 2 and inter
    labels = ["part:threads", "threads-used:%d" % len({o["tid"] for o in real})]
    if inter:
        labels.append("interleaved")
    if any(o["tid"] is None for o in case["ops"]):
        labels.append("no-thread-request")
    if any(o.get("context") for o in case["ops"]):
        labels.append("context-request")
    if n_failed:
        labels.append("failing-turn")
    if n_overlaps:
        labels.append("overlapping-turns-on-two-threads")
    labels += ["datastore-read-fault:" + k for k in sorted(fault_kinds)]
    labels += ["reply:" + {"empty": "empty-content", "fixed": "fixed-text"}[k] for k in sorted(reply_kinds)]
    seen_empty = set()
    for o in case["ops"]:
        if o["tid"] is not None and o["tid"] in seen_empty:
            labels.append("empty-reply-then-thread-used-again")
            break
        if o.get("reply") == "empty" and o["tid"] is not None and not o.get("read_fault"):
            seen_empty.add(o["tid"])
        if (o.get("during") or {}).get("reply") == "empty":
            seen_empty.add(o["during"]["tid"])
    if any((o.get("during") or {}).get("reply") == "empty" for o in case["ops"]):
        labels.append("empty-reply-on-overlapping-turn")
    if n_faults_hist:
        labels.append("datastore-read-fault-on-thread-with-history")
    if any(isinstance(o["cfg"], list) for o in case["ops"]):
        labels.append("config_ids-on-thread")
    pre = {t[:16] for t in tids}
    if len(pre) < 3:
        labels.append("tids-share-16-prefix")
    view = {
        "part": "threads",
        "tids": [t[:24] + ("..." if len(t) > 24 else "") for t in tids],
        "ops": [f"{o['tid']}:{o['cfg']}:{[m['content'] for m in o['messages']]}" for o in case["ops"][:10]],
        "final_lengths": {t[:24]: len(v) for t, v in model.items()},
    }
    return ok(nt=nt, labels=labels, view=view, counters={"thread_requests": n_thread_reqs + 0, "thread_steps": len(case["ops"]) + 3})


def prop(case):
    e = _env()
    if case["part"] == "ids":
        _reset(e, "single" if case.get("mode", "multi") == "single" else "multi")
        return _ids_case(e, case)
    _reset(e)
    return _threads_run(e, case)


def known(case, violation):
    # proposed ids for the two excluded features (effective only if listed open in known_findings.json)
    if violation.kind == "cache-key-collision":
        return "C20-F13"
    if violation.kind == "yaml-suffix-id":
        return "C20-F14"
    return None
