"""C16 - generation options run exactly the selected rail categories (Colang 1.0).

Domain : v1 configuration with 0-2 input rails, 0-2 output rails (all of the block-or-rewrite shape, so every rail can
         accept / reject / rewrite), 0-1 retrieval rail and dialog rails;  ALL 16 subsets of {input, dialog, retrieval,
         output} x 2 spellings of the `rails` option (list of names / dict of booleans) x every effective verdict
         vector over the selected rails - this table is enumerated completely (`enumerate_cases`) for the main
         configuration (2 input, 1-2 output, 1 retrieval rail) and, in one spelling, for the family SHAPES: every other
         pair of rail counts (a selected category may have NO rail configured) and the configurations in which ONE rail
         flow is listed in several places - in rails.input.flows and rails.output.flows, twice within one category,
         or both (the loader accepts all of these; such a flow tells its direction from the documented context
         variable $triggered_output_rail).  User / bot texts and dialog routes vary over a pool in the table and are
         drawn by Hypothesis in the sampled part, which also draws rail counts and the flow shared by each slot.
         A bot message is supplied (last message, role assistant) whenever dialog is off and output is on.
Oracle : reference table written from docs/user_guides/advanced/generation-options.md and the statement:
           * no rail action of an unselected category is ever invoked; selected input rails run in order on the text
             left by their predecessors until the first reject;
           * dialog unselected  -> 0 LLM calls; reply = refusal | (rewritten) user text (output off)
                                                    | refusal | (rewritten) supplied bot message (output on);
           * dialog selected    -> the LLM is called (unless the input was blocked); the LLM text passes the output
             chain iff `output` is selected;
           * log.activated_rails lists, for the input/output categories, exactly the rails that ran, in order, with
             `stop` on exactly the blocking rail; no other entry has `stop` (a flow that ran in two places is listed
             once per place, under its category, each entry with its own `stop`).
Not asserted (DESIGN 4/C16 S): retrieval rails running when `retrieval` is selected (they run inside bot-message
         generation, also for refusals) - only that they never run when it is not; per-rail name lists in the
         options (documented as unsupported) are not generated.
"""
import itertools

from hypothesis import strategies as st

from vf import fakes, pipeline
from vf.core import Violation, ok
from vf.fakes import GENERATION_TASKS, PREDEF, refusal_text

PID = "C16"
LEVEL = "exploration"
CASE_TIMEOUT = 60
WALL = {"quick": 170, "thorough": 1500}
CATS = ["input", "dialog", "retrieval", "output"]
SUPPLIED_K = 9  # the supplied bot message carries the marker LM0C9Z so that output rails treat it as checked material
RULE = (
    "Colang 1.0 config: 0-2 input rails + 0-2 output rails (each can accept/reject/rewrite) + 0-1 retrieval rail + dialog rails; "
    "a rail flow may be listed in several places (in rails.input.flows AND rails.output.flows, twice within one category, or both). "
    "Enumerated completely: (a) main configuration 2 input + {1,2} output + 1 retrieval rail: all 16 subsets of "
    "{input,dialog,retrieval,output} x {list, dict} spelling of options.rails x every effective verdict vector of the selected "
    "categories (a rail after a rejecting one is not varied; unselected categories get one vector containing a reject and a "
    "rewrite) = 768 rows; (b) family SHAPES = 8 further rail-count shapes (every (n_in, n_out) in {0,1,2}^2, with and without a "
    "retrieval rail, so a selected category can have no rail at all) + 9 same-flow shapes (one flow in input and output, crossed "
    "pairs, twice in input, twice in output, one flow in all four places), each x 16 subsets x every effective verdict vector, "
    "spelling alternating = 1632 rows; texts/routes cycle over a pool; every 4th row is also judged after a call with all rails, "
    "every 3rd eligible row with an empty supplied bot message. Sampled part: the same row space with Hypothesis-drawn rail "
    "counts (0-2, 0-2, 0-1), per-slot flow sharing, hostile user texts, bot texts, routes, partial-dict spelling and "
    "enable_rails_exceptions. Non-trivial = subset != all four and (a reject or rewrite among the verdicts of a selected "
    "category, or a selected input/output category without any rail, or one flow that ran in two places); distinct by the whole case."
)
ASSUMPTIONS = [
    "the supplied bot message is passed as a last message with role `assistant` (the code path tests/test_generation_options.py uses; the docs say `bot`)",
    "rails option values are booleans / category names only (per-rail name lists are documented as unsupported)",
    "a bot message is supplied exactly when dialog is unselected and output is selected",
    "with dialog selected the reply text itself is asserted only through markers (which text reached the reply), not character by character",
    "a flow listed in several places decides whether it checks $user_message or $bot_message by the documented context variable $triggered_output_rail (docs/user_guides/detailed_logging), as a user-written two-way rail would; the harness attributes its k-th run per direction and call to its k-th listed place in that category (routes with two LLM messages per call are not generated here)",
    "listing one flow in several places is accepted by RailsConfig (probed: no validation error, every occurrence runs)",
]
EXHAUSTIVE = True


def budget(tier):
    return 240 if tier == "quick" else 10000


EXT = "c16-same-flow"  # vf.pipeline extension (registered below): rail slots that list one shared flow


def _cfg(n_out, exc=False, n_in=2, n_ret=1, flows=None):
    """flows = {"in": [label | None, ...], "out": [...]}: slots with the same label list the SAME rail flow `vf shared <label>`
    (None = the slot's own flow).  The key (and the pipeline extension) is present only if some slot has a label."""
    cfg = {"v": 1, "in": ["both"] * n_in, "out": ["both"] * n_out, "ret": n_ret, "dialog": True, "exc": exc}
    flows = {cat: (list((flows or {}).get(cat) or []) + [None] * n)[:n] for cat, n in (("in", n_in), ("out", n_out))}
    if any(flows["in"]) or any(flows["out"]):
        cfg["ext"] = EXT
        cfg["flows"] = flows
    return cfg


def _label(cfg, cat, i):
    fl = (cfg.get("flows") or {}).get(cat) or []
    return fl[i] if i < len(fl) else None


def _shared_labels(cfg):
    return sorted({lab for cat in ("in", "out") for lab in (cfg.get("flows") or {}).get(cat, []) if lab})


def _places(cfg, label, cat):
    """Slots of category `cat` that list the shared flow `label`, in configured order."""
    return [i for i in range(len(cfg.get(cat, []))) if _label(cfg, cat, i) == label]


def flow_name(cfg, cat, i):
    """Name under which slot i of the category is listed in config.yml (and must appear in the log)."""
    lab = _label(cfg, cat, i)
    return f"vf shared {lab}" if lab else pipeline.rail_flow_name(cat, i, cfg[cat][i])


def _refusal_slot(cfg, cat, i):
    """A shared flow utters, per direction, the refusal of its first place in that category."""
    lab = _label(cfg, cat, i)
    return _places(cfg, lab, cat)[0] if lab else i


def _shared_branch(cfg, lab, cat):
    first = _places(cfg, lab, cat)[0]
    kind = cfg[cat][first]
    var = "$user_message" if cat == "in" else "$bot_message"
    exc = "InputRailException" if cat == "in" else "OutputRailException"
    res = "$allowed" if kind == "check" else "$vf_checked"
    lines = [
        f'{res} = execute vf_shared_{lab}(direction="{cat}", text={var})',
        f"if not {res}",
        "  if $config.enable_rails_exceptions",
        f'    create event {exc}(message="{fakes.block_message(cat, first, kind)}")',
        "  else",
        f"    bot vf refuse {cat} r{first}",  # defined by the generated configuration for every slot
        "  stop",
    ]
    if kind != "check":
        lines.append(f"{var} = {res}")
    return lines


def _ext_build_config(cfg, colang, yaml_text):
    import yaml

    co = [colang]
    for lab in _shared_labels(cfg):
        dirs = [cat for cat in ("in", "out") if _places(cfg, lab, cat)]
        body = [f"define subflow vf shared {lab}"]
        if dirs == ["in", "out"]:
            # the way a user-written two-way rail finds out what it is checking (see the detailed-logging guide)
            body += ["  if $triggered_output_rail"] + ["    " + ln for ln in _shared_branch(cfg, lab, "out")]
            body += ["  else"] + ["    " + ln for ln in _shared_branch(cfg, lab, "in")]
        else:
            body += ["  " + ln for ln in _shared_branch(cfg, lab, dirs[0])]
        co.append("\n".join(body) + "\n")
    y = yaml.safe_load(yaml_text)
    for cat, word in (("in", "input"), ("out", "output")):
        if cfg.get(cat):
            y["rails"][word] = {"flows": [flow_name(cfg, cat, i) for i in range(len(cfg[cat]))]}
    return "\n".join(co), yaml.safe_dump(y, sort_keys=False)


def _make_shared_action(cfg, lab):
    name = f"vf_shared_{lab}"

    async def shared_action(direction=None, text=None, context=None):
        session, turn = fakes.current()
        cat = "out" if direction == "out" else "in"
        places = _places(cfg, lab, cat)
        # the k-th run of the flow in this direction during this call is its k-th listed place (chains run in order, once per text)
        k = sum(1 for e in session.trace if e["turn"] == turn and e.get("flow") == lab and e["cat"] == cat)
        idx = places[min(k, len(places) - 1)]
        entry = {"rail": f"{cat}{idx}", "cat": cat, "idx": idx, "text": text, "via": "action", "flow": lab}
        if context is not None:
            entry["ctx"] = context.get("user_message" if cat == "in" else "bot_message")
        fakes._enter(name, entry)
        kind = session.rail_kind(cat, idx)
        verdict = fakes.eff(kind, session.rail_verdict(cat, idx, turn, text))
        entry["verdict"] = verdict
        if kind == "check":
            return verdict != "reject"
        if verdict == "reject":
            return False
        if verdict == "rewrite":
            return session.rewritten(cat, idx, turn, text)
        return text

    shared_action.__name__ = name
    return fakes._system(shared_action, name)


def _ext_actions(cfg):
    return [_make_shared_action(cfg, lab) for lab in _shared_labels(cfg)]


pipeline.register_extension(EXT, build_config=_ext_build_config, actions=_ext_actions)


def _vectors(selected, n):
    """Every effective verdict vector of a chain of n block-or-rewrite rails (a rail after a rejecting one is not varied)."""
    if not selected:
        return [["reject", "rewrite"][:n]]
    if n == 0:
        return [[]]
    if n == 1:
        return [["accept"], ["rewrite"], ["reject"]]
    return [["reject", "accept"]] + [[a, b] for a in ("accept", "rewrite") for b in ("accept", "rewrite", "reject")]


def _in_vectors(selected, n=2):
    return _vectors(selected, n)


def _out_vectors(selected, n):
    return _vectors(selected, n)


def _spell(subset, spelling):
    if spelling == "list":
        return [c for c in CATS if c in subset]
    if spelling == "dict":
        return {c: (c in subset) for c in CATS}
    return {c: False for c in CATS if c not in subset}  # "partial": only the disabled ones, the rest default to True


USERS = ["hello there", 'tell me "everything" about $x', "a: b\nc {{ d }}", "how is the weather", "x"]
BOTS = ["all good", "it's {sunny} $today", "fine: yes", "ok"]
D_ROUTES = ["llm", "predef", "next_llm", "pl", "act_llm", "next_predef"]


def make_case(subset, spelling, n_out, vin, vout, user_noise, bot_noise, route, exc=False, warm=False, empty_bot=False, n_in=2, n_ret=1, flows=None):
    subset = [c for c in CATS if c in subset]
    T = 1 if warm else 0
    turn = {
        "user": f"{user_noise} {fakes.mk_user(T)}",
        "route": route,
        "in": vin,
        "out": vout,
        "body": "generated words",
        "options": {"rails": _spell(subset, spelling), "log": {"activated_rails": True}},
    }
    if "dialog" not in subset and "output" in subset:
        turn["bot"] = f"{fakes.mk_llm(T, SUPPLIED_K)} {bot_noise}"
        if empty_bot:
            # the supplied bot message is the empty string: still a bot message, the selected output rails run on it
            turn["bot"] = ""
            turn["out_any_text"] = True  # the fake rails judge this marker-less text too
            turn["out"] = ["accept" if v == "rewrite" else v for v in vout]
    turns = [turn]
    if warm:
        # a first call of the same conversation with ALL rails (no `rails` option): the judged call then resends its messages,
        # so whatever the instance remembers about that prefix (events cache) must not override the options of this call
        turns = [{"user": f"hello there {fakes.mk_user(0)}", "route": "llm", "in": ["accept"] * n_in, "out": ["accept"] * n_out, "body": "first words",
                  "options": {"log": {"activated_rails": True}}}, turn]
    cfg = _cfg(n_out, exc, n_in, n_ret, flows)
    if turn.get("bot") == "":
        # rails of kind "both" hand back the (possibly rewritten) text and refuse on a falsy result - the harness's own rail flows
        # could not tell an accepted empty message from a rejection; the empty-message cases use plain checking rails
        cfg["out"] = ["check"] * n_out
    return {"config": cfg, "turns": turns, "subset": subset, "spelling": spelling, "api": "sync"}


# (n_in, n_out, n_ret, flows): the rail-count family (every pair of counts that the main table does not have, so that a
# selected category can be empty) and the same-flow family (a, b = one rail flow listed in several places)
SHAPES = [
    (0, 0, 0, None),
    (0, 0, 1, None),
    (0, 1, 1, None),
    (0, 2, 0, None),
    (1, 0, 0, None),
    (2, 0, 1, None),
    (1, 1, 1, None),
    (1, 2, 0, None),
    (1, 1, 1, {"in": ["a"], "out": ["a"]}),
    (1, 2, 0, {"in": ["a"], "out": [None, "a"]}),
    (2, 1, 1, {"in": [None, "a"], "out": ["a"]}),
    (2, 2, 1, {"in": ["a", "b"], "out": ["b", "a"]}),
    (2, 0, 0, {"in": ["a", "a"]}),
    (2, 1, 0, {"in": ["a", "a"], "out": [None]}),
    (0, 2, 1, {"out": ["a", "a"]}),
    (1, 2, 1, {"in": [None], "out": ["a", "a"]}),
    (2, 2, 0, {"in": ["a", "a"], "out": ["a", "a"]}),
]


def _rows(subset, spelling, n_in, n_out, n_ret, flows, n):
    """The cases of one table row (n = running row number: picks texts/route and the extra variants)."""
    kw = dict(n_in=n_in, n_ret=n_ret, flows=flows)
    for vin in _in_vectors("input" in subset, n_in):
        for vout in _out_vectors("output" in subset, n_out):
            n += 1
            yield make_case(subset, spelling, n_out, vin, vout, USERS[n % len(USERS)], BOTS[n % len(BOTS)], D_ROUTES[n % len(D_ROUTES)], **kw)
            if n % 4 == 0:
                yield make_case(subset, spelling, n_out, vin, vout, USERS[n % len(USERS)], BOTS[n % len(BOTS)], D_ROUTES[n % len(D_ROUTES)], warm=True, **kw)
            if "dialog" not in subset and "output" in subset and "rewrite" not in vout and n % 3 == 0:
                yield make_case(subset, spelling, n_out, vin, vout, USERS[n % len(USERS)], "", D_ROUTES[0], empty_bot=True, **kw)


def enumerate_cases(tier):
    n = 0
    for r in range(5):
        for subset in itertools.combinations(CATS, r):
            for spelling in ("list", "dict"):
                for n_out in (1, 2):
                    for case in _rows(subset, spelling, 2, n_out, 1, None, n):
                        yield case
                    n += len(_in_vectors("input" in subset, 2)) * len(_out_vectors("output" in subset, n_out))
    # rail counts and same-flow configurations: grouped by configuration (instances are cached per worker)
    for s, (n_in, n_out, n_ret, flows) in enumerate(SHAPES):
        for r in range(5):
            for subset in itertools.combinations(CATS, r):
                for case in _rows(subset, ("list", "dict")[(n + s) % 2], n_in, n_out, n_ret, flows, n):
                    yield case
                n += len(_in_vectors("input" in subset, n_in)) * len(_out_vectors("output" in subset, n_out))


@st.composite
def _case(draw):
    subset = [c for c in CATS if draw(st.booleans())]
    spelling = draw(st.sampled_from(["list", "dict", "partial"]))
    # number of rails per category (0 = the category is configured empty) and, per slot, the flow it lists: its own
    # or one of two shared flows - a label drawn for several slots puts ONE flow in several places
    n_in = draw(st.sampled_from([0, 1, 2, 2]))
    n_out = draw(st.sampled_from([0, 1, 1, 2, 2]))
    n_ret = draw(st.sampled_from([0, 1, 1]))
    flows = None
    if draw(st.booleans()):
        slot = st.sampled_from([None, None, "a", "a", "b"])
        flows = {"in": [draw(slot) for _ in range(n_in)], "out": [draw(slot) for _ in range(n_out)]}
    vin = [draw(pipeline.st_verdict("both")) for _ in range(n_in)]
    vout = [draw(pipeline.st_verdict("both")) for _ in range(n_out)]
    noise = st.one_of(st.text(pipeline.HOSTILE, min_size=1, max_size=14), st.sampled_from(pipeline.INTENT_EXAMPLES))
    bot = st.text(pipeline.TAME + "${}:\"", min_size=1, max_size=14)
    return make_case(subset, spelling, n_out, vin, vout, draw(noise), draw(bot), draw(st.sampled_from(D_ROUTES)), exc=draw(st.sampled_from([False, False, False, True])), warm=draw(st.booleans()), empty_bot=draw(st.integers(0, 5)) == 0,
                     n_in=n_in, n_ret=n_ret, flows=flows)


def strategy(tier):
    return _case()


# ------------------------------------------------------------------------------------------------


def _check(case, obs):
    cfg = case["config"]
    T = len(case["turns"]) - 1  # the judged call (the one before it, if any, is a warm-up call with all rails)
    spec = case["turns"][T]
    o = obs.turns[T]
    if T and obs.turns[0]["raised"]:
        return ok(skip="warm-up call raised: " + str(obs.turns[0]["raised"])[:80], labels=["warm-up-raised"])
    sel = set(case["subset"])
    I, D, R, O = ("input" in sel), ("dialog" in sel), ("retrieval" in sel), ("output" in sel)
    what = f"rails={spec['options']['rails']!r} in={spec['in']} out={spec['out']}" + (f" route={spec['route']}" if D else "") + ((" +bot message" if spec["bot"] else " +EMPTY bot message") if spec.get("bot") is not None else "")
    if o["raised"]:
        if pipeline.EVENT_BUDGET in o["raised"]:
            return ok(skip="v1 runtime gave up: more than 100 new events in one turn", labels=["event-budget-exceeded"])
        if not D:
            # rails-only checking: the statement fixes the reply completely, so "no reply" is a failure of the property
            raise Violation("generate-raised", f"{what}: generate raised {o['raised'][:200]} instead of returning the specified reply")
        raise RuntimeError(f"generate raised: {o['raised']} ({what})")
    labels = ["subset=" + ("+".join(c[0] for c in case["subset"]) or "none"), "spelling=" + case["spelling"], f"in-rails={len(cfg['in'])}", f"out-rails={len(cfg['out'])}", f"ret-rails={cfg['ret']}"]
    for word, on, cat in (("input", I, "in"), ("output", O, "out")):
        if on and not cfg[cat]:
            labels.append(f"{word}-selected-but-no-{word}-rail-configured")
    for lab in _shared_labels(cfg):
        ni, no = len(_places(cfg, lab, "in")), len(_places(cfg, lab, "out"))
        if ni and no:
            labels.append("config:same-flow-in-input-and-output")
        if ni > 1 or no > 1:
            labels.append("config:same-flow-twice-in-" + ("input" if ni > 1 else "output"))
    if T:
        labels.append("after-a-call-with-all-rails")
    if cfg["exc"]:
        labels.append("rails-exceptions")
    text = pipeline.reply_text(o)
    excs = pipeline.reply_exceptions(o)
    trace = o["trace"]

    # 1. unselected categories never run
    for cat, on, name in (("in", I, "input"), ("out", O, "output"), ("ret", R, "retrieval")):
        ran = [e["rail"] for e in trace if e["cat"] == cat]
        if ran and not on:
            raise Violation("unselected-category-ran", f"{what}: {name} rails are not selected but {ran} ran", {"cat": cat})
    gen = [c for c in o["llm"] if c["task"] in GENERATION_TASKS]
    if not D and o["llm"]:
        raise Violation("llm-called-without-dialog", f"{what}: dialog rails are not selected but the LLM was called for {[c['task'] for c in o['llm']]}")
    if not D and any(e["cat"] == "dialog" for e in trace):
        raise Violation("unselected-category-ran", f"{what}: dialog rails are not selected but the custom dialog action ran", {"cat": "dialog"})

    # 2. the input chain
    mi = pipeline.model_input(cfg, spec, T, selected=I)
    prob = pipeline.chain_problem(mi["calls"], [e for e in trace if e["cat"] == "in"], what)
    if prob:
        raise Violation("input-rail-chain", prob)
    last_rw = max([i for i, c in enumerate(mi["calls"]) if c["verdict"] == "rewrite"], default=None)
    user_now = spec["user"] if last_rw is None else fakes.rw_in_text(last_rw, T)
    expected_log = [("input", flow_name(cfg, "in", i), c["verdict"] == "reject") for i, c in enumerate(mi["calls"])]
    out_entries = [e for e in trace if e["cat"] == "out"]
    nt_event = I and any(c["verdict"] != "accept" for c in mi["calls"])

    def expect_refusal(cat, i, exact=True):
        i = _refusal_slot(cfg, cat, i)
        if cfg["exc"]:
            want = fakes.block_message(cat, i, "both")
            typ = "InputRailException" if cat == "in" else "OutputRailException"
            if not any(e.get("type") == typ and e.get("message") == want for e in excs):
                raise Violation("refusal-missing", f"{what}: expected a {typ} with message {want!r}, got {o['reply']!r}"[:500])
        else:
            want = refusal_text(cat, i, "both")
            if (text.strip() != want) if exact else (want not in text):
                raise Violation("refusal-missing", f"{what}: rail {cat}{i} rejected, reply must be its refusal {want!r}, got {o['reply']!r}"[:500])

    if mi["blocked"] is not None:
        labels.append("input-blocked")
        if gen:
            raise Violation("llm-call-after-block", f"{what}: input was blocked but the LLM was called for {[c['task'] for c in gen]}")
        if [e for e in out_entries if fakes.lineage(e["text"])]:
            raise Violation("output-rails-after-block", f"{what}: input was blocked but output rails ran on {[str(e['text'])[:40] for e in out_entries]}")
        expect_refusal("in", mi["blocked"])
    elif not D:
        if not O:
            # input only (or nothing): the reply is the (possibly rewritten) user text
            labels.append("reply=user-text" + ("-rewritten" if mi["final"] != mi["orig"] else ""))
            if text != user_now:
                raise Violation("reply-not-user-text", f"{what}: expected the reply to be the user text {user_now!r}, got {o['reply']!r}"[:500])
        else:
            mo = pipeline.model_output(cfg, spec, T, SUPPLIED_K, selected=True)
            if spec["bot"] == "":
                # no marker to follow: the chain is judged by rail names and by the text each rail was given
                labels.append("empty-supplied-bot-message")
                want_rails = [c["rail"] for c in mo["calls"][: mo["need"]]]
                if [e["rail"] for e in out_entries] != want_rails or any(e["text"] != "" for e in out_entries):
                    raise Violation("output-rail-chain", f"{what}: output rails ran as {[(e['rail'], str(e['text'])[:30]) for e in out_entries]}, expected {want_rails} on the empty message")
                prob = None
            else:
                prob = pipeline.chain_problem(mo["calls"][: mo["need"]], out_entries, what)
            if prob:
                raise Violation("output-rail-chain", prob)
            expected_log += [("output", flow_name(cfg, "out", i), c["verdict"] == "reject") for i, c in enumerate(mo["calls"][: mo["need"]])]
            nt_event = nt_event or any(c["verdict"] != "accept" for c in mo["calls"][: mo["need"]])
            if mo["blocked"] is not None:
                labels.append("bot-message-blocked")
                expect_refusal("out", mo["blocked"])
            else:
                last_rw = max([i for i, c in enumerate(mo["calls"]) if c["verdict"] == "rewrite"], default=None)
                want = spec["bot"] if last_rw is None else fakes.rw_out_text(last_rw, spec["bot"])
                labels.append("reply=bot-message" + ("-rewritten" if mo["final"] != mo["orig"] else ""))
                if text != want:
                    raise Violation("reply-not-bot-message", f"{what}: expected the reply to be {want!r}, got {o['reply']!r}"[:500])
    else:
        # dialog selected: normal pipeline, the LLM is consulted
        if not gen:
            raise Violation("llm-not-called", f"{what}: dialog rails are selected and the input was not blocked, but the LLM was never called")
        generated = pipeline.generated_texts(o)
        in_reply = fakes.lineage(text)
        labels.append("dialog-llm-message" if generated else "dialog-predefined-message")
        for ln in in_reply:
            if ln not in generated:
                raise Violation("foreign-llm-text", f"{what}: reply carries text {ln} that the LLM did not generate in this turn: {text[:100]!r}")
        if not generated and PREDEF["greet"] not in text and PREDEF["help"] not in text:
            raise Violation("reply-unexpected", f"{what}: predefined route, reply {text[:100]!r}")
        for tt, k in generated:
            mo = pipeline.model_output(cfg, spec, tt, k, selected=O)
            entries = [e for e in out_entries if (tt, k) in fakes.lineage(e["text"])]
            present = (tt, k) in in_reply
            if not O or present or entries:
                prob = pipeline.chain_problem(mo["calls"][: mo["need"]], entries, what, prefix_ok=not present)
                if prob:
                    raise Violation("output-rail-chain", prob)
            if entries:
                expected_log += [("output", flow_name(cfg, "out", i), c["verdict"] == "reject") for i, c in enumerate(mo["calls"][: len(entries)])]
                nt_event = nt_event or any(c["verdict"] != "accept" for c in mo["calls"][: len(entries)])
            if present:
                if mo["blocked"] is not None:
                    raise Violation("blocked-text-in-reply", f"{what}: rail out{mo['blocked']} rejected the LLM text but the reply carries it: {text[:100]!r}")
                if mo["final"] not in text or (mo["final"] != mo["orig"] and mo["orig"] in text):
                    raise Violation("rewrite-not-returned", f"{what}: expected the reply to carry {mo['final']} only, got {text[:100]!r}")
            if O and mo["blocked"] is not None and len(entries) >= mo["need"]:
                labels.append("llm-message-blocked")
                expect_refusal("out", mo["blocked"], exact=False)  # a predefined message may precede it (route pl)
        if R and cfg["ret"] and not any(e["cat"] == "ret" for e in trace):
            raise Violation("selected-category-skipped", f"{what}: dialog and retrieval are selected, a bot message was generated, but the retrieval rail never ran")

    # 3. the log
    log = o["log"]
    if log is None:
        raise Violation("log-missing", f"{what}: options.log.activated_rails was requested but the response has no log")
    got_log = [(r["type"], r["name"], r["stop"]) for r in log if r["type"] in ("input", "output")]
    if got_log != expected_log:
        raise Violation("activated-rails-log", f"{what}: log.activated_rails (input/output entries: type, name, stop) = {got_log}, rails that ran = {expected_log}")
    others = [(r["type"], r["name"]) for r in log if r["type"] not in ("input", "output") and r["stop"]]
    if others:
        raise Violation("activated-rails-log", f"{what}: `stop` is set on {others}, which are not rails that blocked")
    if not D:
        ghosts = [(r["type"], r["name"]) for r in log if r["type"] in ("dialog", "generation")]
        if ghosts:
            raise Violation("activated-rails-log", f"{what}: dialog rails are not selected but the log lists {ghosts}")
    names = [name for _, name, _ in expected_log]
    twice = len(set(names)) < len(names)
    if len({(t, n) for t, n, _ in expected_log}) < len(expected_log):
        labels.append("same-flow-ran-twice-in-one-category")
    if {n for t, n, _ in expected_log if t == "input"} & {n for t, n, _ in expected_log if t == "output"}:
        labels.append("same-flow-ran-in-input-and-output")
    empty_selected = (I and not cfg["in"]) or (O and not cfg["out"])
    nt = len(sel) < 4 and bool(nt_event or twice or empty_selected)
    return ok(nt=nt, labels=sorted(set(labels)), view={"rails": spec["options"]["rails"], "in": spec["in"], "out": spec["out"], "user": spec["user"], "bot": spec.get("bot"), "reply": o["reply"], "rail_calls": [e["rail"] for e in trace], "llm_calls": len(o["llm"]), "log": [(r["type"], r["name"], r["stop"]) for r in log]})


def prop(case):
    return pipeline.run_checked(case, _check)
