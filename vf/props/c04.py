"""C04 - Colang 2 event matching follows the documented partial-match rules.

Domain : recursive patterns (scalars, regex, lists, sets, dicts; depth <= 3) x payloads derived from the
         pattern's witness by add / drop / reorder / alter / retype mutations (or independent payloads),
         1-2 mentioned parameters, 0-2 unmentioned parameters; instance-specific matches for action
         and flow references.  Regex leaves come from two pools: patterns that consume text and patterns that are
         found with an EMPTY span (look-arounds, bare anchors, `x*` in front of a non-x).  The flow may have executed
         a `priority p` statement (p in {0.0, 0.1, 0.5, 1.0}) before the judged match statement.
         One scalar in four (every depth, top level of a parameter included) is a string over an alphabet with backslash, tab,
         newline, both quote characters and non-ASCII characters; the case holds the VALUE, case["style"] chooses how the
         statement SPELLS it (quote character, escape sequences); payloads include the un-decoded spelling as non-matching control.
         One parameter case in six carries VERY MANY (40-324) further parameters / list items / set members / dict entries the
         statement does not mention, on one level or spread over several nesting levels (case["bulk"], a compact description that
         prop() expands).  Form "ref_rebind": ONE `match $ref.Finished()` / `.Started()` statement visited 2-3 times (helper flow
         awaited for one reference after the other, a loop that re-assigns $ref, helper instances side by side) while $ref refers to
         objects of different kinds (four action types, two flows) - judged at every visit against the events of all objects.
         One scalar in eight is a LARGE number (integers 1e9..1e19, floats up to 1e300); payload mutation `neighbour-number` (+-1, adjacent
         float, relative 1e-12..1e-9).  One parameter case in seven holds LONG received strings (case["long"], a compact description that
         prop() expands: the short text at the start of / inside around position 4096 / at the very end of 4 096-20 000 filler characters).
         Form "seq": 3-5 events at ONE waiting statement (loop, with / without `as $ref`), every event judged; mostly a regex leaf against
         values that are == but print differently (1, 1.0, True, "1" ...) in every order (table enumerated first); bool events are sent, not judged.
Oracle : an independent recursive matcher written from the property text / the language reference.
         Verdict is compared with "does `Hit` appear in the outgoing events".
"""
import itertools
import math
import re
import warnings

from hypothesis import strategies as st

from vf import smh
from vf.core import Violation, ok

PID = "C04"
LEVEL = "exploration"
CASE_TIMEOUT = 30
RULE = (
    "pattern P drawn recursively from scalars {None,bool,int>=2,non-integral float,str; one scalar in four - at every depth, the top level of a parameter "
    "included, also in payloads, inserted/altered elements and unmentioned parameters - is a string over the alphabet {a, b, t, n, space, TAB, NEWLINE, backslash, \", ', e-acute, euro sign} "
    "(pool of 15 fixed strings or 1-4 random characters)}. The case holds the string VALUE; case.style (quote character \" or ', escape the other quote too, non-ASCII as \\uXXXX or raw, "
    "tab as \\t or raw) decides how the statement SPELLS every string: backslash as \\\\, the quote as \\q, newline as \\n (Python literal rules). Regex pool (half of the regex leaves "
    "are patterns that consume text, half are patterns found with an EMPTY span: look-ahead/look-behind only, bare anchors ^ $ \\b \\B, "
    "x* / \\d* / the empty pattern in front of a non-matching character - each with a non-empty witness and, where one exists, a non-witness), list, set (hashable "
    "members), dict(str keys), depth<=3, <=4 children; payload V = witness(P) with 0-3 structural mutations (insert/drop/"
    "swap/alter-leaf/retype/replace-subtree) or an independent value; a string leaf of the payload that has spelling near-misses is, in two mutations of three that hit it, "
    "replaced by one of them: its UN-DECODED source spelling under the case's or another style (kind 'undecoded': backslash+t instead of TAB, two backslashes instead of one), the value decoded once more, "
    "or a neighbour (TAB->space/t, backslash doubled/dropped, one quote character for the other, e-acute->e) (kind 'alter-escape'); program `match Ev(p=P[,q=Q])` then `send Hit()`; the event "
    "carries 0-2 unmentioned parameters; in half of the cases the pattern is held in flow variables, in half the statement captures the event (`as $ref`) inside a loop and judges a second, different payload. In one case of six the pattern is matched against the start arguments of an action instance (in half of these the start arguments are themselves held in flow variables: `$s_p = V`, `start XAction(p=$s_p)`) (`match XAction(p=P).Finished()` on the Finished event of an action started with those arguments). Plus a small exhaustive table over leaves {2,'a'} depth<=2 and instance cases "
    "($ref.Finished() of action/flow instances), plus the table regex pool x value pool (all witnesses/non-witnesses, '', numbers) in three shapes "
    "(bare, inside a longer list, inside a larger dict), plus the string table: 15 pool strings x 6 spelling styles x (the value, <=5 spelling near-misses) in four shapes (whole parameter, inside a longer list, "
    "a larger dict, a larger set), statement forms rotating (literal / variable + loop with capture / action start arguments). In half of all generated cases (every form) and in a slice of the enumerated ones the flow executes `priority p`, "
    "p in {0.0, 0.1, 0.5, 1.0}, directly before the judged match statement (single flow, no competitor: the priority only ranks competing matches). MANY EXTRAS: one generated parameter case in six (drawn first; these cases prefer container patterns of depth 1-3; every statement form) carries case.bulk = "
    "{params: n further unmentioned parameters u0.., fill: [[parameter, path, n] x 0-3] n further elements for the container at that position of the received value (list items in front / behind / spread between "
    "the present ones, set members, dict entries; any nesting level, deepest first), kind str|int, pos}: 40-324 further parameters/elements in total (one of 40 60 70 80 95 100 110 128 150 200 256 300, plus 0-24), "
    "split by drawn weights; the oracle judges the EXPANDED payload, so matching payloads stay matches and the drop/alter/swap controls stay non-matches (labels many-extras, extras-40-69 / 70-94 / 95-199 / 200+, "
    "extras-as-parameters, extras-in-containers, extras-in-nested-container, extras-on-several-levels); plus the many-extras table: n in {60,80,95,100,128,150,200,300} x (unmentioned parameters only, list, set, dict, "
    "nested dict with list and set and parameters) x (matching payload, control) with forms and priorities rotating. REBOUND REFERENCE (form ref_rebind, one generated case in six): 2-5 objects $o0.. started by main, each an "
    "UtteranceBotAction / GestureBotAction / PostureBotAction() / XAction instance or an instance of flow f / flow g; ONE statement `match $ref.Finished()` (or `.Started()`, actions only) is visited for 2-3 distinct objects in "
    "a drawn order - variant helper (`flow wait_done $ref` awaited for one object after the other), loop (`while`: `$ref = $o<r>` chosen by if/elif/else on the counter, then the statement), parallel (one helper instance "
    "per object, all waiting at once); in half of the cases the kinds of two consecutive referenced objects are forced to differ; schedule = either, per visit, 0-2 distractors (event of an unreferenced object, "
    "event of the right type with an unknown / None action_uid or Go of no instance) then the event of the awaited object, or a random permutation of the events of ALL objects (awaited ones too early / in the wrong order) "
    "with distractors; after every event the set of `Hit(k=visit)` markers must be exactly what a two-line model says (sequential: the visit waiting now and only on its object's event; parallel: the visit "
    "waiting for that object) (labels ref-rebind, ref-rebind-helper/-loop/-parallel, ref-type-change / ref-same-type, ref-action-then-flow ..., ref-visits-advanced-N); plus the reference table: every ordered pair of "
    "object kinds (A == B included) x variant x Finished (Started for action pairs) with another instance of A and unknown/None-uid events as distractors. Non-trivial = pattern nesting depth >= 2, or a payload obtained by a "
    "drop/swap/retype mutation (fewer elements, reordered, different container), or a pattern with a string leaf whose source spelling differs from its value (labels escaped-string, "
    "escaped-string-top-level / -nested-only, single-quoted / double-quoted), or a rebound-reference case in which the statement advanced at >= 2 visits; distinct by (pattern, payload) / the whole case. "
    "LARGE NUMBERS: one scalar in eight (every depth, patterns, payloads, inserted/altered elements, unmentioned parameters; the escape-alphabet strings keep their share of one in four) is a large number: an integer of "
    "{1000000007, 2^31, 2^32-1, 98765432109876, 20260925000001, 2^53, 2^53+1, 17*10^17, 2^63-1, 2^63, 10^19} or a float of {1000000000.5, 123456789012.5, 2^51+1.5, 1e16, 1.5e18, 6.02e23, 1e300}; "
    "a mutation that hits a number >= 1e9 replaces it, three times in four, by a NEIGHBOUR (kind neighbour-number): integer x+1 / x-1 / x+2, float: the adjacent floats and x*(1 +- r), r in {1e-12, 1e-11, 1e-10, 5e-10, 1e-9} - "
    "equal scalars means equal, the statement must not advance on a neighbouring number (labels big-number, big-int, big-int-above-2^53, big-float, big-number-top-level / -nested); no integer of the pool or its "
    "neighbours is numerically equal to a float of the pool or its neighbours, and the oracle skips (unspecified) should numerically equal values of different types ever meet; plus the number table: every pool "
    "number x (itself, up to 6 neighbours) as the whole parameter, inside a longer list, inside a nested larger dict, inside a larger set, forms and priorities rotating. "
    "LONG VALUES: in one generated parameter / action-argument case in seven, ONE string leaf of every received value is long: case.long = [[parameter, path, {n, where, at, fill}]] - the drawn short text (regex witness / "
    "non-witness / any string leaf, preferably one judged by a regex; the first pattern of these cases is made to hold a regex leaf) is placed at the start of / inside / at the very end of n = one of "
    "{4096, 5000, 6000, 8192, 9000, 12000, 16384, 20000} (+0-16) characters of filler text ('lorem ipsum ', 'xyz ', '-', 'line NEWLINE': no witness of a text-consuming pool regex); 'inside' starts at a position in 4086..4102 "
    "(three times in four) or anywhere; prop() expands the description, the oracle (re.search on the WHOLE value) judges the expanded payload - top level or nested in lists / sets / dicts, also under many extras "
    "(labels long-value, long-4000-4999 / 5000-9999 / 10000+, long-text-at-start / -mid / -end, long-text-ends-at-4096 / -around-4096 / -elsewhere, long-on-regex-leaf / -other-leaf, long-top-level / -nested); plus "
    "the long-string table: every pool regex (both pools, ^ and $ anchored ones included) x (witness, non-witness) x placement (start, very end, inside ending one before / at / one behind position 4096, "
    "inside starting at 4090 / 4100) with sizes, fillers, shapes (bare, longer list, larger dict, dict inside a list), forms and priorities rotating. Both tables are enumerated first. "
    "EVENT SEQUENCES (form seq, one generated case in thirteen): 3-5 events reach ONE waiting statement one after the other (`while True` / `match Ev(p=P)` with or without `as $ref` / `send Hit()`, pattern literal or held in a "
    "variable, optional priority); EVERY event is judged on its own value by the reference matcher (kind match-verdict-event-sequence). Three sequences in four compare a regex leaf (pool ^1$ ^1 rue \\.0$ ^0$ alse \\. ^3$ ^2$ "
    "^\\d+$ ^[0-9.]+$ 1\\d*0 0$ ^(?!.*\\.); bare / inside a longer list / a larger dict / a larger set / a list inside a dict) with the members of ONE group of values that are == in Python but print differently - "
    "{1, 1.0, True, '1', '1.0'}, {0, 0.0, False, '0', '0.0'}, {3, 3.0, '3', '3.0'}, {2, 2.0, '2', '2.0'}, {120, 120.0, '120'} - in a drawn order (a permutation of the group, then repeats); the regex is searched in str(value), "
    "so `regex(\"^1$\")` is found in 1 and '1' but not in 1.0. A bool against a regex is unspecified: such an event is SENT (it is part of what the statement has seen) but its own verdict is not judged (label "
    "seq-with-unjudged-bool-event). One sequence in four takes any pattern of depth <= 2 and 3-5 mutated witnesses. Labels event-sequence, seq-events-3/4/5, seq-shape-*, seq-equal-values / seq-generic / seq-table, "
    "seq-equal-values-different-verdict (an earlier event carried an == value of another type/text with another verdict; this makes the case non-trivial), seq-deciding-event-N (position of the first such event), seq-match-and-no-match, "
    "seq-with-capture / seq-without-capture. Plus the sequence table, enumerated FIRST: (1, 1.0, True, '1') x (^1$, rue, \\.0$, ^1), (0, 0.0, False) x (^0$, alse, \\.), (3, 3.0, '3.0') x (^3$, \\.0$), (2, 2.0, '2') x (^2$, \\.) - "
    "EVERY order of the group followed by its first value once more, shapes / literal-or-variable / capture / priorities rotating."
)
ASSUMPTIONS = [
    "a string literal in a statement denotes the text obtained by the Python string-literal rules (\\t TAB, \\n newline, \\\\ one backslash, \\\" and \\' the quote, \\uXXXX the code point, either quote "
    "character delimits): Colang 2 expressions are evaluated as Python expressions (language reference, 'Working with Variables & Expressions'); 'equal scalars' compares that text with the event's string",
    "strings never contain { } $ or # (string interpolation, variable references and comments are other properties' business)",
    "numerically equal values of different numeric types (1 vs True vs 1.0, 10**16 vs 1e16) are never generated: the text does not specify them (the number pools are disjoint across types, "
    "neighbours included; should such a pair meet anyway the case is skipped and counted)",
    "'equal scalars' for numbers means the same number: a statement naming 1700000000000000000 does not advance on 1700000000000000001 (two integers that are the same double), one naming 123456789012.5 not on a float "
    "that differs from it by one unit in the last place or by a relative 1e-12..1e-9; events deliver numbers as Python int / float (what json.loads yields), so no precision is lost on the way in",
    "a regex is searched in the WHOLE received text whatever its length (5 000 - 20 000 characters generated): `$` refers to the end of the value, a find behind any number of other characters is a find",
    "list patterns follow the property text ('expected list items found in order'), not the stricter 'same position' wording of the docs",
    "dict keys return_value/activated/source_flow_instance_uid (filtered by the interpreter) are never used as keys",
    "a regex is 'found in the value' in the sense of re.search on str(value), whatever the length of the span that is found (an empty span is a find)",
    "the flow priority (allowed range [0.0, 1.0], 0.0 included) only ranks competing matches; the statement has no priority clause, so a lone waiting match must "
    "advance on a matching event whatever priority its flow has set (the reference says the score 'is multiplied by' the priority; it does not say that 0.0 switches a flow off)",
    "'parameters the statement does not mention never prevent a match' holds for any NUMBER of them; the generator stops at about 330 further parameters / container elements per event "
    "(on the unchanged tree the interpreter's score 0.9^n underflows to 0.0 near n = 7100 and the statement then stops matching - observed with a hand-made case, reported, not generated)",
    "a reference-based statement is judged only against events that arrive while it is waiting: an object that finished before the statement was reached (again) is not waited for successfully, "
    "and every object receives its Finished / Started event at most once",
    "an action event whose action_uid is None or unknown belongs to no referenced instance (as in the single-visit instance cases)",
    "event sequences: every event that reaches a waiting statement is judged on its own value, whatever the statement (or any other) has judged before; 1, 1.0 and '1' are different values for a regex leaf "
    "because the regex is searched in str(value) ('1', '1.0', '1'); after any event - matched, not matched, or of unspecified verdict (bool against a regex) - the loop is waiting at the same statement again, "
    "so the next event's verdict is specified; scalar (non-regex) leaves are never compared with == values of another numeric type in the equal-values sequences",
]

REGEX = [
    ("a", "xay", "xyz"),
    ("^ab", "abc", "cab"),
    ("b$", "ab", "ba"),
    ("[0-9]+", "x12", "xy"),
    ("(?i)test", "TEST1", "tes"),
    ("a.c", "abc", "ac"),
    ("1\\d*0", 120, 121),
]
# patterns that are found with an EMPTY span (pattern, non-empty witness, non-witness or NOWIT if every value matches)
NOWIT = None
REGEX_ZW = [
    ("(?=.*a)(?=.*b)", "xbya", "bxb"),
    ("^(?!.*bad)", "all good", "too bad"),
    ("(?=b)", "abc", "acd"),
    ("(?<=a)", "ab", "bc"),
    ("^(?=1)", 120, 21),
    ("^", "abc", NOWIT),
    ("$", 5, NOWIT),
    ("\\b", "ab", "--"),
    ("\\B", "ab", "a"),
    ("x*", "abxc", NOWIT),
    ("\\d*", "x12", NOWIT),
    ("", "ab", NOWIT),
]
RX = {p: (y, n) for p, y, n in REGEX + REGEX_ZW}
ZW = {p for p, _, _ in REGEX_ZW}
PRIORITIES = [0.0, 0.1, 0.5, 1.0]

SCALARS = [None, True, False, 2, 3, 7, 2.5, 0.75, "a", "b", "ab", ""]

# LARGE numbers as scalar leaves: integers above 1e9 up to 1e19 (beyond 2**53 two neighbouring integers are the same float),
# floats of large magnitude.  No integer of the pool (or its neighbours +-1) is numerically equal to a float of the pool
# (or one of its neighbours): the int-vs-float reading stays un-generated.
BIG_INTS = [1000000007, 2147483648, 4294967295, 98765432109876, 20260925000001, 9007199254740992, 9007199254740993,
            1700000000000000000, 9223372036854775807, 9223372036854775808, 10000000000000000000]
BIG_FLOATS = [1000000000.5, 123456789012.5, 2251799813685249.5, 1e16, 1.5e18, 6.02e23, 1e300]
BIG_REL = [1e-12, 1e-11, 1e-10, 5e-10, 1e-9]  # relative distances of the float neighbours (plus the adjacent float)


def is_num(x):
    return isinstance(x, (int, float)) and not isinstance(x, bool)


def is_big(x):
    return is_num(x) and abs(x) >= 1e9


def number_neighbours(x):
    """Numbers next to x that are NOT equal to x: integers x-1, x+1, x+2; floats: the adjacent floats and x*(1 +- r) for r in BIG_REL."""
    if isinstance(x, int):
        return [x + 1, x - 1, x + 2]
    out = [math.nextafter(x, math.inf), math.nextafter(x, -math.inf)]
    for r in BIG_REL:
        out += [x * (1 + r), x * (1 - r)]
    res = []
    for v in out:
        if v != x and math.isfinite(v) and v not in res:
            res.append(v)
    return res


# LONG received strings (5 000 - 20 000 characters) for the leaves judged by a regex (or any other string leaf): the case holds a
# compact description, prop() expands it.  Filler texts contain no witness of a text-consuming pool regex.
LONG_FILLERS = ["lorem ipsum ", "xyz ", "-", "line\n"]
LONG_SIZES = [5000, 9000, 4096, 8192, 12000, 20000, 6000, 16384]
LONG_ATS = list(range(4086, 4103))  # where the short text starts when it is placed inside the filler

# strings whose SOURCE SPELLING differs from their value: the statement writes them with escape sequences
# (Colang string literals follow the Python rules: backslash-t is a tab, two backslashes are one backslash, backslash-u00e9 is e-acute).
# The case holds the VALUE (decoded text); the spelling is chosen by case["style"] and produced by lit()/str_body().
ESC_ALPHABET = ["a", "b", " ", "\t", "\n", "\\", '"', "'", "\u00e9", "\u20ac", "t", "n"]
ESC_STRINGS = ["a\tb", "a\nb", "C:\\temp", "it's", 'say "x"', "caf\u00e9", "\\", "a\\", "\t", "x\\ty", '"', "'", "a b", "\\\\n", "5\u20ac\n"]
STYLES = [
    {"q": '"', "oq": False, "uni": False, "rawtab": False},
    {"q": "'", "oq": False, "uni": False, "rawtab": False},
    {"q": '"', "oq": True, "uni": True, "rawtab": False},
    {"q": "'", "oq": True, "uni": True, "rawtab": True},
    {"q": '"', "oq": False, "uni": True, "rawtab": True},
    {"q": "'", "oq": True, "uni": False, "rawtab": False},
]
DEFAULT_STYLE = STYLES[0]


def str_body(v, style=None):
    """Source spelling of the string v between its quotes (what a reader sees in the statement)."""
    style = style or DEFAULT_STYLE
    q = style.get("q", '"')
    out = []
    for ch in v:
        if ch == "\\":
            out.append("\\\\")
        elif ch == q or (ch in "\"'" and style.get("oq")):
            out.append("\\" + ch)
        elif ch == "\n":
            out.append("\\n")
        elif ch == "\r":
            out.append("\\r")
        elif ch == "\t":
            out.append("\t" if style.get("rawtab") else "\\t")
        elif ord(ch) < 32 or ord(ch) == 127:
            out.append("\\x%02x" % ord(ch))
        elif ord(ch) > 126 and style.get("uni"):
            out.append("\\u%04x" % ord(ch) if ord(ch) < 0x10000 else "\\U%08x" % ord(ch))
        else:
            out.append(ch)
    return "".join(out)


def lit(v, style=None):
    """Render a case-encoded value as a Colang 2 literal; strings in the spelling chosen by the case (quote character,
    escape sequences for backslash / quotes / tab / newline / non-ASCII characters). With the default style and strings
    without special characters this is smh.lit."""
    if is_rx(v):
        return "regex(%s)" % lit(v["__regex__"], style)
    if is_set(v):
        items = v["__set__"]
        if not items:
            return "set()"
        return "{" + ", ".join(lit(x, style) for x in items) + "}"
    if isinstance(v, str):
        q = (style or DEFAULT_STYLE).get("q", '"')
        return q + str_body(v, style) + q
    if isinstance(v, list):
        return "[" + ", ".join(lit(x, style) for x in v) + "]"
    if isinstance(v, dict):
        return "{" + ", ".join(f"{lit(k, style)}: {lit(x, style)}" for k, x in v.items()) + "}"
    return smh.lit(v)


def escaped_leaves(x, style=None, top=True):
    """(number of string leaves of the pattern whose source spelling differs from their value, is one of them a whole parameter)."""
    if is_rx(x):
        return 0, False
    if isinstance(x, str):
        e = str_body(x, style) != x
        return int(e), e and top
    if is_set(x):
        return sum(escaped_leaves(i, style, False)[0] for i in x["__set__"]), False
    if isinstance(x, list):
        return sum(escaped_leaves(i, style, False)[0] for i in x), False
    if isinstance(x, dict):
        return sum(escaped_leaves(i, style, False)[0] for i in x.values()), False
    return 0, False


def budget(tier):
    return 12000 if tier == "quick" else 150000


WALL = {"quick": 150, "thorough": 1500}

# ---------------------------------------------------------------------------------------------
# reference matcher (pattern in case encoding, payload in case encoding)


def is_set(x):
    return isinstance(x, dict) and "__set__" in x


def is_rx(x):
    return isinstance(x, dict) and "__regex__" in x


class Unspecified(Exception):
    pass


def ref_match(P, V):
    if is_rx(P):
        if isinstance(V, bool) or V is None:
            raise Unspecified("regex against a bool/None value (is the text 'False' searched?) is not specified")
        if not isinstance(V, (str, int, float)):
            return False
        return re.search(P["__regex__"], str(V)) is not None
    if is_set(P):
        if not is_set(V):
            return False
        if len(P["__set__"]) > len(V["__set__"]):
            return False  # never against a received container with fewer elements than expected
        return all(any(ref_match(p, v) for v in V["__set__"]) for p in P["__set__"])
    if isinstance(P, list):
        if not isinstance(V, list) or len(P) > len(V):
            return False
        i = 0
        for v in V:  # expected items found in order (greedy subsequence is complete)
            if i < len(P) and ref_match(P[i], v):
                i += 1
        return i == len(P)
    if isinstance(P, dict):
        if not isinstance(V, dict) or is_set(V) or is_rx(V):
            return False
        if len(P) > len(V):
            return False
        return all(k in V and ref_match(p, V[k]) for k, p in P.items())
    # scalars: equal values of the same type
    if is_set(V) or isinstance(V, (list, dict)):
        return False
    if type(P) is not type(V) and isinstance(P, (bool, int, float)) and isinstance(V, (bool, int, float)) and P == V:
        raise Unspecified("numerically equal values of different numeric types (1 vs True vs 1.0) are not specified")
    return type(P) is type(V) and P == V


def has_zw(x):
    """Does the pattern contain a regex that is found with an empty span?"""
    if is_rx(x):
        return x["__regex__"] in ZW
    if is_set(x):
        return any(has_zw(i) for i in x["__set__"])
    if isinstance(x, list):
        return any(has_zw(i) for i in x)
    if isinstance(x, dict):
        return any(has_zw(i) for i in x.values())
    return False


def depth(x):
    if is_rx(x):
        return 0
    if is_set(x):
        return 1 + max([depth(i) for i in x["__set__"]] or [0])
    if isinstance(x, list):
        return 1 + max([depth(i) for i in x] or [0])
    if isinstance(x, dict):
        return 1 + max([depth(i) for i in x.values()] or [0])
    return 0


# ---------------------------------------------------------------------------------------------
# generators

esc_string = st.one_of(st.sampled_from(ESC_STRINGS), st.lists(st.sampled_from(ESC_ALPHABET), min_size=1, max_size=4).map("".join))
# one scalar in four (at every depth, in patterns, payloads, mutations and unmentioned parameters) is a string over the escape alphabet
# ... and one scalar in eight is a LARGE number (integer above 1e9 / float of large magnitude)
big_number = st.one_of(st.sampled_from(BIG_INTS), st.sampled_from(BIG_FLOATS))
_small = st.sampled_from(SCALARS)
scalar = st.one_of(_small, _small, _small, _small, _small, esc_string, esc_string, big_number)
style_st = st.fixed_dictionaries({"q": st.sampled_from(['"', "'"]), "oq": st.booleans(), "uni": st.booleans(), "rawtab": st.sampled_from([False, False, True])})
regex = st.one_of(st.sampled_from([{"__regex__": p} for p, _, _ in REGEX]), st.sampled_from([{"__regex__": p} for p, _, _ in REGEX_ZW]))
priority = st.one_of(st.none(), st.sampled_from(PRIORITIES))  # `priority p` executed before the judged match statement
hashable_leaf = st.one_of(scalar, regex)


def _uniq(items):
    seen, out = [], []
    for i in items:
        k = repr(i)
        if k not in seen:
            seen.append(k)
            out.append(i)
    return out


def pattern(max_depth=3):
    leaf = st.one_of(scalar, scalar, regex)
    if max_depth == 0:
        return leaf
    sub = pattern(max_depth - 1)
    return st.one_of(
        leaf,
        st.lists(sub, max_size=4),
        st.lists(hashable_leaf, min_size=1, max_size=4).map(_uniq).map(lambda l: {"__set__": l}),
        st.dictionaries(st.sampled_from(["k1", "k2", "k3", "k4"]), sub, max_size=4),
    )


def witness(P, draw_alt=None):
    if is_rx(P):
        return RX[P["__regex__"]][0]
    if is_set(P):
        return {"__set__": _uniq([witness(x) for x in P["__set__"]])}
    if isinstance(P, list):
        return [witness(x) for x in P]
    if isinstance(P, dict):
        return {k: witness(v) for k, v in P.items()}
    return P


def _paths(v, pre=()):
    """All positions of sub-values in a case-encoded value."""
    out = [pre]
    if is_set(v):
        for i, x in enumerate(v["__set__"]):
            out += _paths(x, pre + (("s", i),))
    elif isinstance(v, list):
        for i, x in enumerate(v):
            out += _paths(x, pre + (("l", i),))
    elif isinstance(v, dict) and not is_rx(v):
        for k, x in v.items():
            out += _paths(x, pre + (("d", k),))
    return out


def _get(v, path):
    for kind, k in path:
        v = v["__set__"][k] if kind == "s" else v[k]
    return v


def _set(v, path, new):
    if not path:
        return new
    (kind, k), rest = path[0], path[1:]
    if kind == "s":
        items = list(v["__set__"])
        items[k] = _set(items[k], rest, new)
        return {"__set__": _uniq(items)}
    if kind == "l":
        items = list(v)
        items[k] = _set(items[k], rest, new)
        return items
    d = dict(v)
    d[k] = _set(d[k], rest, new)
    return d


def _hashable(x):
    return not isinstance(x, (list, dict))


def spelling_variants(s, style=None):
    """Near misses of a string VALUE: [(other value, kind)] - its un-decoded source spelling(s) ('undecoded': the text between
    the quotes of the statement, e.g. backslash + t for a tab), the value decoded once more, and values in which the escaped
    character is replaced by a neighbour (tab -> space, one backslash -> two / none, one quote character -> the other ...)."""
    out = []
    body = str_body(s, style)
    if body != s:
        out.append((body, "undecoded"))
    for other in STYLES:
        b = str_body(s, other)
        if b != s and b != body and (b, "undecoded") not in out:
            out.append((b, "undecoded"))
            break
    if "\\" in s and s.isascii():
        try:
            with warnings.catch_warnings():
                warnings.simplefilter("ignore")
                again = s.encode("ascii").decode("unicode_escape")
            if again != s:
                out.append((again, "alter-escape"))
        except (UnicodeDecodeError, ValueError):
            pass
    for a, bs in (("\t", [" ", "t"]), ("\n", [" ", "n"]), ("\\", ["\\\\", "", "/"]), ('"', ["'"]), ("'", ['"']), ("\u00e9", ["e"]), ("\u20ac", ["u20ac"])):
        if a in s:
            for b in bs:
                out.append((s.replace(a, b), "alter-escape"))
    seen, res = {s}, []
    for v, k in out:
        if v not in seen:
            seen.add(v)
            res.append((v, k))
    return res


@st.composite
def mutate(draw, V, style=None):
    """One structural mutation; returns (V', kind)."""
    paths = _paths(V)
    path = draw(st.sampled_from(paths))
    sub = _get(V, path)
    in_set = any(kind == "s" for kind, _ in path)
    if is_set(sub):
        items = list(sub["__set__"])
        op = draw(st.sampled_from(["insert", "insert", "drop", "retype"]))
        if op == "insert":
            items.append(draw(scalar))
            return _set(V, path, {"__set__": _uniq(items)}), "insert"
        if op == "drop" and items:
            items.pop(draw(st.integers(0, len(items) - 1)))
            return _set(V, path, {"__set__": items}), "drop"
        if not in_set:
            return _set(V, path, list(items)), "retype"
        return V, "none"
    if isinstance(sub, list):
        items = list(sub)
        op = draw(st.sampled_from(["insert", "insert", "drop", "swap", "retype"]))
        if op == "insert":
            new = draw(st.one_of(scalar, st.just(items[0]) if items else scalar))
            items.insert(draw(st.integers(0, len(items))), new)
            return _set(V, path, items), "insert"
        if op == "drop" and items:
            items.pop(draw(st.integers(0, len(items) - 1)))
            return _set(V, path, items), "drop"
        if op == "swap" and len(items) >= 2:
            i = draw(st.integers(0, len(items) - 2))
            j = draw(st.integers(i + 1, len(items) - 1))
            items[i], items[j] = items[j], items[i]
            return _set(V, path, items), "swap"
        if op == "retype" and all(_hashable(i) for i in items):
            return _set(V, path, {"__set__": _uniq(items)}), "retype"
        return V, "none"
    if isinstance(sub, dict):
        d = dict(sub)
        op = draw(st.sampled_from(["insert", "insert", "drop", "retype"]))
        if op == "insert":
            d[draw(st.sampled_from(["k1", "k2", "k3", "k4", "k5"]))] = draw(scalar)
            return _set(V, path, d), "insert"
        if op == "drop" and d:
            d.pop(draw(st.sampled_from(sorted(d))))
            return _set(V, path, d), "drop"
        if not in_set:
            return _set(V, path, list(d.values())), "retype"
        return V, "none"
    # scalar leaf
    if isinstance(sub, str):
        variants = spelling_variants(sub, style)
        if variants and draw(st.integers(0, 2)) > 0:
            new, kind = draw(st.sampled_from(variants))
            return _set(V, path, new), kind
    if is_big(sub) and draw(st.integers(0, 3)) > 0:
        # a neighbouring number: +-1 for an integer, the adjacent float / a relative 1e-12..1e-9 for a float
        return _set(V, path, draw(st.sampled_from(number_neighbours(sub)))), "neighbour-number"
    new = draw(scalar)
    if in_set or draw(st.integers(0, 3)) > 0:
        return _set(V, path, new), "alter"
    return _set(V, path, [sub]), "retype"


# ---------------------------------------------------------------------------------------------
# very many extras: the case holds a compact description (counts), prop() expands it deterministically


def _is_container(x):
    return is_set(x) or isinstance(x, list) or (isinstance(x, dict) and not is_rx(x))


def _fillers(n, kind):
    return [("f%d" % i) if kind == "str" else 1000 + i for i in range(n)]


def _fill(sub, n, kind, pos):
    """Add n further elements to the received container `sub`: list items in front of / behind / spread between the
    present ones, further set members, further dict entries."""
    if is_set(sub):
        return {"__set__": _uniq(list(sub["__set__"]) + _fillers(n, kind))}
    if isinstance(sub, list):
        fill = _fillers(n, kind)
        if pos == "front":
            return fill + list(sub)
        if pos == "back":
            return list(sub) + fill
        slots = len(sub) + 1  # spread: the i-th further item goes into slot i mod (len+1)
        out = []
        for slot in range(slots):
            out += fill[slot::slots]
            if slot < len(sub):
                out.append(sub[slot])
        return out
    d = dict(sub)
    for i in range(n):
        d.setdefault("e%d" % i, i if kind == "int" else "f%d" % i)
    return d


def expand_bulk(pay, extra, bulk):
    """(payload, unmentioned parameters) of the event after the bulk description has been applied:
    bulk = {"params": number of further unmentioned parameters u0..u<n-1>, "fill": [[parameter, path, n], ...] further
    elements for the container at `path` of the received value of `parameter`, "kind": "str"|"int", "pos": "front"|"back"|"spread"}."""
    if not bulk:
        return pay, extra
    pay = dict(pay)
    # deepest containers first: filling a list shifts the positions of its own items only
    for name, path, n in sorted(bulk.get("fill", []), key=lambda f: -len(f[1])):
        if name not in pay:
            continue
        path = tuple((k, i) for k, i in path)
        sub = _get(pay[name], path)
        pay[name] = _set(pay[name], path, _fill(sub, n, bulk.get("kind", "str"), bulk.get("pos", "spread")))
    extra = dict(extra)
    for i in range(bulk.get("params", 0)):
        extra.setdefault("u%d" % i, i)
    return pay, extra


def bulk_total(bulk):
    return (bulk.get("params", 0) + sum(n for _, _, n in bulk.get("fill", []))) if bulk else 0


# ---------------------------------------------------------------------------------------------
# long received strings: the case holds a compact description, prop() expands it deterministically


def long_text(s, spec):
    """The short text s inside / in front of / behind spec["n"] characters of filler text."""
    unit, n = spec.get("fill", "xyz "), spec["n"]
    filler = (unit * (n // len(unit) + 1))[:n]
    where = spec.get("where", "end")
    if where == "start":
        return s + filler
    if where == "end":
        return filler + s
    at = spec.get("at", 0)
    return filler[:at] + s + filler[at:]


def expand_long(pay, long):
    """Payload after the long-string description has been applied: long = [[parameter, path, {"n": number of filler characters,
    "where": "start"|"mid"|"end", "at": start position for "mid", "fill": filler unit}], ...] - the string leaf at `path` of the
    received value of `parameter` is placed at the start of / inside / at the very end of a long filler text."""
    if not long:
        return pay
    pay = dict(pay)
    for name, path, spec in long:
        if name not in pay:
            continue
        path = tuple((k, i) for k, i in path)
        sub = _get(pay[name], path)
        if isinstance(sub, str):
            pay[name] = _set(pay[name], path, long_text(sub, spec))
    return pay


def _leaf_paths(v):
    return [p for p in _paths(v) if not _is_container(_get(v, p))]


def has_rx(x):
    return any(is_rx(_get(x, p)) for p in _paths(x))


def _rx_at(P, path):
    """Is the pattern leaf at the same position a regex? (positions differ after structural mutations: best effort)"""
    try:
        return is_rx(_get(P, path))
    except (KeyError, IndexError, TypeError):
        return False


@st.composite
def _long(draw, name, P, V):
    """Description of ONE long string for the received value V of parameter `name` (None if V has no string leaf): the leaf is
    preferably one that is judged by a regex of P."""
    strs = [p for p in _paths(V) if isinstance(_get(V, p), str)]
    if not strs:
        return None
    on_rx = [p for p in strs if _rx_at(P, p)]
    path = draw(st.sampled_from(on_rx)) if on_rx and draw(st.integers(0, 3)) > 0 else draw(st.sampled_from(strs))
    n = draw(st.sampled_from(LONG_SIZES)) + draw(st.integers(0, 16))
    where = draw(st.sampled_from(["end", "mid", "start", "mid"]))
    spec = {"n": n, "where": where, "fill": draw(st.sampled_from(LONG_FILLERS)), "rx": path in on_rx}
    if where == "mid":
        # mostly around position 4096, sometimes anywhere
        spec["at"] = draw(st.sampled_from(LONG_ATS)) if draw(st.integers(0, 3)) > 0 else draw(st.integers(1, n))
    return [name, [list(step) for step in path], spec]


@st.composite
def _bulk(draw, pay):
    """100-odd further parameters / elements in total, split over the unmentioned parameters of the event and up to three
    containers of the received values (any nesting level)."""
    # (Hypothesis favours the first element / the smallest integer: the favoured total is one of the large ones)
    total = draw(st.sampled_from([128, 100, 150, 95, 200, 300, 80, 110, 60, 256, 40, 70])) + draw(st.integers(0, 24))
    targets = [[name, [list(step) for step in path]] for name, V in pay.items() for path in _paths(V) if _is_container(_get(V, path))]
    targets.sort(key=lambda t: -len(t[1]))  # the favoured (first) targets are the deepest containers
    chosen = []
    if targets:
        idx = draw(st.lists(st.integers(0, len(targets) - 1), min_size=1, max_size=3, unique=True))
        chosen = [targets[i] for i in idx]
    with_params = not chosen or draw(st.booleans())
    weights = [draw(st.integers(1, 4)) for _ in range(len(chosen) + int(with_params))]
    shares = [max(1, round(total * w / sum(weights))) for w in weights]
    bulk = {"params": shares[-1] if with_params else 0, "fill": [[name, path, n] for (name, path), n in zip(chosen, shares)],
            "kind": draw(st.sampled_from(["str", "int"])), "pos": draw(st.sampled_from(["front", "back", "spread", "spread"]))}
    return bulk


# ---------------------------------------------------------------------------------------------
# the same reference-based match statement reached again while its reference variable refers to another object

OBJ_KINDS = {
    # kind: (start statement, event name prefix or None for a flow)
    "utt": ('start UtteranceBotAction(script="same") as $o{i}', "UtteranceBotAction"),
    "gest": ('start GestureBotAction(gesture="wave") as $o{i}', "GestureBotAction"),
    "post": ("start PostureBotAction() as $o{i}", "PostureBotAction"),
    "xact": ("start XAction(p=2) as $o{i}", "XAction"),
    "flow_f": ("start f {i} as $o{i}", None),
    "flow_g": ("start g {i} as $o{i}", None),
}
ACTION_KINDS = ["utt", "gest", "post", "xact"]
REBIND_VARIANTS = ["helper", "loop", "parallel"]


@st.composite
def _rebind_case(draw):
    evname = draw(st.sampled_from(["Finished", "Finished", "Started"]))
    pool = ACTION_KINDS if evname == "Started" else list(OBJ_KINDS)
    n = draw(st.integers(2, 5))
    objs = [draw(st.sampled_from(pool)) for _ in range(n)]
    refs = draw(st.lists(st.integers(0, n - 1), min_size=2, max_size=min(3, n), unique=True))
    if draw(st.booleans()) and len({objs[r] for r in refs}) == 1:
        # make sure half of the cases change the kind of the referenced object between two visits of the statement
        objs[refs[1]] = draw(st.sampled_from([k for k in pool if k != objs[refs[0]]]))
    sched = []
    if draw(st.booleans()):
        # constructive schedule: distractors (events of other objects / of no known instance), then the event of the awaited object
        others = [i for i in range(n) if i not in refs]
        for r in refs:
            for _ in range(draw(st.integers(0, 2))):
                d = draw(st.sampled_from(["unknown", "none", "other"]))
                if d == "other" and others:
                    sched.append({"obj": others.pop(draw(st.integers(0, len(others) - 1)))})
                elif d != "other":
                    sched.append({"obj": draw(st.sampled_from(refs)), "uid": d})
            sched.append({"obj": r})
    else:
        for i in draw(st.permutations(list(range(n)))):
            if draw(st.integers(0, 3)) == 0:
                sched.append({"obj": i, "uid": draw(st.sampled_from(["unknown", "none"]))})
            sched.append({"obj": i})
    return {"form": "ref_rebind", "variant": draw(st.sampled_from(REBIND_VARIANTS)), "event": evname, "objects": objs, "refs": refs, "schedule": sched, "priority": draw(priority)}


@st.composite
def _case(draw):
    form = draw(st.sampled_from(["param"] * 8 + ["action_instance", "flow_instance", "ref_rebind", "ref_rebind", "seq"]))
    if form == "ref_rebind":
        return draw(_rebind_case())
    if form == "seq":
        return draw(_seq_case())
    if form != "param":
        target = draw(st.sampled_from([0, 1, 2, "none", "missing", "unknown"]))
        return {"form": form, "which": draw(st.integers(0, 2)), "target": target, "n": 3, "with_args": draw(st.booleans()), "event": draw(st.sampled_from(["Finished", "Started"])), "priority": draw(priority)}
    via_action = draw(st.integers(0, 5)) == 0  # the pattern is matched against the START ARGUMENTS of an action instance
    nparams = draw(st.integers(1, 2))
    style = draw(style_st)  # how the statement spells its strings (quote character, escape sequences)
    # one case in six (drawn; Hypothesis favours the small values, the observed share is the label many-extras): the event carries
    # VERY MANY (40-324) further parameters / container elements the statement does not mention; these cases prefer container patterns
    many = draw(st.integers(0, 5)) == 5
    # one case in seven: ONE string leaf of every received value is LONG (5 000 - 20 000 characters, the drawn short text at the
    # start of / inside (around position 4096) / at the very end of a filler text); the first pattern of these cases holds a regex
    long_case = draw(st.integers(0, 6)) == 6
    longs = []
    pats, pay, kinds = {}, {}, []
    for name in ["p", "q"][:nparams]:
        P = draw(pattern(draw(st.sampled_from([2, 1, 2, 3, 3] if many else [0, 1, 2, 2, 3, 3]))))
        if long_case and name == "p" and not has_rx(P):
            leaves = _leaf_paths(P)
            P = _set(P, draw(st.sampled_from(leaves)), draw(regex)) if leaves else [draw(regex)]
        mode = draw(st.integers(0, 9))
        if mode == 0:
            V = draw(pattern(2).map(witness))  # independent payload
            kinds.append("independent")
        else:
            V = witness(P)
            if is_rx(P) and RX[P["__regex__"]][1] is not NOWIT and draw(st.booleans()):
                V = RX[P["__regex__"]][1]
                kinds.append("regex-nonwitness")
            for _ in range(draw(st.sampled_from([0, 0, 0, 1, 1, 1, 2, 3]))):
                V, k = draw(mutate(V, style))
                kinds.append(k)
        pats[name] = P
        if draw(st.sampled_from([0] + [1] * 19)) == 0:
            kinds.append("param-missing")
        else:
            pay[name] = V
            if long_case:
                spec = draw(_long(name, P, V))
                if spec:
                    longs.append(spec)
    extra = draw(st.dictionaries(st.sampled_from(["x", "y"]), scalar, max_size=2))
    case = {"form": "param", "pattern": pats, "payload": pay, "extra": extra, "mut": kinds, "priority": draw(priority), "style": style}
    if longs:
        case["long"] = longs
    if many:
        case["bulk"] = draw(_bulk(pay))
    if via_action:
        case["form"] = "action_args"
        # the start arguments may be held in flow variables (`$s_p = <V>` then `start XAction(p=$s_p)`); the key is only
        # present when set, so that earlier replay files keep their meaning
        if draw(st.booleans()):
            case["start_via_var"] = True
        return case
    # the pattern may be held in flow variables (`$v_p = <P>` then `match Ev(p=$v_p)`), the statement may capture the event
    # (`as $ref`) and sit in a loop so that the SAME statement judges a second, different event
    case["via_var"] = draw(st.booleans())
    if draw(st.booleans()):
        pay2 = {}
        for name, P in pats.items():
            V = witness(P)
            for _ in range(draw(st.sampled_from([0, 0, 1, 2]))):
                V, _k = draw(mutate(V, style))
            pay2[name] = V
        case["second"] = {"payload": pay2, "extra": draw(st.dictionaries(st.sampled_from(["x", "z"]), scalar, max_size=2))}
    return case


# ---------------------------------------------------------------------------------------------
# SEQUENCES of 3-5 events at ONE waiting statement (loop, optionally with `as $ref`): every event is judged on its own value.
# Main sub-domain: a regex leaf compared with values that are == in Python but PRINT differently (1, 1.0, True, "1", "1.0"):
# a regex is searched in str(value), so `regex("^1$")` is found in 1 and "1", not in 1.0 ("1.0").  Regex against a bool is
# unspecified (see ref_match): such an event is still SENT (it is part of the history the statement has seen) but its own
# verdict is not judged.
SEQ_GROUPS = [
    [1, 1.0, True, "1", "1.0"],
    [0, 0.0, False, "0", "0.0"],
    [3, 3.0, "3", "3.0"],
    [2, 2.0, "2", "2.0"],
    [120, 120.0, "120"],
]
SEQ_REGEX = ["^1$", "^1", "rue", "\\.0$", "^0$", "alse", "\\.", "^3$", "^2$", "^\\d+$", "^[0-9.]+$", "1\\d*0", "0$", "^(?!.*\\.)"]
SEQ_SHAPES = ["bare", "list", "dict", "set", "dict-list"]


def _seq_shape(shape, rx, v):
    """(pattern, received value) with the regex leaf / the value at the same position of one of five shapes."""
    return (
        (rx, v),
        (["a", rx], ["0", "a", v, "z"]),
        ({"k1": rx}, {"k1": v, "k2": 2}),
        ({"__set__": [rx]}, {"__set__": _uniq([v, "zz"])}),
        ({"k1": [rx]}, {"k1": ["-", v], "k2": 2}),
    )[shape]


@st.composite
def _seq_case(draw):
    style = draw(style_st)
    n = draw(st.integers(3, 5))
    events = []
    if draw(st.integers(0, 3)) > 0:
        # values that are == but print differently, in a drawn order (a permutation of the group first, then repeats)
        group = draw(st.sampled_from(SEQ_GROUPS))
        rx = {"__regex__": draw(st.sampled_from(SEQ_REGEX))}
        shape = draw(st.integers(0, len(SEQ_SHAPES) - 1))
        vals = list(draw(st.permutations(group)))[:n]
        while len(vals) < n:
            vals.append(draw(st.sampled_from(group)))
        P = _seq_shape(shape, rx, None)[0]
        for v in vals:
            events.append({"payload": {"p": _seq_shape(shape, rx, v)[1]}, "extra": draw(st.dictionaries(st.sampled_from(["x"]), scalar, max_size=1))})
        mut, shape_name = ["seq-equal-values"], SEQ_SHAPES[shape]
    else:
        # any pattern, every event a mutated witness
        P = draw(pattern(2))
        for _ in range(n):
            V = witness(P)
            for _ in range(draw(st.sampled_from([0, 0, 1, 1, 2]))):
                V, _k = draw(mutate(V, style))
            events.append({"payload": {"p": V}, "extra": draw(st.dictionaries(st.sampled_from(["x"]), scalar, max_size=1))})
        mut, shape_name = ["seq-generic"], "generic"
    return {"form": "seq", "pattern": {"p": P}, "events": events, "via_var": draw(st.booleans()), "capture": draw(st.integers(0, 2)) > 0,
            "priority": draw(priority), "style": style, "mut": mut, "shape": shape_name}


def _seq_table():
    # sequence table: groups of values that are == but print differently x regular expressions that tell their texts apart x EVERY
    # order of the group (the first value once more at the end), shapes / statement forms / priorities rotating
    table = [
        ([1, 1.0, True, "1"], ["^1$", "rue", "\\.0$", "^1"]),
        ([0, 0.0, False], ["^0$", "alse", "\\."]),
        ([3, 3.0, "3.0"], ["^3$", "\\.0$"]),
        ([2, 2.0, "2"], ["^2$", "\\."]),
    ]
    m = 0
    for group, rxs in table:
        for p in rxs:
            rx = {"__regex__": p}
            for perm in itertools.permutations(group):
                m += 1
                shape = m % len(SEQ_SHAPES)
                vals = list(perm) + [perm[0]]
                yield {"form": "seq", "pattern": {"p": _seq_shape(shape, rx, None)[0]},
                       "events": [{"payload": {"p": _seq_shape(shape, rx, v)[1]}, "extra": {}} for v in vals],
                       "via_var": bool(m % 2), "capture": m % 3 != 0, "priority": ([None] * 4 + PRIORITIES)[m % 8], "mut": ["seq-table"], "shape": SEQ_SHAPES[shape]}


def strategy(tier):
    return _case()


def _number_table():
    # number table: every large number of the pool x (the number itself, its neighbours: +-1 / adjacent float / relative 1e-12..1e-9)
    # as the whole parameter, inside a longer list, inside a larger dict (nested), inside a larger set; statement forms rotate
    m = 0
    for N in BIG_INTS + BIG_FLOATS:
        for v in [N] + number_neighbours(N)[:6]:
            shapes = ((N, v), ([1, N], [0, 1, v, 7]), ({"k1": {"id": N}}, {"k1": {"id": v, "k2": 1}, "k3": 2}), ({"__set__": [N]}, {"__set__": _uniq([v, 2])}))
            for shape, (P, V) in enumerate(shapes):
                m += 1
                if (m + shape) % 2 and shape and v != N and isinstance(N, float):
                    continue  # thin out the float neighbours in containers
                base = {"pattern": {"p": P}, "payload": {"p": V}, "extra": {}, "mut": ["number-table"], "priority": ([None] * 4 + PRIORITIES)[m % 8]}
                if m % 3 == 0:
                    yield dict(base, form="param", via_var=True, second={"payload": {"p": witness(P)}, "extra": {}})
                elif m % 3 == 1:
                    yield dict(base, form="action_args", start_via_var=bool(m % 2))
                else:
                    yield dict(base, form="param")


def _long_table():
    # long-string table: every pool regex x (its witness, its non-witness) placed at the start of / inside (ending one before, at and
    # one behind position 4096, starting at 4090 / 4100) / at the very end of a filler text of 4096-20000 characters; the regex bare,
    # inside a list judged against a longer list, inside a dict, inside a dict inside a list; statement forms rotate
    m = 0
    for p, y, n in REGEX + REGEX_ZW:
        rx = {"__regex__": p}
        for s in (y, n):
            if not isinstance(s, str):
                continue
            places = [("start", None), ("end", None)] + [("mid", at) for at in (4095 - len(s), 4096 - len(s), 4097 - len(s), 4090, 4100)]
            for where, at in places:
                m += 1
                spec = {"n": LONG_SIZES[m % len(LONG_SIZES)], "where": where, "fill": LONG_FILLERS[m % 3], "rx": True}
                if at is not None:
                    spec["at"] = at
                shape = m % 4
                P, V, path = (
                    (rx, s, []),
                    (["a", rx], ["0", "a", s, 7], [["l", 2]]),
                    ({"k1": rx}, {"k1": s, "k2": 2}, [["d", "k1"]]),
                    ([{"k1": rx}], [{"k1": "zz"}, {"k1": s, "k2": 2}], [["l", 1], ["d", "k1"]]),
                )[shape]
                base = {"pattern": {"p": P}, "payload": {"p": V}, "extra": {}, "mut": ["long-table"], "priority": ([None] * 4 + PRIORITIES)[m % 8], "long": [["p", path, spec]]}
                if m % 5 == 0:
                    yield dict(base, form="param", via_var=True, second={"payload": {"p": witness(P)}, "extra": {}})
                elif m % 5 == 1:
                    yield dict(base, form="action_args", start_via_var=bool(m % 2))
                else:
                    yield dict(base, form="param")


def enumerate_cases(tier):
    yield from _seq_table()
    yield from _number_table()
    yield from _long_table()
    # exhaustive table: all (P, V) over leaves {2, "a"}, containers of <= 2 leaves, depth <= 2 for lists
    leaves = [2, "a"]
    lvl1 = list(leaves)
    for a in leaves:
        lvl1.append([a])
        lvl1.append({"__set__": [a]})
        lvl1.append({"k1": a})
        for b in leaves:
            lvl1.append([a, b])
            if a != b:
                lvl1.append({"__set__": [a, b]})
            lvl1.append({"k1": a, "k2": b})
    lvl1.append([])
    lvl1.append({})
    vals = list(lvl1)
    for x in lvl1[2:12]:
        vals.append([x])
        vals.append({"k1": x})
    pats = vals + [{"__regex__": "a"}, [{"__regex__": "a"}], {"__set__": [{"__regex__": "a"}, {"__regex__": "b$"}]}]
    pays = vals + ["ab", ["ab"], {"__set__": ["ab"]}, {"__set__": ["a", "b"]}, {"__set__": []}]
    for P in pats:
        for V in pays:
            yield {"form": "param", "pattern": {"p": P}, "payload": {"p": V}, "extra": {}, "mut": ["table"]}
    # regex table: every regex of both pools x every witness / non-witness of the pools (+ '', small numbers), the regex bare,
    # inside a list judged against a longer list, inside a dict judged against a larger dict; a slice runs under `priority p`
    rvals = _uniq([v for _, y, n in REGEX + REGEX_ZW for v in (y, n) if v is not NOWIT] + ["", "a", "b", 5, 2.5])
    n = 0
    for p, _, _ in REGEX + REGEX_ZW:
        rx = {"__regex__": p}
        for v in rvals:
            n += 1
            for shape, (P, V) in enumerate(((rx, v), (["a", rx], ["0", "a", v, 7]), ({"k1": rx}, {"k1": v, "k2": 2}))):
                yield {"form": "param", "pattern": {"p": P}, "payload": {"p": V}, "extra": {}, "mut": ["regex-table"], "priority": ([None, None] + PRIORITIES)[(n + 2 * shape) % 6]}
    # string table: every pool string x every spelling style x (its value, its un-decoded spelling(s), near misses), the string as
    # the whole parameter, inside a longer list, inside a larger dict, inside a larger set; statement forms rotate
    n = 0
    for s in ESC_STRINGS:
        for style in STYLES:
            for v in [s] + [v for v, _ in spelling_variants(s, style)][:5]:
                shapes = ((s, v), (["a", s], ["0", "a", v, 7]), ({"k1": s}, {"k1": v, "k2": 2}), ({"__set__": [s]}, {"__set__": _uniq([v, 2])}))
                for shape, (P, V) in enumerate(shapes):
                    n += 1
                    base = {"pattern": {"p": P}, "payload": {"p": V}, "extra": {}, "mut": ["string-table"], "style": style, "priority": ([None] * 4 + PRIORITIES)[n % 8]}
                    yield dict(base, form="param")
                    if n % 3 == 0:
                        yield dict(base, form="param", via_var=True, second={"payload": {"p": s if v != s else str_body(s, style)}, "extra": {}})
                    elif n % 3 == 1:
                        yield dict(base, form="action_args")
    # priority table: a few (P, V) pairs of every container kind, matching and not, under every priority, in every statement form
    pv = [
        ("a", "a"), ("a", "b"), ([2, "a"], [3, 2, "a"]), ([2, "a"], ["a", 2]), ({"__set__": [2]}, {"__set__": [2, "a"]}), ({"__set__": [2, "a"]}, {"__set__": [2]}),
        ({"k1": [2]}, {"k1": [2], "k2": "a"}), ({"k1": [2]}, {"k2": [2]}), ({"__regex__": "^ab"}, "abc"), ({"__regex__": "^ab"}, "cab"),
    ]
    for pr in PRIORITIES:
        for P, V in pv:
            base = {"pattern": {"p": P}, "payload": {"p": V}, "extra": {"x": 2}, "mut": ["priority-table"], "priority": pr}
            yield dict(base, form="param")
            yield dict(base, form="param", via_var=True, second={"payload": {"p": witness(P)}, "extra": {}})
            yield dict(base, form="action_args")
            yield dict(base, form="action_args", start_via_var=True)
        for target in [0, 1, "none"]:
            yield {"form": "action_instance", "which": 1, "target": target, "n": 3, "with_args": True, "event": "Finished", "priority": pr}
            yield {"form": "flow_instance", "which": 1, "target": target if isinstance(target, int) else 2, "n": 3, "with_args": True, "event": "Finished", "priority": pr}
    # many-extras table: a payload that satisfies the statement (and a control that does not) with n further unmentioned parameters /
    # list items / set members / dict entries, on one level or spread over all of them; statement forms and priorities rotate
    nested_p = {"k1": "a", "k2": {"__set__": [2]}, "k3": [2, "a"]}
    shapes = [
        ("go", "go", "stop", lambda n: {"params": n, "fill": []}),
        (["x"], ["x"], ["y"], lambda n: {"params": 0, "fill": [["p", [], n]]}),
        ({"__set__": [2]}, {"__set__": [2]}, {"__set__": [3]}, lambda n: {"params": 0, "fill": [["p", [], n]]}),
        ({"k1": 2}, {"k1": 2}, {"k1": 3}, lambda n: {"params": 0, "fill": [["p", [], n]]}),
        (nested_p, nested_p, dict(nested_p, k3=["a", 2]), lambda n: {"params": n - 3 * (n // 4), "fill": [["p", [], n // 4], ["p", [["d", "k2"]], n // 4], ["p", [["d", "k3"]], n // 4]]}),
    ]
    m = 0
    for n in (60, 80, 95, 100, 128, 150, 200, 300):
        for P, V, C, mk in shapes:
            for payload in (V, C):
                m += 1
                bulk = dict(mk(n), kind=("str", "int")[m % 2], pos=("spread", "front", "back")[m % 3])
                base = {"pattern": {"p": P}, "payload": {"p": payload}, "extra": {}, "mut": ["many-extras-table"], "priority": ([None, None] + PRIORITIES)[m % 6], "bulk": bulk}
                yield dict(base, form="param")
                if m % 3 == 0:
                    yield dict(base, form="param", via_var=True, second={"payload": {"p": V}, "extra": {}})
                elif m % 3 == 1:
                    yield dict(base, form="action_args")
    # reference table: the one statement `match $ref.Finished()` / `.Started()` visited for an object of kind A, then for an object of kind B
    # (every ordered pair, A == B included: another instance), in every variant; events of other instances in between must not advance it
    m = 0
    for evname, pool in (("Finished", list(OBJ_KINDS)), ("Started", ACTION_KINDS)):
        for a in pool:
            for b in pool:
                for variant in REBIND_VARIANTS:
                    m += 1
                    yield {"form": "ref_rebind", "variant": variant, "event": evname, "objects": [a, b, a], "refs": [0, 1], "priority": ([None, None] + PRIORITIES)[m % 6],
                           "schedule": [{"obj": 0, "uid": "unknown"}, {"obj": 2}, {"obj": 0}, {"obj": 1, "uid": "none"}, {"obj": 1}]}
    for form in ("action_instance", "flow_instance"):
        for which in range(3):
            for target in [0, 1, 2, "none", "missing", "unknown"]:
                for with_args in (True, False):
                    for event in ("Finished", "Started"):
                        if form == "flow_instance" and (not isinstance(target, int) or not with_args or event == "Started"):
                            continue
                        yield {"form": form, "which": which, "target": target, "n": 3, "with_args": with_args, "event": event}


# ---------------------------------------------------------------------------------------------


def _prio(case, indent="  "):
    """(`priority p` line in front of the judged match statement or '', labels)."""
    p = case.get("priority")
    if p is None:
        return "", []
    return f"{indent}priority {float(p)!r}\n", ["priority-set", f"priority-{float(p)!r}"]


def _instance_case(case):
    n, which, target = case["n"], case["which"], case["target"]
    prio, prio_labels = _prio(case)
    prio_lines = [prio.rstrip("\n")] if prio else []
    if case["form"] == "action_instance":
        with_args = case.get("with_args", True)
        evname = case.get("event", "Finished")
        action = 'UtteranceBotAction(script="same")' if with_args else "PostureBotAction()"
        typ = "UtteranceBotAction" if with_args else "PostureBotAction"
        lines = ["flow main"]
        for i in range(n):
            lines.append(f"  start {action} as $a{i}")
        lines += prio_lines + [f"  match $a{which}.{evname}()", "  send Hit()", "  match Never()"]
        state = smh.init("\n".join(lines) + "\n")
        starts = [e for e in state.outgoing_events if e["type"] == "Start" + typ]
        if len(starts) != n:
            raise Violation("setup", f"expected {n} Start{typ} events, got {smh.types(state.outgoing_events)}")
        event = smh.ev(typ + evname, is_success=True)
        if isinstance(target, int):
            event["action_uid"] = starts[target]["action_uid"]
        elif target == "none":
            event["action_uid"] = None  # an event that does not say which action instance it belongs to
        elif target == "unknown":
            event["action_uid"] = "00000000-0000-0000-0000-000000000000"
        out = smh.feed(state, event)
    else:
        lines = ["flow f $i", "  match Go(i=$i)", "", "flow main"]
        for i in range(n):
            lines.append(f"  start f {i} as $r{i}")
        lines += prio_lines + [f"  match $r{which}.Finished()", "  send Hit()", "  match Never()"]
        state = smh.init("\n".join(lines) + "\n")
        out = smh.feed(state, smh.ev("Go", i=target))
    hit = "Hit" in smh.types(out)
    if hit != (which == target):
        raise Violation(
            "instance-specificity",
            f"{case['form']} (action with arguments: {case.get('with_args', True)}, {case.get('event', 'Finished')}, flow priority {case.get('priority')}): statement refers to instance {which}, event belongs to instance {target}, Hit emitted={hit}",
        )
    lab = "same-instance" if which == target else "other-instance" if isinstance(target, int) else f"event-uid-{target}"
    return ok(nt=True, labels=[case["form"], lab] + prio_labels, view=case)


def _string_labels(case):
    """Share of the string-spelling dimension: patterns with string leaves written with escape sequences (at the top level of a
    parameter / nested), the quote character of the statement."""
    style = case.get("style")
    found = [escaped_leaves(P, style) for P in case["pattern"].values()]
    out = []
    if any(n for n, _ in found):
        out.append("escaped-string")
        out.append("escaped-string-top-level" if any(top for _, top in found) else "escaped-string-nested-only")
    if style is not None:
        out.append("single-quoted" if style.get("q") == "'" else "double-quoted")
    return out


def _short(text, limit=700):
    return text if len(text) <= limit else text[: limit // 2] + f" ...[{len(text) - limit} characters]... " + text[-limit // 2 :]


def _bulk_labels(case):
    """Share of the many-extras dimension: how many further parameters / elements in total, where they sit."""
    bulk = case.get("bulk")
    if not bulk:
        return []
    total = bulk_total(bulk)
    out = ["many-extras", "extras-" + ("40-69" if total < 70 else "70-94" if total < 95 else "95-199" if total < 200 else "200+")]
    if bulk.get("params"):
        out.append("extras-as-parameters")
    depths = sorted({len(path) for _, path, _ in bulk.get("fill", [])})
    if depths:
        out.append("extras-in-containers")
    if any(d >= 1 for d in depths):
        out.append("extras-in-nested-container")
    if len(depths) + bool(bulk.get("params")) >= 2:
        out.append("extras-on-several-levels")
    return out


def _long_note(case):
    if not case.get("long"):
        return ""
    return f" [long received strings: {case['long']} = the short text of the case at the start of / inside (at position `at`) / at the very end of n characters of filler text]"


def _long_labels(case):
    """Share of the long-string dimension: length class, placement of the short text, is the leaf judged by a regex, nesting."""
    out = []
    for name, path, spec in case.get("long") or []:
        if name not in case["payload"]:
            continue
        path = tuple((k, i) for k, i in path)
        s = _get(case["payload"][name], path)
        n = spec["n"] + len(s)
        out += ["long-value", "long-" + ("4000-4999" if n < 5000 else "5000-9999" if n < 10000 else "10000+"), "long-text-at-" + spec.get("where", "end")]
        if spec.get("where") == "mid":
            end = spec.get("at", 0) + len(s)
            out.append("long-text-ends-at-4096" if end == 4096 else "long-text-around-4096" if 4080 <= end <= 4110 else "long-text-elsewhere")
        out.append("long-on-regex-leaf" if spec.get("rx") else "long-on-other-leaf")
        out.append("long-nested" if path else "long-top-level")
    return sorted(set(out))


def _num_labels(case):
    """Share of the large-number dimension."""
    out = set()
    for P in case["pattern"].values():
        for path in _paths(P):
            x = _get(P, path)
            if is_big(x):
                out |= {"big-number", "big-int" if isinstance(x, int) else "big-float", "big-number-nested" if path else "big-number-top-level"}
                if isinstance(x, int) and x > 2 ** 53:
                    out.add("big-int-above-2^53")
    return sorted(out)


def _bulk_note(case):
    bulk = case.get("bulk")
    if not bulk:
        return ""
    return f" [the event carries {bulk_total(bulk)} further unmentioned parameters / container elements: {bulk}]"


def _rebind_prop(case):
    """One `match $ref.<Event>()` statement is reached several times (helper flow awaited one reference after the other / loop
    that re-assigns $ref / several instances of the helper flow side by side); at every visit it must advance on the event of
    the object $ref refers to THEN, and on no other event."""
    objs, refs, evname, variant = case["objects"], case["refs"], case.get("event", "Finished"), case["variant"]
    prio, prio_labels = _prio(case, "    " if variant == "loop" else "  ")
    lines = []
    if "flow_f" in objs:
        lines += ["flow f $i", "  match Go(i=$i)", ""]
    if "flow_g" in objs:
        lines += ["flow g $i", "  match Go(i=$i)", ""]
    starts = ["  " + OBJ_KINDS[k][0].format(i=i) for i, k in enumerate(objs)]
    if variant == "helper":
        lines += ["flow wait_done $ref", prio.rstrip("\n") or None, f"  match $ref.{evname}()", "", "flow main"] + starts
        for k, r in enumerate(refs):
            lines += [f"  await wait_done $o{r}", f"  send Hit(k={k})"]
    elif variant == "parallel":
        lines += ["flow wait_done $ref $k", prio.rstrip("\n") or None, f"  match $ref.{evname}()", "  send Hit(k=$k)", "", "flow main"] + starts
        for k, r in enumerate(refs):
            lines.append(f"  start wait_done $o{r} {k}")
    else:
        lines += ["flow main"] + starts + ["  $i = 0", f"  while $i < {len(refs)}"]
        for k, r in enumerate(refs):
            lines += ["    else" if k == len(refs) - 1 else f"    {'if' if k == 0 else 'elif'} $i == {k}", f"      $ref = $o{r}"]
        lines += [prio.rstrip("\n") or None, f"    match $ref.{evname}()", "    send Hit(k=$i)", "    $i = $i + 1"]
    lines.append("  match Never()")
    program = "\n".join(l for l in lines if l is not None) + "\n"
    state = smh.init(program)
    uids = {}
    action_starts = [e for e in state.outgoing_events if e["type"].startswith("Start") and "action_uid" in e]
    expected_starts = [(i, "Start" + OBJ_KINDS[k][1]) for i, k in enumerate(objs) if OBJ_KINDS[k][1]]
    if [e["type"] for e in action_starts] != [t for _, t in expected_starts]:
        raise Violation("setup", f"expected the start events {[t for _, t in expected_starts]}, got {smh.types(state.outgoing_events)}\n{program}")
    for (i, _), e in zip(expected_starts, action_starts):
        uids[i] = e["action_uid"]
    if "Hit" in smh.types(state.outgoing_events):
        raise Violation("reference-rebound-verdict", f"Hit emitted before any event was received\n{program}")
    waiting = {r: k for k, r in enumerate(refs)}  # object -> visit number of the statement that waits for it
    nxt = 0  # sequential variants: the visit that is waiting now
    story, advanced, withheld = [], 0, 0
    for item in case["schedule"]:
        j, fake = item["obj"], item.get("uid")
        prefix = OBJ_KINDS[objs[j]][1]
        if prefix is None:
            event = smh.ev("Go", i=j if fake is None else 100 + j)
        else:
            event = smh.ev(prefix + evname, action_uid=uids[j] if fake is None else None if fake == "none" else "00000000-0000-0000-0000-000000000000")
            if evname == "Finished":
                event["is_success"] = True
        expect = []
        if fake is None and j in waiting and (variant == "parallel" or waiting[j] == nxt):
            expect = [waiting.pop(j)]
            nxt += 1
        out = smh.feed(state, event)
        got = [e.get("k") for e in out if e["type"] == "Hit"]
        what = f"{'the ' + evname + ' event' if prefix else 'the end'} of object $o{j} ({objs[j]})" if fake is None else f"a {prefix + evname if prefix else 'Go'} event of no known instance ({fake})"
        story.append(f"{what} -> Hit{got}")
        if got != expect:
            now = "nothing" if variant != "parallel" and nxt - len(expect) >= len(refs) else (
                f"$o{refs[nxt - len(expect)]} ({objs[refs[nxt - len(expect)]]}), visit {nxt - len(expect)} of the statement" if variant != "parallel" else f"{ {'$o%d' % o: v for o, v in sorted(list(waiting.items()) + [(j, e) for e in expect])} }")
            raise Violation(
                "reference-rebound-verdict",
                f"{variant}: the one statement `match $ref.{evname}()` is visited for the references {['$o%d (%s)' % (r, objs[r]) for r in refs]}; waiting for {now}; on {what} the interpreter emitted Hit{got}, "
                f"the rule says Hit{expect} (the statement advances exactly on the event of the instance $ref refers to at that visit). History: {'; '.join(story)}\n{program}",
            )
        advanced += len(expect)
        withheld += not expect
    kinds = [("flow" if OBJ_KINDS[objs[r]][1] is None else "action") for r in refs]
    names = [OBJ_KINDS[objs[r]][1] or "flow:" + objs[r] for r in refs]
    changes = [a != b for a, b in zip(names, names[1:])]
    labels = ["ref-rebind", "ref-rebind-" + variant, "ref-" + evname.lower(), "ref-type-change" if any(changes) else "ref-same-type"]
    labels += sorted({f"ref-{a}-then-{b}" for a, b in zip(kinds, kinds[1:])})
    labels.append(f"ref-visits-advanced-{advanced}")
    if withheld:
        labels.append("ref-other-events-withheld")
    return ok(nt=advanced >= 2, labels=labels + prio_labels, view={"program": program, "history": story})


def _action_args_case(case):
    """`match XAction(p=P).Finished()` refers to the action instances whose start arguments match P."""
    pats = case["pattern"]
    pay, extra = expand_bulk(expand_long(case["payload"], case.get("long")), case["extra"], case.get("bulk"))
    pay = dict(pay)
    pay.update(extra)
    style = case.get("style")
    try:
        expected = all(k in pay and ref_match(P, pay[k]) for k, P in pats.items())
    except Unspecified as e:
        return ok(skip="unspecified: " + ("regex vs bool/None" if "regex" in str(e) else "equal numbers of different types"))
    try:
        start_args = ", ".join(f"{k}={lit(v, style)}" for k, v in pay.items())
    except TypeError:
        return ok(skip="payload not renderable as literal")
    if any(lit(v, style) == "set()" for v in pay.values()) or "set()" in start_args:
        return ok(skip="empty set literal")
    pat_args = ", ".join(f"{k}={lit(v, style)}" for k, v in pats.items())
    prio, prio_labels = _prio(case)
    assigns = ""
    if case.get("start_via_var"):
        assigns = "".join(f"  $s_{k} = {lit(v, style)}\n" for k, v in pay.items())
        start_args = ", ".join(f"{k}=$s_{k}" for k in pay)
    program = f"flow main\n{assigns}  start XAction({start_args}) as $a\n{prio}  match XAction({pat_args}).Finished()\n  send Hit()\n  match Never()\n"
    state = smh.init(program)
    starts = [e for e in state.outgoing_events if e["type"] == "StartXAction"]
    if len(starts) != 1:
        raise Violation("setup", f"expected one StartXAction, got {smh.types(state.outgoing_events)}\n{program}")
    out = smh.feed(state, smh.ev("XActionFinished", action_uid=starts[0]["action_uid"], is_success=True))
    got = "Hit" in smh.types(out)
    if got != expected:
        raise Violation(
            "action-arguments-verdict",
            f"action started as XAction({_short(start_args)}){' after ' + _short(assigns.replace(chr(10), '; ').strip()) if assigns else ''}; {'`' + prio.strip() + '` then ' if prio else ''}`match XAction({pat_args}).Finished()` {'matched' if got else 'did not match'} its Finished event, rule says {'match' if expected else 'no match'}"
            + _bulk_note(case) + _long_note(case),
        )
    d = max(depth(P) for P in pats.values())
    zw = ["zero-width-regex"] if any(has_zw(P) for P in pats.values()) else []
    zw += _string_labels(case)
    zw += _bulk_labels(case) + _long_labels(case) + _num_labels(case)
    zw += sorted(set(case.get("mut", [])) & {"neighbour-number", "number-table", "long-table"})
    if case.get("start_via_var"):
        zw.append("action-start-arguments-held-in-variables")
    return ok(nt=d >= 1 or "escaped-string" in zw, labels=["action-args", "match" if expected else "no-match", f"depth{d}"] + zw + prio_labels, view={"start": f"XAction({_short(start_args)})", "statement": f"match XAction({pat_args}).Finished()", "matched": got})


def _seq_prop(case):
    """3-5 events reach ONE waiting statement (`while True` / `match Ev(p=P)` [`as $ref`] / `send Hit()`) one after the other; the
    statement must advance on exactly those events whose own value matches P - whatever it has seen before."""
    pats, style = case["pattern"], case.get("style")
    args = ", ".join(f"{k}={lit(v, style)}" for k, v in pats.items())
    if case.get("via_var"):
        setup = "".join(f"  $v_{k} = {lit(v, style)}\n" for k, v in pats.items())
        stmt_args = ", ".join(f"{k}=$v_{k}" for k in pats)
    else:
        setup, stmt_args = "", args
    prio, prio_labels = _prio(case, "    ")
    capture = " as $ref" if case.get("capture", True) else ""
    program = f"flow main\n{setup}  while True\n{prio}    match Ev({stmt_args}){capture}\n    send Hit()\n"
    desc = (f"`{prio.strip()}` then " if prio else "") + f"`match Ev({args}){capture}`" + (" (pattern held in variables)" if case.get("via_var") else "") + " in a loop"
    state = smh.init(program)
    story, seen, unjudged, flips, first_flip, verdicts = [], [], 0, 0, None, set()
    for i, item in enumerate(case["events"]):
        try:
            expected = all(k in item["payload"] and ref_match(P, item["payload"][k]) for k, P in pats.items())
        except Unspecified:
            expected = None  # the event is sent (the statement sees it) but its own verdict is not judged
        event = {"type": "Ev"}
        for k, v in item["payload"].items():
            event[k] = smh.to_py(v)
        for k, v in item.get("extra", {}).items():
            event[k] = v
        got = "Hit" in smh.types(smh.feed(state, event))
        story.append(f"{event!r} -> {'matched' if got else 'not matched'}" + (" (not judged: unspecified)" if expected is None else ""))
        if expected is None:
            unjudged += 1
        elif got != expected:
            raise Violation(
                "match-verdict-event-sequence",
                f"{desc}: event {i + 1} of {len(case['events'])} at the same waiting statement, {event!r}: interpreter {'matched' if got else 'did not match'}, "
                f"rule says {'match' if expected else 'no match'} (every event is judged on its own value; a regex is searched in str(value)). History: {'; '.join(story)}",
            )
        else:
            verdicts.add(expected)
            # an earlier event carried a value that is == to this one but is another value (type / text) and had another verdict (or none)
            py = {k: v for k, v in event.items() if k in pats}
            if any(py == opy and repr(py) != repr(opy) and oexp != expected for opy, oexp in seen):
                flips += 1
                first_flip = first_flip or i + 1
        seen.append(({k: v for k, v in event.items() if k in pats}, expected))
    d = max(depth(P) for P in pats.values())
    labels = ["event-sequence", f"seq-events-{len(case['events'])}", "seq-shape-" + case.get("shape", "generic")] + sorted(set(case.get("mut", [])))
    if flips:
        labels += ["seq-equal-values-different-verdict", f"seq-deciding-event-{first_flip}"]
    if len(verdicts) == 2:
        labels.append("seq-match-and-no-match")
    if unjudged:
        labels.append("seq-with-unjudged-bool-event")
    if case.get("via_var"):
        labels.append("pattern-in-variable")
    labels.append("seq-with-capture" if capture else "seq-without-capture")
    if any(has_zw(P) for P in pats.values()):
        labels.append("zero-width-regex")
    return ok(nt=bool(flips) or d >= 2, labels=labels + prio_labels + _string_labels(case), view={"program": program, "history": story})


def prop(case):
    if case["form"] == "action_args":
        return _action_args_case(case)
    if case["form"] == "ref_rebind":
        return _rebind_prop(case)
    if case["form"] == "seq":
        return _seq_prop(case)
    if case["form"] != "param":
        return _instance_case(case)
    pats = case["pattern"]
    pay, extra = expand_bulk(expand_long(case["payload"], case.get("long")), case["extra"], case.get("bulk"))
    style = case.get("style")
    args = ", ".join(f"{k}={lit(v, style)}" for k, v in pats.items())
    second = case.get("second")
    try:
        expected = all(k in pay and ref_match(P, pay[k]) for k, P in pats.items())
        expected2 = second is not None and all(k in second["payload"] and ref_match(P, second["payload"][k]) for k, P in pats.items())
    except Unspecified as e:
        return ok(skip="unspecified: " + ("regex vs bool/None" if "regex" in str(e) else "equal numbers of different types"))
    if case.get("via_var"):
        setup = "".join(f"  $v_{k} = {lit(v, style)}\n" for k, v in pats.items())
        stmt_args = ", ".join(f"{k}=$v_{k}" for k in pats)
    else:
        setup, stmt_args = "", args
    if second is not None:
        # the same statement (with a capture) judges two events one after the other
        prio, prio_labels = _prio(case, "    ")
        program = f"flow main\n{setup}  while True\n{prio}    match Ev({stmt_args}) as $ref\n    send Hit()\n"
    else:
        prio, prio_labels = _prio(case)
        program = f"flow main\n{setup}{prio}  match Ev({stmt_args})\n  send Hit()\n  match Never()\n"
    desc = (f"`{prio.strip()}` then " if prio else "") + f"`match Ev({args})`" + (" (pattern held in variables)" if case.get("via_var") else "") + (" (in a loop, with `as $ref`)" if second is not None else "")
    state = smh.init(program)
    event = {"type": "Ev"}
    for k, v in pay.items():
        event[k] = smh.to_py(v)
    for k, v in extra.items():
        event[k] = v
    out = smh.feed(state, event)
    got = "Hit" in smh.types(out)
    if got != expected:
        raise Violation(
            "match-verdict",
            f"{desc} on event {_short(repr(event))}: interpreter {'matched' if got else 'did not match'}, rule says {'match' if expected else 'no match'}" + _bulk_note(case) + _long_note(case),
        )
    if second is not None:
        event2 = {"type": "Ev"}
        for k, v in second["payload"].items():
            event2[k] = smh.to_py(v)
        for k, v in second["extra"].items():
            event2[k] = v
        got2 = "Hit" in smh.types(smh.feed(state, event2))
        if got2 != expected2:
            raise Violation(
                "match-verdict-second-event",
                f"{desc}: after a first event {_short(repr(event))} ({'matched' if got else 'not matched'}), the same statement on event {event2!r}: interpreter {'matched' if got2 else 'did not match'}, rule says {'match' if expected2 else 'no match'}",
            )
    # a second, unrelated event must never advance the statement
    d = max(depth(P) for P in pats.values())
    muts = set(case.get("mut", []))
    slabels = _string_labels(case)
    nt = d >= 2 or bool(muts & {"drop", "swap", "retype"}) or "escaped-string" in slabels
    labels = ["match" if expected else "no-match", f"depth{d}"] + sorted(muts)
    if case.get("via_var"):
        labels.append("pattern-in-variable")
    if second is not None:
        labels.append("same-statement-second-event")
    if extra:
        labels.append("unmentioned-params")
    labels += _bulk_labels(case) + _long_labels(case) + _num_labels(case)
    if any(has_zw(P) for P in pats.values()):
        labels.append("zero-width-regex")
    labels += prio_labels + slabels
    view = {"statement": f"match Ev({args})", "event": _short(repr(event)), "matched": got}
    return ok(nt=nt, labels=labels, view=view)

