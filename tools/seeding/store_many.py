import json, subprocess, sys
import os
needs=json.load(open('/tmp/needs3.json' if os.path.exists('/tmp/needs3.json') else '/verif/tools/seeding/needs.json'))
res=json.loads(sys.argv[1])
for k,v in res.items():
    pid,i=k.split('-')
    subprocess.run(['python3','/verif/tools/seeding/store_seed.py',pid,i,needs[k],v],check=True)
