"""C02 - output rails gate every LLM-generated bot message, in every turn.

Domain : as C01 (vf.pipeline configurations: Colang 1.0 / 2.x, dialog rails on/off, rails exceptions on/off, v2 rails in
         config.yml or hand-written) with 1-3 output rails (check / rewrite / block-or-rewrite / shipped `self check output`)
         and 0-2 input rails; conversations of 2-5 turns in which any turn may be the one that is rejected or
         rewritten; routes alternate predefined and LLM-generated bot messages (v1 `$skip_output_rails`), v1 route act_var = text produced by an LLM-backed action and sent with `bot $answer`; in later turns
         the LLM may repeat verbatim the message text(s) it produced in an earlier turn (turn key `repeat_llm`) - the
         repeated text is checked material of the new turn under the new turn's verdicts.
         Colang 1.0 conversations may carry per-call generation options (turn key `options`, docs/user_guides/advanced/
         generation-options.md): calls served with the output rails switched off (`rails: {output: False}` or a rails list
         without "output") mixed with plain calls and calls whose options leave the output rails on.  Nothing is asserted
         about the output rails of a call that switched them off (C16 owns that); every other call is checked as ever.
         Turn key `think`: the LLM's message completions of the turn START with a reasoning block
         `<think>LM{t}C{k}Z THK{t}C{k}Z ...</think>` followed by the usual completion (the marker is inside AND after the
         block; `THK..Z` marks the block alone).  Not applied to the Colang 2.x flow-continuation completions (a leading
         block there is a syntax error of the generated flow - C17's subject).
         Turn key `long` ({"n": length, "place": "head"|"tail"}): the LLM's fresh message texts of the turn are very long
         (3000 .. 48000 characters; most of them longer than half, many longer than the whole of the 16000 characters the
         prompt of the shipped `self check output` rail may have) with checked material at BOTH ends: place "head" =
         `LM{t}C{k}Z words ... END{t}C{k}Z`, place "tail" = `BEG{t}C{k}Z words ... LM{t}C{k}Z` (the marker the rails' verdicts
         hang on ends the text).  A rail that cannot take the text may fail - then the turn is answered without the text
         (refusal / internal-error message, "fail closed") and no obligation arises; whatever IS returned was shown to the
         rails from its first to its last character.
         Colang 1.0 configurations with dialog rails: `enable_multi_step_generation: True` (configuration key "ext": "c02-ms";
         the generate_next_steps completion is parsed and started as a flow) and turn key `steps` (routes next_llm /
         next_predef - user intents no flow handles): the generate_next_steps completion carries the bot message INLINE
         (`bot inform time` + an indented quoted text, alone / followed by a predefined step / after one, or the text on the
         same line) - for a bot intent without predefined message (next_llm) or with one (next_predef).  That text is LLM text
         of the turn like any other: if it (or any part) is returned, now or in a later turn that utters the same bot intent,
         it must have passed the output rails of that turn.  `steps` is also generated with multi-step generation off.
         Turn key `fault` ("dialog"): the custom action(s) the flow of the turn executes RAISE.  Routes with a custom action:
         act_llm / act_var (action = first step of the flow) and, in configurations whose "ext" contains "act" (c02-act, c02-ms+act,
         c02-par+act; both Colang versions, generated dialog), pal = predefined message, action, LLM message; pap = predefined
         message, action, predefined message; lap (2.x only) = LLM message, action, predefined message - so a turn may already have
         uttered something when it fails (Colang 1.0: reply = messages so far + internal-error message, the turn is hidden from the
         history - `hide_prev_turn`; Colang 2.x: the flow carries on).  A failure is the third kind of turn event of the statement's
         last sentence: the faulted turn itself must not return unchecked / rejected LLM text (nothing else is asserted about it),
         every later turn is judged by the unchanged memoryless model.
         Turn key `vars` ({"tokens": [...], "place": "end"|"end."|"start"|"mid"|"glued"}): the fresh message texts of the turn carry
         1-3 `$` tokens - `$<name>` where the name is a variable the CALLER planted (case key `context`: {name: value}, sent as a
         `context` role message in front of the Colang 1.0 history; string / number / list values), a key the runtime keeps in the
         context of the conversation ($last_user_message, $user_message, $bot_message, $relevant_chunks, $i, $event, ...) or a name
         nothing defines, and `$` followed by no identifier at all ($5, $10.50, US$).  To the pipeline an LLM completion is data:
         the reply carries it exactly as the output rails released it (a rewriting fake rail keeps the tokens in its rewritten
         form).  Not put into Colang 2.x flow-continuation completions nor into the inline text of next-steps completions (there
         the text is part of a generated flow - C17's subject).
         Colang 2.x route `par` (configuration key "ext": "c02-par", dialog True): `vf llm reply and vf llm reply` - two
         LLM texts obtained and said IN PARALLEL (and-group).  Generated only when PARALLEL_ROUTE is on (see there).
         Turn kinds: a turn is started by an ordinary user message, by an EMPTY user message ("user": "", every configuration) or - Colang
         1.0, configuration key "ext" containing "ev" (c02-ev, c02-ms+ev, c02-act+ev, c02-ms+act+ev) - by an EVENT message of the caller
         (turn key `start_event`, routes ev_llm / ev_custom / ev_pl / ev_predef, see EV_ROUTES): the first turn of a conversation (no
         user turn before it) or a later one.  The LLM text of such a turn is checked material like that of any other turn.
Oracle : reference model of the output chain (vf.pipeline.model_output) per LLM-generated text, memoryless over
         turns (= the history invariant: the chain of turn t is a function of turn t's verdicts only), checked on
         the rail-action trace and on the returned reply:
           * every LLM-lineage text in the reply went through the complete chain, in order, each rail seeing the
             text as left by its predecessors, and is present in its final (rewritten) form only;
           * a rejected text is absent from the reply (also in rewritten form), the rail's refusal / rail
             exception is present;
           * whatever output-rail invocations happened on an LLM text follow the configured order;
           * the text is in the reply exactly as the rails released it (white space aside): as handed back by the last rewriting
             rail / as given to every rail that judged the final form; outside these released texts the reply carries no
             LLM-lineage text (a reply that differs from what was released is text no rail saw);
           * a part of the completion (the reasoning block) that shows up in the reply was in the text every rail that
             judged the un-rewritten completion was given (a part no rail saw is unchecked LLM text); likewise the two ends
             of a long completion: an end that shows up in the reply was given to each of those rails (in any of the rail's
             invocations of the turn, so handing a long text over piece by piece is fine as long as no piece is left out).
Not asserted (DESIGN 4/C02 S): output rails on messages produced by rails themselves or on predefined messages;
         an LLM text that is generated but never uttered (no obligation arises); Colang 2.x rewriting.
Found by this check on the original tree and fixed in /repo since: C02-F1 (v2 `$output_rails_in_progress` stuck after an
         abort, later turns skipped the output rails), C02-F11 (shipped `self check output` + enable_rails_exceptions
         kept the blocked text).  `known` still recognises exactly these two signatures (it only matters if one of
         them is ever listed as open again).
Open on the unchanged tree (reported, not listed yet): C02-F23 - Colang 2.x, two bot messages said in parallel: the global
         `$output_rails_in_progress` set by the first `_bot_say` makes the second one skip `run output rails`, its LLM text
         is uttered unchecked (repro replays/known/C02/v2-parallel-llm-replies-second-unchecked.json).
"""
import copy
import os
import re

from hypothesis import strategies as st

from vf import fakes, pipeline
from vf.core import Violation, ok
from vf.fakes import block_message, refusal_text

PID = "C02"
LEVEL = "exploration"
CASE_TIMEOUT = 90
WALL = {"quick": 170, "thorough": 1500}
RULE = (
    "case = configuration (v1 ~80% / v2 ~20%; 1-3 ordered output rails from {check, rewrite(v1), block-or-rewrite(v1), shipped self "
    "check output}; 0-2 input rails; dialog rails on/off; enable_rails_exceptions on/off; v2 rails in config.yml or hand-written) "
    "x 2-5 turns, each with a route (predefined message / LLM message / predefined+LLM / LLM+predefined / two LLM messages / "
    "LLM-chosen next step / custom action) and a verdict accept|reject|rewrite per (rail, turn); the scripted LLM's message texts "
    "carry unique markers; in a third of the later turns the LLM repeats verbatim the message text(s) of an earlier turn, which "
    "are then checked material of the new turn. Colang 1.0: a third of the conversations use per-call generation options - each turn "
    "is a plain call, a call with the output rails switched off ({output: False} alone or with input off, rails lists without 'output') "
    "or a call whose options leave them on ({}, {output: True}, {input: False}, full rails list, log options); the call that switched "
    "them off is exempt, every other call is judged as ever. In a quarter of the turns (not for Colang 2.x flow-continuation "
    "completions) the LLM's message completions START with a reasoning block <think>marker THK-marker words</think> (one or several "
    "lines) followed by the usual completion, so checked material sits inside and after the block. Body shape 'very long completion "
    "with head and tail markers' (turn key long; a third of the turns of configurations with the shipped self check output rail, a "
    "twelfth elsewhere): the fresh message texts of the turn have a drawn length of 3000..48000 characters (<= half of the rail "
    "prompt's max_length 16000 as control, around half, between half and whole, around the whole, beyond) with the LLM marker at the "
    "start and an END marker as last word, or a BEG marker first and the LLM marker as last word. Colang 1.0 with dialog rails: a third "
    "of the configurations enable multi-step generation (routes then favour user intents no flow handles); in three quarters of the "
    "next_llm/next_predef turns of those (and of a third of the other dialog configurations) the generate_next_steps completion carries "
    "the bot message inline (step + indented quoted text; + a predefined step after / before it; text on the same line) for a bot "
    "intent without (next_llm) or with (next_predef) a predefined message, and the same intents are uttered again in later turns "
    "with and without inline text. Failure as turn event: two thirds of the configurations with a generated dialog (both versions) "
    "get three more flows in which a custom action runs AFTER a bot message (routes pal = predefined, action, LLM message; pap = predefined, "
    "action, predefined; lap = LLM message, action, predefined - 2.x only); in half of the conversations of dialog configurations three "
    "quarters of the turns whose route executes a custom action (act_llm, act_var, pal, pap, lap) carry fault=dialog: the action raises "
    "(Colang 1.0: internal-error reply behind whatever was uttered, turn hidden from the history; 2.x: flow continues). Enumerated: "
    "llm, X+fault, llm with every single-turn event, llm for every such route X, two faulted turns in a row before a predefined+LLM turn, "
    "faulted and fault-free runs of the same route in one conversation. Labels fault:action-raises-after-predefined-message / "
    "-after-llm-message / -as-first-step, fault:v<n>:<route>, llm-turn-right-after-faulted-turn, faulted-turn-before-later-llm-turn. "
    "Body shape 'completion with $ tokens' (turn key vars; two fifths of the conversations, there two thirds of the turns without a long "
    "completion; not in Colang 2.x flow-continuation completions): the fresh message texts of the turn carry 1-3 tokens drawn from "
    "$<planted name> (half of the Colang 1.0 conversations of this kind plant 1-3 variables account_pin / user_name / customer_id / api_key "
    "with string, number or list values through a context role message in front of the history - case key context), $<run-time context "
    "key> (last_user_message, user_message, bot_message, last_bot_message, relevant_chunks, i, event, allowed, ...), $<name nothing "
    "defines> and non-identifiers ($5, $10.50, $, US$, $(x)), placed at the end (with / without a glued full stop), at the start, behind "
    "the marker or glued to punctuation; a later repeat_llm turn repeats the tokens while the context has moved on; rewriting fake rails "
    "keep the tokens. Enumerated first (28 cases): plain turn, tokens, tokens under reject / rewrite, repeat of the token text - per "
    "token family x 4 Colang 1.0 configurations (general mode, routes llm / pl / lp / act_var / next_llm) + 2 Colang 2.x controls. Labels "
    "llm-text-with-dollar-token:<planted-context-variable|run-time-context-key|unknown-name|not-an-identifier>:<passed|rewritten|rejected>, "
    ":place-<p>, :repeated-from-earlier-turn, context-variables-planted-by-caller. "
    "Turn kinds (how a turn is started): ordinary user message / EMPTY user message (the empty string; both Colang versions, every "
    "configuration; a third of the conversations - half of those with the shipped self check output rail - have two thirds of their "
    "user turns empty) / EVENT-STARTED (Colang 1.0 with a generated dialog, not passthrough, conversations without generation options: "
    "half of the configurations get four flows started by an event message of the caller - UserSilent -> LLM message, custom event with "
    "a parameter -> LLM message, custom event -> predefined + LLM message, custom event -> predefined message only as control; turn key "
    "start_event, routes ev_llm / ev_custom / ev_pl / ev_predef; in half of those conversations the FIRST turn is event-started, i.e. "
    "before any user turn, later turns draw the routes like any other). The LLM text of such a turn is owed to every output rail like any "
    "other. Enumerated FIRST (153 cases): empty message as only turn / middle turn / first turn / twice at the end x every single-turn "
    "event x 9 configurations (shipped self check output in general mode, dialog, passthrough, Colang 2.x config / hand-written / llm "
    "continuation; custom rails only as control); event-started turn as only turn, first turn before user turns, after a predefined "
    "event-started turn, after an empty-message turn, after a user turn (control) x every single-turn event x 5 configurations (custom "
    "rails, self check output, multi-step, action flows). Labels turn-kind:empty-user-message:<only-turn|first-turn|middle-turn|last-turn>, "
    ":llm-message|no-llm-message, empty-user-message-llm-turn:<shipped-self-check-output|custom-rails-only>:v<n>, "
    "turn-kind:event-started:<before-any-user-turn|after-a-user-turn>, :<UserSilent|custom-event>, :<route>:<llm-message|no-llm-message>, "
    "event-started-llm-turn:<...>:<position>, flows-started-by-event. "
    "Colang 2.x route par (two LLM "
    "replies said in parallel, hand-written rails) only while PARALLEL_ROUTE is on. Non-trivial = at least 2 turns and a reject or rewrite by an output rail in a turn strictly before the "
    "last turn that generated an LLM message, or a repeated LLM text in a conversation with a reject/rewrite, or a call with the output "
    "rails switched off before a later call with them on that generated an LLM message, or an over-long completion that made the "
    "self-check rail fail (turn answered without the text) before a later turn that generated an LLM message, or a turn whose custom "
    "action raised before a later turn that generated an LLM message; distinct by the whole case."
)
ASSUMPTIONS = [
    "rail actions are fakes (register_action); they apply their verdict to texts with an LLM lineage and accept anything else (refusals, predefined messages)",
    "Colang 2.x output rails are generated in the library's check shape only (the guardrails library offers no rewriting convention: `_bot_say` utters its own $text)",
    "an LLM text that never shows up in the reply creates no obligation (e.g. v1 drops the second bot message of a flow once output rails are configured)",
    "generation options are per call (documented): a call without options, or with options that do not disable the output rails, runs all configured output rails whatever the options of earlier calls of the conversation were; options are generated for Colang 1.0 only (the docs list them as unsupported for 2.x) and always keep the dialog rails on",
    "a reasoning block the LLM puts in front of its completion is LLM text like the rest: an implementation may drop it, but whatever part of the completion is returned must have been given to the output rails, and nothing of a rejected completion may be returned",
    "a completion may be longer than an output rail can take (the shipped self check output rail renders it into a prompt of at most 16000 characters): the rail may then fail and the turn be answered with a refusal / the internal-error message - nothing is asserted about such a turn except that the text is absent; a text that IS returned was given to every rail of the chain completely (both ends), in one or several invocations",
    "a bot message text that the LLM writes into its generate_next_steps completion (inline, under the bot step) is LLM text of that turn: the implementation may ignore it (the unchanged tree does: it asks for the message again), no obligation arises unless the text reaches a reply",
    "a custom action that raises is a failure of its turn in the sense of the statement's last sentence: how the faulted turn is answered is C03's subject (here only: it returns no LLM text that did not pass the complete chain, and the refusal of a rejecting rail is not demanded in it); every later turn of the conversation is checked exactly like a turn of a conversation without the failure. The fault is raised by the fake custom action itself (fakes.InjectedFault, a RuntimeError); rail actions and the LLM never fail here",
    "an LLM completion is data: `$name`, `$5` and the like inside it mean nothing to the pipeline (only predefined bot messages are documented as templates over context variables), so the message returned to the caller is, white space aside, character by character the text the output rails released - the rewritten form if a rail rewrote it; context variables are planted by the caller with a `context` role message in front of the Colang 1.0 message history (documented way), never for Colang 2.x",
    "a user message may be the empty string: the turn is a turn like any other - if the LLM produces a message for it, the text is owed to every configured output rail (the shipped self check output rail renders its prompt with an empty user_input)",
    "a Colang 1.0 turn may be started by an event message of the caller ({'role': 'event', 'event': {...}}, documented python API) instead of a user message; a flow it drives may utter a bot intent without predefined text, which the LLM writes - LLM text like any other, also when no user turn came before. Generated only where the unchanged tree answers such a call at all: not in passthrough mode (the LLM prompt would be the - missing - user message: generate raises AssertionError) and not in conversations with per-call generation options (there the runtime asks for the user intent of an EARLIER user message again inside the event-started call, for which the scripted LLM has no answer; history handling is not C02's subject); an event-started turn never carries a very long completion (turn key long): when the self check rail fails on it, the Colang 1.0 runtime's failure handling (hide_prev_turn) raises AssertionError from generate if the conversation has no user message yet - failure handling is C03's subject",
    "a turn that needs more than 100 internal events makes the Colang 1.0 runtime raise `Too many events.`; such cases are counted as skipped",
]


def budget(tier):
    return 400 if tier == "quick" else 6000


# ------------------------------------------------------------------------------------------------
# per-call generation options (Colang 1.0): spellings that switch the output rails off for the call / leave them on

OPTS_OFF = [
    {"rails": {"output": False}},
    {"rails": ["input", "dialog", "retrieval"]},
    {"rails": ["input", "dialog"]},
    {"rails": ["dialog"]},
    {"rails": {"input": False, "output": False}},
    {"rails": {"output": False}, "log": {"activated_rails": True}},
]
OPTS_ON = [
    {},
    {"rails": {"output": True}},
    {"rails": {"input": False}},
    {"rails": ["input", "dialog", "retrieval", "output"]},
    {"rails": ["dialog", "output"]},
    {"log": {"activated_rails": True}},
]


def output_selected(options):
    """Documented meaning of options.rails for the output category: no options / no `rails` = all rails; a list enables
    exactly the listed categories; a dict disables what it maps to False (missing = True)."""
    rails = (options or {}).get("rails")
    if rails is None:
        return True
    if isinstance(rails, list):
        return "output" in rails
    return rails.get("output", True) is not False


# ------------------------------------------------------------------------------------------------
# LLM completions that start with a reasoning block


def mk_think(t, k):
    """Marker of the reasoning block alone of the completion with lineage (t, k)."""
    return f"THK{t}C{k}Z"


def mk_beg(t, k):
    """Marker at the very beginning of a long completion whose LLM marker sits at its end (turn key "long", place "tail")."""
    return f"BEG{t}C{k}Z"


def mk_end(t, k):
    """Marker at the very end of a long completion whose LLM marker sits at its beginning (turn key "long", place "head")."""
    return f"END{t}C{k}Z"


def long_text(t, k, body, n, place):
    """Message text of exactly `n` characters (if n leaves room): first marker, body, filler made of the body's words, last marker.
    place "head": `LM{t}C{k}Z ... END{t}C{k}Z`; place "tail": `BEG{t}C{k}Z ... LM{t}C{k}Z` (the checked material ends the text)."""
    first, last = (fakes.mk_llm(t, k), mk_end(t, k)) if place == "head" else (mk_beg(t, k), fakes.mk_llm(t, k))
    head, tail = f"{first} {body} ", f" {last}"
    room = max(0, int(n) - len(head) - len(tail))
    unit = f"{body} and "
    return head + (unit * (room // len(unit) + 1))[:room] + tail


NEXT_STEPS_SHAPES = ("inline", "inline+predef", "predef+inline", "sameline")

# ------------------------------------------------------------------------------------------------
# LLM completions that contain `$<name>` tokens (turn key "vars"; case key "context" = variables the caller plants)

# names of variables the caller may plant with a `context` role message in front of the conversation (Colang 1.0)
PLANTED_NAMES = ("account_pin", "user_name", "customer_id", "api_key")
PLANTED_VALUES = ("CTXV0Z 904117", 904117, "CTXV1Z jane.doe@example.com", "CTXV2Z secret value", 3.5, True, ["CTXV3Z", 7])
# names the runtime itself keeps in the context of a conversation (documented context variables and variables of the shipped
# flows / of the generated rail flows); which of them exist at a given moment does not matter to the oracle
RUNTIME_NAMES = (
    "last_user_message", "user_message", "bot_message", "last_bot_message", "relevant_chunks", "last_bot_intent", "last_user_intent",
    "i", "output_flows", "input_flows", "triggered_output_rail", "triggered_input_rail", "allowed", "vf_checked", "answer", "event",
    "generation_options", "skip_output_rails", "relevant_chunks_sep", "retrieved_for",
)
UNKNOWN_NAMES = ("price_list", "total", "USD", "x", "account", "user_messages", "Bot_Message")
# `$` followed by something that is not an identifier (prices and the like), or an identifier glued to other characters
NON_IDENTIFIERS = ("$5", "$10.50", "$", "$$", "$ 7", "US$", "$-1", "$(x)", "5$")
VAR_PLACES = ("end", "end.", "start", "mid", "glued")
_VAR_TOKEN = re.compile(r"\S*\$\S*")


def var_kind(token, context):
    """Label bucket of a token of a "vars" turn: what kind of name follows the `$`."""
    m = re.fullmatch(r"[^$]*\$([A-Za-z_][A-Za-z0-9_]*)(.*)", token)
    if not m:
        return "not-an-identifier"
    name = m.group(1)
    if name in (context or {}):
        return "planted-context-variable"
    if name in RUNTIME_NAMES:
        return "run-time-context-key"
    return "unknown-name"


def with_vars(text, marker, spec):
    """The fresh message text `text` (= `marker rest`) with the `$` tokens of the turn key "vars" put in: place "end" / "end." (a
    sentence with the tokens closes the text, with / without a full stop glued to the last token), "start" (the tokens come first),
    "mid" (right behind the marker), "glued" (every token directly followed by a letter-free suffix: `$name,` `$name!` ...)."""
    tokens = [str(x) for x in spec.get("tokens", [])]
    if not tokens:
        return text
    place = spec.get("place", "end")
    if place == "glued":
        sep = (",", "!", "?", ";", ":")
        return text + " " + " ".join(tok + sep[n % len(sep)] for n, tok in enumerate(tokens)) + " ok"
    joined = " ".join(tokens)
    if place == "start":
        return f"{joined} {text}"
    if place == "mid" and text.startswith(marker + " "):
        return f"{marker} {joined} {text[len(marker) + 1:]}"
    return f"{text} on file is {joined}" + ("." if place == "end." else "")


def _norm(s):
    return " ".join(str(s).split())


class _Session(fakes.Session):
    """Turn key "think" (text): the message completions of the turn start with `<think>...</think>`, then the usual
    completion follows.  The block carries the marker(s) of the message text AND its own marker(s).
    Turn key "long" ({"n": length, "place": "head" | "tail"}): the fresh message texts of the turn are `long_text`s.
    Turn key "steps" (one of NEXT_STEPS_SHAPES; routes next_llm / next_predef): the generate_next_steps completion carries
    the bot message INLINE - the bot step followed by an indented quoted text (or the text on the same line) - alone, followed
    by a predefined step or after one.
    Turn key "fault" ("dialog"): the custom action(s) the flow of this turn executes raise (fakes.InjectedFault) - routes with a
    custom action: act_llm / act_var (the action is the first step of the flow) and the routes of the extension "act" (ACT_ROUTES:
    the action comes after a bot message)."""

    def message_text(self, turn, k, body):
        text = super().message_text(turn, k, body)
        spec = self.turns[turn] if turn < len(self.turns) else {}
        lg, vs = spec.get("long"), spec.get("vars")
        if (lg or vs) and text == f"{fakes.mk_llm(turn, k)} {body}":  # a fresh text (a repeated one stays verbatim, `$` tokens included)
            if lg:
                text = long_text(turn, k, body, lg["n"], lg.get("place", "head"))
            else:
                text = with_vars(text, fakes.mk_llm(turn, k), vs)
            self.message_texts[turn][-1] = text
        return text

    def rewritten(self, cat, idx, turn, text):
        """A rewriting output rail keeps the `$` tokens of the text it rewrites (as a rail that masks e-mail addresses or trims
        a text would): the rewritten form is `RWO..Z sanitized output` + the tokens, in their order."""
        out = super().rewritten(cat, idx, turn, text)
        if cat == "out" and "$" in str(text) and fakes.lineage(text):
            out += " " + " ".join(_VAR_TOKEN.findall(str(text)))
        return out

    # the history the caller re-sends with every call (Colang 1.0) starts with the `context` message that plants case["context"]
    @property
    def messages(self):
        return self._messages

    @messages.setter
    def messages(self, value):
        planted = self.case.get("context")
        head = [{"role": "context", "content": copy.deepcopy(planted)}] if planted and self.cfg["v"] == 1 else []
        self._messages = head + list(value)

    def should_fail(self, action_name, k):
        entry = self.trace[-1]  # appended by fakes._enter just before this call
        if entry.get("cat") == "dialog" and self.turns[entry["turn"]].get("fault") == "dialog":
            return True  # turn key "fault": every invocation of a custom (dialog) action in this turn raises
        return super().should_fail(action_name, k)

    def llm_answer(self, task, prompt, turn, k):
        if task == "generate_user_intent" and (turn, k) not in self.override and self.route(turn) in ACT_ROUTES:
            return "  " + ACT_ROUTES[self.route(turn)][0]
        shape = self.turns[turn].get("steps") if turn < len(self.turns) else None
        if task == "generate_next_steps" and shape and (turn, k) not in self.override:
            step = "bot " + fakes.NEXT_STEP.get(self.route(turn), "inform something")
            # (the inline text is an ordinary, short message text of the turn: a later `repeat_llm` turn may produce it again)
            msg = fakes.Session.message_text(self, turn, k, self.turns[turn].get("body", "generated words"))
            if shape == "sameline":
                return f'{step} "{msg}"'
            if shape == "inline+predef":
                return f'{step}\n  "{msg}"\nbot offer help'
            if shape == "predef+inline":
                return f'bot express greeting\n{step}\n  "{msg}"'
            return f'{step}\n  "{msg}"'
        ans = super().llm_answer(task, prompt, turn, k)
        th = self.turns[turn].get("think") if turn < len(self.turns) else None
        if th and task in ("generate_bot_message", "general"):
            ln = fakes.lineage(ans)
            if ln:
                inner = " ".join(f"{fakes.mk_llm(a, b)} {mk_think(a, b)}" for a, b in ln)
                return f"<think>{inner} {th}</think>\n{ans}"
        return ans


# ------------------------------------------------------------------------------------------------
# Colang 2.x: two LLM replies said in parallel (opt-in route "par" through the pipeline's extension registry)

EXT_PAR = "c02-par"
_PAR_ANCHOR = '  elif $route == "act_llm"\n'
# The route makes the unchanged tree fail (finding C02-F23, reported): it is generated only after the finding is listed
# in known_findings.json (open -> tolerated through `known`, fixed -> must hold) or when asked for explicitly.
PARALLEL_ROUTE = os.environ.get("VF_C02_PARALLEL") == "1"


def _par_build_config(cfg, colang, yaml_text):
    if colang.count(_PAR_ANCHOR) != 1:
        raise RuntimeError("c02: the generated Colang 2.x dialog flow no longer has the branch the `par` route is inserted before")
    return colang.replace(_PAR_ANCHOR, '  elif $route == "par"\n    vf llm reply and vf llm reply\n' + _PAR_ANCHOR), yaml_text


pipeline.register_extension(EXT_PAR, build_config=_par_build_config)

# Colang 1.0: multi-step generation (the generate_next_steps completion is parsed and started as a flow)
EXT_MS = "c02-ms"


def _ms_build_config(cfg, colang, yaml_text):
    import yaml

    y = yaml.safe_load(yaml_text)
    y["enable_multi_step_generation"] = True
    return colang, yaml.safe_dump(y, sort_keys=False)


pipeline.register_extension(EXT_MS, build_config=_ms_build_config)

# Both Colang versions: flows in which a custom action runs AFTER a bot message (route -> (v1 user intent, steps); P = predefined
# message, A = custom dialog action, L = LLM-generated message).  Together with the turn key "fault" (the action raises) this gives
# turns that have already uttered something when they fail: Colang 1.0 answers with the messages so far + the internal-error
# message and hides the turn (`hide_prev_turn`), Colang 2.x carries on with the flow.
EXT_ACT = "c02-act"
ACT_ROUTES = {
    "pal": ("ask lookup", ["P", "A", "L"]),
    "pap": ("ask order", ["P", "A", "P"]),
    "lap": ("ask report", ["L", "A", "P"]),  # (Colang 2.x only: with output rails Colang 1.0 ends a flow after its first LLM message)
}
FAULT_ROUTES = ("act_llm", "act_var") + tuple(ACT_ROUTES)  # routes whose flow executes a custom action
_V1_ACT = """
define user ask lookup
  "look that up"

define user ask order
  "where is my order"

define flow lookup
  user ask lookup
  bot express greeting
  execute vf_dialog_action
  bot inform lookup

define flow order
  user ask order
  bot express greeting
  execute vf_dialog_action
  bot offer help

"""
_V2_ACT = (
    '  elif $route == "pal"\n    bot say "{greet}"\n    await VfDialogAction()\n    vf llm reply\n'
    '  elif $route == "pap"\n    bot say "{greet}"\n    await VfDialogAction()\n    bot say "{help}"\n'
    '  elif $route == "lap"\n    vf llm reply\n    await VfDialogAction()\n    bot say "{help}"\n'
).format(**fakes.PREDEF)


def _act_build_config(cfg, colang, yaml_text):
    if cfg["v"] == 1:
        if "define flow weather" not in colang:
            raise RuntimeError("c02: the routes of the extension `act` need the generated Colang 1.0 dialog")
        return colang + _V1_ACT, yaml_text
    if colang.count(_PAR_ANCHOR) != 1:
        raise RuntimeError("c02: the generated Colang 2.x dialog flow no longer has the branch the `act` routes are inserted before")
    return colang.replace(_PAR_ANCHOR, _V2_ACT + _PAR_ANCHOR), yaml_text


def _chain(*builders):
    def build(cfg, colang, yaml_text):
        for b in builders:
            colang, yaml_text = b(cfg, colang, yaml_text)
        return colang, yaml_text

    return build


# (a configuration spec names ONE extension: the combinations are registered under their own names)
EXT_MS_ACT, EXT_PAR_ACT = "c02-ms+act", "c02-par+act"
pipeline.register_extension(EXT_ACT, build_config=_act_build_config)
pipeline.register_extension(EXT_MS_ACT, build_config=_chain(_ms_build_config, _act_build_config))
pipeline.register_extension(EXT_PAR_ACT, build_config=_chain(_par_build_config, _act_build_config))


# Colang 1.0: flows that are started by an EVENT message of the caller ({"role": "event", "event": {"type": ...}}, documented in
# docs/user_guides/advanced/event-based-api.md / python-api: the `UserSilent` example) instead of a user utterance; route ->
# (event the caller sends, kinds of the bot messages of the flow).  The LLM writes the message of a bot intent without predefined text.
EXT_EV = "c02-ev"
EV_ROUTES = {
    "ev_llm": ({"type": "UserSilent"}, ["L"]),
    "ev_custom": ({"type": "VfTicketUpdated", "ticket": "T-17"}, ["L"]),  # a custom event with a parameter
    "ev_pl": ({"type": "VfReminderDue"}, ["P", "L"]),
    "ev_predef": ({"type": "VfSessionPing"}, ["P"]),  # control: the event-started turn says a predefined message only
}
_V1_EV = """
define flow vf user silent
  event UserSilent
  bot ask if user is still there

define flow vf ticket updated
  event VfTicketUpdated
  bot inform ticket update

define flow vf reminder due
  event VfReminderDue
  bot express greeting
  bot remind user

define flow vf session ping
  event VfSessionPing
  bot offer help

"""


def _ev_build_config(cfg, colang, yaml_text):
    if cfg["v"] != 1 or "define flow weather" not in colang:
        raise RuntimeError("c02: the event-started routes of the extension `ev` need the generated Colang 1.0 dialog")
    return colang + _V1_EV, yaml_text


EXT_MS_EV, EXT_ACT_EV, EXT_MS_ACT_EV = "c02-ms+ev", "c02-act+ev", "c02-ms+act+ev"
pipeline.register_extension(EXT_EV, build_config=_ev_build_config)
pipeline.register_extension(EXT_MS_EV, build_config=_chain(_ms_build_config, _ev_build_config))
pipeline.register_extension(EXT_ACT_EV, build_config=_chain(_act_build_config, _ev_build_config))
pipeline.register_extension(EXT_MS_ACT_EV, build_config=_chain(_ms_build_config, _act_build_config, _ev_build_config))


def _ext_has(cfg, feature):
    """feature in {"ms", "par", "act", "ev"}: is it part of the configuration's extension?"""
    ext = cfg.get("ext") or ""
    return ext.startswith("c02-") and feature in ext[4:].split("+")

# lengths of long completions: around half of the self-check prompt's default max_length (16000), between half and whole,
# around the whole, far beyond; a few moderately long ones as control
HALF, FULL = 8000, 16000
_ST_LONG_N = st.one_of(
    st.integers(3000, HALF),
    st.integers(HALF - 100, HALF + 300),
    st.integers(HALF + 1, FULL - 500),
    st.integers(HALF + 1, FULL - 500),
    st.integers(FULL - 500, FULL + 500),
    st.integers(FULL + 1, 3 * FULL),
    st.sampled_from([HALF + 1, HALF + 2, FULL - 200, FULL + 1, 2 * FULL + 1, 3 * HALF, 5 * HALF + 7]),
)


def _parallel_route_on():
    if PARALLEL_ROUTE:
        return True
    try:
        from vf.core import load_known

        return any(f.get("id") == "C02-F23" for f in load_known())
    except Exception:
        return False


@st.composite
def _case(draw):
    v = draw(st.sampled_from([1] * 4 + [2]))
    cfg = {"v": v, "in": draw(pipeline.st_rail_kinds(v, 0, 2, "in")), "out": draw(pipeline.st_rail_kinds(v, 1, 3, "out"))}
    cfg["dialog"] = draw(st.sampled_from([True, True, False])) if v == 1 else draw(st.sampled_from([False, True, "llmc"]))
    cfg["exc"] = draw(st.sampled_from([False, False, True]))
    if v == 1:
        cfg["ret"] = 0
        if draw(st.sampled_from([False, False, False, False, True])):
            cfg["passthrough"] = True
    else:
        cfg["style"] = draw(st.sampled_from(["config", "hand"]))
    routes = pipeline.routes_for(cfg)
    if v == 1 and cfg["dialog"]:
        # the flow gets its text from an LLM-backed action and sends it with `bot $answer`: LLM-generated all the same
        routes = tuple(routes) + ("act_var", "act_var")
    if v == 2 and cfg["dialog"] is True and cfg["style"] == "hand" and _parallel_route_on() and draw(st.booleans()):
        cfg["ext"] = EXT_PAR
        routes = tuple(routes) + ("par", "par", "par")
    multi_step = v == 1 and cfg["dialog"] is True and draw(st.sampled_from([False, False, True]))
    if multi_step:
        cfg["ext"] = EXT_MS
    # flows in which a custom action runs after a bot message (two thirds of the configurations with a generated dialog)
    act_routes = cfg["dialog"] is True and draw(st.sampled_from([False, True, True]))
    if act_routes:
        cfg["ext"] = {None: EXT_ACT, EXT_MS: EXT_MS_ACT, EXT_PAR: EXT_PAR_ACT}[cfg.get("ext")]
        routes = tuple(routes) + (("pal", "pal", "pap") if v == 1 else ("pal", "pal", "pap", "lap"))
    # turns whose user message is the empty string: in a third of the conversations (half with the shipped self check output rail)
    with_empty = draw(st.sampled_from([False, True] if "self" in cfg["out"] else [False, False, True]))
    # a turn whose custom action raises: in half of the conversations of configurations with a generated dialog
    with_faults = cfg["dialog"] is True and draw(st.booleans())
    # the LLM is asked for the next step(s) on the next_* routes only: more of them where the completion is parsed as a flow
    inline_routes = v == 1 and cfg["dialog"] is True and (multi_step or draw(st.sampled_from([False, False, True])))
    if inline_routes:
        routes = tuple(routes) + ("next_llm",) * (6 if multi_step else 2) + ("next_predef",) * (2 if multi_step else 1)
    p_long = [False, False, True] if "self" in cfg["out"] else [False] * 11 + [True]
    with_options = v == 1 and draw(st.sampled_from([False, False, True]))
    # flows started by an event message of the caller (half of the Colang 1.0 configurations with a generated dialog; not in
    # passthrough mode - there the LLM prompt IS the user message, which an event-started turn does not have - and not in
    # conversations with per-call generation options, see ASSUMPTIONS)
    ev_routes = v == 1 and cfg["dialog"] is True and not cfg.get("passthrough") and not with_options and draw(st.booleans())
    if ev_routes:
        cfg["ext"] = cfg["ext"] + "+ev" if cfg.get("ext") else EXT_EV
        routes = tuple(routes) + ("ev_llm", "ev_llm", "ev_custom", "ev_pl", "ev_predef")
    # the first turn of half of those conversations is started by an event (before any user turn)
    ev_first = ev_routes and draw(st.booleans())
    can_think = not (v == 2 and cfg["dialog"] == "llmc")
    # completions with `$` tokens: in two fifths of the conversations (not in Colang 2.x flow-continuation completions, where the
    # text is part of a generated flow - C17's subject); in half of those of Colang 1.0 the caller plants context variables
    with_dollar = can_think and draw(st.sampled_from([False, False, False, True, True]))
    planted = {}
    if with_dollar and v == 1 and draw(st.booleans()):
        for name in draw(st.lists(st.sampled_from(PLANTED_NAMES), min_size=1, max_size=3, unique=True)):
            planted[name] = draw(st.sampled_from(PLANTED_VALUES))
    st_token = st.one_of(
        st.sampled_from(PLANTED_NAMES).map(lambda n: "$" + n),
        st.sampled_from(sorted(planted) or PLANTED_NAMES[:1]).map(lambda n: "$" + n),
        st.sampled_from(RUNTIME_NAMES).map(lambda n: "$" + n),
        st.sampled_from(RUNTIME_NAMES[:5]).map(lambda n: "$" + n),
        st.sampled_from(UNKNOWN_NAMES).map(lambda n: "$" + n),
        st.sampled_from(NON_IDENTIFIERS),
    )
    turns, dollar = [], []
    for t in range(draw(st.sampled_from([2, 2, 3, 3, 4, 5]))):
        repeat = draw(st.sampled_from([None, None, t - 1, t - 1, draw(st.integers(0, t - 1))])) if t >= 1 else None
        turns.append(
            {
                "user": draw(pipeline.st_user_text(t)),
                "route": draw(st.sampled_from(tuple(EV_ROUTES) + ("ev_llm", "ev_custom"))) if t == 0 and ev_first else draw(st.sampled_from(routes)) if repeat is None else draw(st.sampled_from([turns[repeat]["route"], turns[repeat]["route"], draw(st.sampled_from(routes))])),
                "in": [draw(pipeline.st_verdict(k, p_accept=12)) for k in cfg["in"]],
                "out": [draw(pipeline.st_verdict(k, p_accept=4)) for k in cfg["out"]],
                "body": draw(pipeline.st_body()),
            }
        )
        if repeat is not None:
            # the LLM produces, character by character, the message text(s) it produced in turn `repeat` again
            turns[-1]["repeat_llm"] = repeat
        if turns[-1]["route"] in EV_ROUTES:
            # turn kind "event-started": the caller sends an event message instead of a user message
            turns[-1]["user"] = ""
            turns[-1]["start_event"] = copy.deepcopy(EV_ROUTES[turns[-1]["route"]][0])
        elif with_empty and draw(st.sampled_from([True, True, False])):
            # turn kind "empty user message"
            turns[-1]["user"] = ""
        if with_options:
            # plain call / output rails off for this call / options that leave them on
            opt = draw(st.sampled_from([None, None, None] + OPTS_OFF + OPTS_ON[:4] + [draw(st.sampled_from(OPTS_ON))]))
            if opt is not None:
                turns[-1]["options"] = opt
        if can_think and draw(st.sampled_from([False, False, False, True])):
            words = draw(pipeline.st_body())
            turns[-1]["think"] = words if draw(st.booleans()) else f"{words}\n{draw(pipeline.st_body())}\n"
        if inline_routes and turns[-1]["route"] in ("next_llm", "next_predef") and draw(st.sampled_from([True, True, True, False])):
            # the completion that names the next step carries the bot message with it
            turns[-1]["steps"] = draw(st.sampled_from(NEXT_STEPS_SHAPES[:3] * 2 + NEXT_STEPS_SHAPES[3:]))
        if with_faults and turns[-1]["route"] in FAULT_ROUTES and draw(st.sampled_from([True, True, True, False])):
            # the custom action(s) of this turn's flow raise
            turns[-1]["fault"] = "dialog"
        if draw(st.sampled_from(p_long)) and "start_event" not in turns[-1]:
            # a very long completion: checked material at its beginning and its end (not in an event-started turn: a rail that
            # fails on the over-long text there makes the Colang 1.0 runtime raise while it hides a turn that has no user message)
            turns[-1]["long"] = {"n": draw(_ST_LONG_N), "place": draw(st.sampled_from(["head", "tail"]))}
        elif with_dollar and draw(st.sampled_from([True, True, False])):
            # the fresh message texts of the turn carry 1-3 `$` tokens (a later turn that repeats the text repeats them)
            turns[-1]["vars"] = {"tokens": draw(st.lists(st_token, min_size=1, max_size=3)), "place": draw(st.sampled_from(VAR_PLACES))}
        dollar.append(bool(turns[-1].get("vars")) or (repeat is not None and dollar[repeat]))
        if dollar[-1] and turns[-1].get("steps"):
            del turns[-1]["steps"]  # (the inline text of a next-steps completion is part of a generated flow: no `$` tokens in there)
    case = {"config": cfg, "turns": turns, "api": draw(st.sampled_from(["sync", "async"]))}
    if planted:
        case["context"] = planted
    return case


def strategy(tier):
    return _case()


DOLLAR_FAMILIES = (
    # (tokens of turn 1, tokens of turn 2, variables the caller plants)
    (["$account_pin"], ["$user_name", "$account_pin"], {"account_pin": "CTXV0Z 904117", "user_name": "CTXV1Z jane.doe@example.com"}),
    (["$5", "$customer_id", "$price_list"], ["$10.50", "$api_key"], {"customer_id": 904117, "api_key": ["CTXV3Z", 7]}),
    (["$last_user_message"], ["$user_message", "$last_bot_message"], None),
    (["$bot_message", "$10.50"], ["$relevant_chunks", "$bot_message"], None),
    (["$i", "$event"], ["$triggered_output_rail", "$allowed", "US$"], None),
    (["$price_list", "$5", "$", "$(x)"], ["$total", "$ 7"], {"account_pin": "CTXV0Z 904117"}),  # nothing that names a variable
)


def _enumerate_dollar():
    """Completions with `$` tokens: a plain turn, a turn whose text carries tokens, a turn with tokens under a reject / rewrite,
    a turn in which the LLM repeats the text of the second turn (the context has moved on), for planted variables, run-time keys,
    unknown names and prices; every place of the tokens; Colang 1.0 general mode and dialog routes, two Colang 2.x controls."""
    n = 0
    combos = (
        (1, False, ["check"], False), (1, True, ["both", "check"], False), (1, True, ["rewrite", "self"], True), (1, False, ["both", "self"], True),
        (2, False, ["check"], False), (2, True, ["check", "self"], True),
    )
    for v, dialog, kinds, exc in combos:
        cfg = {"v": v, "in": [], "out": kinds, "dialog": dialog, "exc": exc}
        if v == 2:
            cfg["style"] = "hand" if dialog else "config"
        else:
            cfg["ret"] = 0
        A = ["accept"] * len(kinds)
        events = [A[:-1] + ["reject"]] + ([["rewrite"] + A[1:]] if kinds[0] in ("both", "rewrite") else [["reject"] + A[1:]])
        for first, second, planted in DOLLAR_FAMILIES[:: 1 if v == 1 else 3]:
            ev = events[n % len(events)]
            r1 = ("llm", "pl", "act_var", "lp")[n % 4] if v == 1 else ("llm", "lp", "pl")[n % 3]
            r2 = ("act_var", "llm", "next_llm", "pl")[n % 4] if v == 1 else "llm"
            p1, p2 = VAR_PLACES[n % len(VAR_PLACES)], VAR_PLACES[(n + 2) % len(VAR_PLACES)]
            n += 1
            turns = []
            for t, (route, out, vs, rep) in enumerate([("llm", A, None, None), (r1, A, {"tokens": first, "place": p1}, None), (r2, ev, {"tokens": second, "place": p2}, None), ("llm", A, None, 1)]):
                turns.append({"user": f"{fakes.mk_user(t)} how is the weather", "route": route, "in": [], "out": out, "body": "some answer"})
                if vs:
                    turns[-1]["vars"] = vs
                if rep is not None:
                    turns[-1]["repeat_llm"] = rep
            case = {"config": cfg, "turns": turns, "api": "sync"}
            if planted and v == 1:
                case["context"] = planted
            yield case


def _turn(t, route, out, user=None):
    turn = {"user": f"{fakes.mk_user(t)} how is the weather" if user is None else user, "route": route, "in": [], "out": list(out), "body": "some answer"}
    if route in EV_ROUTES:
        turn["user"] = ""
        turn["start_event"] = copy.deepcopy(EV_ROUTES[route][0])
    return turn


def _enumerate_turn_kinds():
    """Turn kinds next to the ordinary user turn.  (1) EMPTY user message - as the only turn, first, in the middle, twice in a row
    at the end - for every single-turn event, in configurations with the shipped `self check output` rail (both Colang versions,
    general mode / dialog / passthrough / llm continuation) and with custom rails only (control).  (2) Colang 1.0: turns STARTED BY AN
    EVENT message (UserSilent, custom events) whose flow says an LLM-written message: as the only turn, as first turn before ordinary
    user turns, after a predefined event-started turn, after an empty-message turn, and later in the conversation (control)."""
    combos = (
        (1, False, ["self"], False, {}), (1, True, ["check", "self"], True, {}), (1, False, ["self"], False, {"passthrough": True}), (1, True, ["both", "self"], False, {}),
        (1, False, ["check"], False, {}), (1, True, ["rewrite", "check"], False, {}),
        (2, False, ["self"], False, {}), (2, True, ["check", "self"], True, {}), (2, "llmc", ["self"], False, {}),
    )
    for v, dialog, kinds, exc, extra in combos:
        cfg = {"v": v, "in": [], "out": kinds, "dialog": dialog, "exc": exc}
        if v == 2:
            cfg["style"] = "hand" if dialog is True else "config"
        else:
            cfg["ret"] = 0
        cfg.update(extra)
        A = ["accept"] * len(kinds)
        R = A[:-1] + ["reject"]
        X = ["rewrite"] + A[1:] if kinds[0] in ("both", "rewrite") else (["reject"] + A[1:])
        r2 = "pl" if dialog is True else "llm"
        for ev in (R, A) + ((X,) if X != R else ()):
            yield {"config": cfg, "turns": [_turn(0, "llm", ev, "")], "api": "sync"}
            yield {"config": cfg, "turns": [_turn(0, "llm", A), _turn(1, "llm", ev, ""), _turn(2, r2, R if ev is A else ev)], "api": "sync"}
        yield {"config": cfg, "turns": [_turn(0, "llm", R, ""), _turn(1, "llm", A), _turn(2, "llm", R)], "api": "async"}
        yield {"config": cfg, "turns": [_turn(0, r2, X), _turn(1, "llm", A, ""), _turn(2, "llm", R, "")], "api": "sync"}
    combos = (
        (["check"], False, EXT_EV, {}), (["check", "self"], False, EXT_EV, {}), (["both", "check"], True, EXT_MS_EV, {}), (["self"], True, EXT_ACT_EV, {}),
        (["rewrite", "self"], False, EXT_MS_ACT_EV, {}),
    )
    for kinds, exc, ext, extra in combos:
        cfg = {"v": 1, "in": [], "out": kinds, "dialog": True, "exc": exc, "ret": 0, "ext": ext}
        cfg.update(extra)
        A = ["accept"] * len(kinds)
        R = A[:-1] + ["reject"]
        X = ["rewrite"] + A[1:] if kinds[0] in ("both", "rewrite") else (["reject"] + A[1:])
        for ev in (R, A) + ((X,) if X != R else ()):
            B = R if ev is A else ev
            for seq in (
                [("ev_llm", ev)],
                [("ev_llm", A), ("llm", ev), ("ev_llm", B)],
                [("ev_custom", ev), ("llm", A), ("pl", B)],
                [("ev_pl", ev), ("ev_llm", A), ("llm", B)],
                [("ev_predef", A), ("ev_custom", ev), ("llm", B)],
                [("llm", A, ""), ("ev_llm", ev), ("act_var", B)],
                [("llm", A), ("ev_llm", ev), ("ev_pl", B), ("llm", A)],  # control: event-started turns after an ordinary user turn
            ):
                yield {"config": cfg, "turns": [_turn(t, *x) for t, x in enumerate(seq)], "api": "sync"}


def enumerate_cases(tier):
    """Deterministic core: turn kinds (empty user message, event-started turns) first; `$` tokens; then 3-turn conversations
    `ok, X, ok` and `predefined, X, ok` for every single-turn event X, and the families below."""
    yield from _enumerate_turn_kinds()
    yield from _enumerate_dollar()
    for v in (1, 2):
        kinds_list = [["check", "self"], ["check", "check"]] if v == 2 else [["check", "both"], ["rewrite", "self"], ["both"]]
        for kinds in kinds_list:
            for exc in (False, True):
                for dialog in (True, False) if v == 1 else (True, False, "llmc"):
                    cfg = {"v": v, "in": ["check"], "out": kinds, "dialog": dialog, "exc": exc}
                    if v == 2:
                        cfg["style"] = "config"
                    else:
                        cfg["ret"] = 0
                    events = [["accept"] * len(kinds)]
                    for i, k in enumerate(kinds):
                        for verdict in ("reject", "rewrite"):
                            if fakes.eff(k, verdict) == verdict:
                                e = ["accept"] * len(kinds)
                                e[i] = verdict
                                events.append(e)
                    for first in ("llm", "predef") if dialog else ("llm",):  # (dialog "llmc" has both routes too)
                        for ev in events:
                            turns = []
                            for t, (route, out) in enumerate([(first, ["accept"] * len(kinds)), ("llm", ev), ("llm", ["accept"] * len(kinds))]):
                                turns.append({"user": f"{fakes.mk_user(t)} how is the weather", "route": route, "in": ["accept"], "out": out, "body": "some answer"})
                            yield {"config": cfg, "turns": turns, "api": "sync"}

    # LLM text obtained by an LLM-backed action and sent with `bot $answer` (Colang 1.0)
    for kinds in (["check"], ["both", "check"]):
        for exc in (False, True):
            cfg = {"v": 1, "in": [], "out": kinds, "dialog": True, "exc": exc, "ret": 0}
            A = ["accept"] * len(kinds)
            for ev in (A, A[:-1] + ["reject"], ["reject"] + A[1:]) + ((["rewrite"] + A[1:],) if kinds[0] == "both" else ()):
                turns = []
                for t, (route, out) in enumerate([("llm", A), ("act_var", ev), ("act_var", A), ("llm", A)]):
                    turns.append({"user": f"{fakes.mk_user(t)} what is the answer", "route": route, "in": [], "out": out, "body": "some answer"})
                yield {"config": cfg, "turns": turns, "api": "sync"}

    # the LLM repeats itself: turn 0 produces a text, turns 1 and 2 produce the identical text again
    for v in (1, 2):
        for dialog in (False, True) if v == 1 else (False, True, "llmc"):
            for exc in (False, True):
                for kinds in (["check"], ["both", "check"]) if v == 1 else (["check"], ["check", "self"]):
                    cfg = {"v": v, "in": [], "out": kinds, "dialog": dialog, "exc": exc}
                    if v == 2:
                        cfg["style"] = "hand" if dialog is True else "config"
                    else:
                        cfg["ret"] = 0
                    A = ["accept"] * len(kinds)
                    R = A[:-1] + ["reject"]
                    W = ["rewrite"] + A[1:]
                    for first, again in ((R, R), (R, A), (A, R), (A, A), (W, R)):
                        if W in (first, again) and kinds[0] != "both":
                            continue
                        turns = [{"user": f"{fakes.mk_user(0)} how is the weather", "route": "llm", "in": [], "out": first, "body": "the same answer"}]
                        for t in (1, 2):
                            turns.append({"user": f"{fakes.mk_user(t)} how is the weather", "route": "llm", "in": [], "out": again, "body": "unused", "repeat_llm": 0})
                        yield {"config": cfg, "turns": turns, "api": "sync"}

    # per-call generation options (Colang 1.0): a call with the output rails off, then calls that do not switch them off
    n = 0
    for dialog in (False, True):
        for exc in (False, True):
            for kinds in (["check"], ["both", "self"]):
                cfg = {"v": 1, "in": ["check"], "out": kinds, "dialog": dialog, "exc": exc, "ret": 0}
                A = ["accept"] * len(kinds)
                events = [A, ["reject"] + A[1:], A[:-1] + ["reject"]] + ([["rewrite"] + A[1:]] if kinds[0] == "both" else [])
                for ev in events:
                    for shape in ("off,plain,plain", "plain,off,on,plain", "off,off,plain", "on,off,plain"):
                        off, on = OPTS_OFF[n % len(OPTS_OFF)], OPTS_ON[n % len(OPTS_ON)]
                        n += 1
                        turns = []
                        first_checked = True
                        for t, what in enumerate(shape.split(",")):
                            out = A
                            if what != "off" and t > 0 and first_checked:
                                out, first_checked = ev, False  # the event sits in the first checked call after an unchecked one
                            turn = {"user": f"{fakes.mk_user(t)} how is the weather", "route": "llm", "in": ["accept"], "out": out, "body": "some answer"}
                            if what != "plain":
                                turn["options"] = off if what == "off" else on
                            turns.append(turn)
                        yield {"config": cfg, "turns": turns, "api": "sync"}

    # reasoning-model completions: `<think>...</think>` in front of the message completion, for every single-turn event
    for v in (1, 2):
        for dialog in (False, True):
            for kinds in (["check"], ["both", "self"]) if v == 1 else (["check", "self"],):
                for exc in (False, True):
                    cfg = {"v": v, "in": [], "out": kinds, "dialog": dialog, "exc": exc}
                    if v == 2:
                        cfg["style"] = "hand" if dialog else "config"
                    else:
                        cfg["ret"] = 0
                    A = ["accept"] * len(kinds)
                    events = [A, ["reject"] + A[1:], A[:-1] + ["reject"]] + ([["rewrite"] + A[1:]] if kinds[0] == "both" else [])
                    for ev in events:
                        for routes in (("llm", "llm", "llm"),) + ((("pl", "act_var", "llm"),) if v == 1 and dialog and ev is not A else ()):
                            turns = []
                            for t, (route, out, think) in enumerate(zip(routes, (A, ev, A), ("I should greet", "step one\nstep two\n", None))):
                                turns.append({"user": f"{fakes.mk_user(t)} how is the weather", "route": route, "in": [], "out": out, "body": "some answer"})
                                if think:
                                    turns[-1]["think"] = think
                            yield {"config": cfg, "turns": turns, "api": "sync"}

    # Colang 1.0: the next-step completion carries the bot message inline (multi-step generation on, and off), the same
    # bot intent is uttered again in the following turns (with and without an inline message), then an ordinary LLM turn
    for ms, kinds, exc in ((True, ["check"], False), (True, ["both", "self"], True), (False, ["check"], False)):
        cfg = {"v": 1, "in": [], "out": kinds, "dialog": True, "exc": exc, "ret": 0}
        if ms:
            cfg["ext"] = EXT_MS
        A = ["accept"] * len(kinds)
        events = [A, A[:-1] + ["reject"]] + ([["rewrite"] + A[1:]] if kinds[0] == "both" else [])
        for shape in NEXT_STEPS_SHAPES:
            for ev in events:
                for first in ("next_llm", "next_predef") if ev is A else ("next_llm",):
                    turns = []
                    for t, (route, out, steps) in enumerate([(first, ev, shape), ("next_llm", A, None), ("next_llm", ev, shape), ("llm", A, None)]):
                        turns.append({"user": f"{fakes.mk_user(t)} what time is it", "route": route, "in": [], "out": out, "body": "some answer"})
                        if steps:
                            turns[-1]["steps"] = steps
                    yield {"config": cfg, "turns": turns, "api": "sync"}

    # very long completions (longer than half / than the whole of the self-check prompt's max_length), checked material at the
    # beginning and at the very end, for every single-turn event; a short turn before and after
    n = 0
    sizes = (HALF + 1, HALF + 500, 12000, FULL - 300, FULL + 1, 2 * FULL + 1, 20000, 3 * FULL + 77)
    combos = (
        (1, False, ["self"], False), (1, False, ["check", "self"], True), (1, True, ["self"], True), (1, True, ["self", "both"], False),
        (2, False, ["self"], False), (2, True, ["check", "self"], True), (2, "llmc", ["self"], False),
    )
    for v, dialog, kinds, exc in combos:
        cfg = {"v": v, "in": [], "out": kinds, "dialog": dialog, "exc": exc}
        if v == 2:
            cfg["style"] = "hand" if dialog is True else "config"
        else:
            cfg["ret"] = 0
        A = ["accept"] * len(kinds)
        R = ["reject" if k == "self" else "accept" for k in kinds]
        for ev in (A, R):
            for place in ("head", "tail"):
                first, second = sizes[n % len(sizes)], sizes[(n + 4) % len(sizes)]  # (one of the two fits the prompt of the self-check rail, the other cannot)
                n += 1
                turns = []
                for t, (out, lg) in enumerate([(A, None), (ev, {"n": first, "place": place}), (A, {"n": second, "place": place}), (A, None)]):
                    turns.append({"user": f"{fakes.mk_user(t)} how is the weather", "route": "llm", "in": [], "out": out, "body": "some answer"})
                    if lg:
                        turns[-1]["long"] = lg
                yield {"config": cfg, "turns": turns, "api": "sync"}

    # a turn whose custom action raises - after a predefined message (pal, pap), after an LLM message (lap, Colang 2.x) or as the
    # first step of its flow (act_llm, act_var) - then a turn with every single-turn event, then an ordinary turn; and two failing
    # turns in a row followed by a turn that says a predefined and an LLM message
    for v in (1, 2):
        for kinds in (["check"], ["self"], ["both", "check"]) if v == 1 else (["check"], ["check", "self"]):
            for exc in (False, True):
                cfg = {"v": v, "in": [], "out": kinds, "dialog": True, "exc": exc, "ext": EXT_ACT}
                if v == 2:
                    cfg["style"] = "hand" if exc else "config"
                else:
                    cfg["ret"] = 0
                A = ["accept"] * len(kinds)
                events = [A, ["reject"] + A[1:]] + ([A[:-1] + ["reject"]] if len(kinds) > 1 else []) + ([["rewrite"] + A[1:]] if kinds[0] == "both" else [])
                for ev in events:
                    seqs = [(("llm", A, 0), (x, A, 1), ("llm", ev, 0), ("llm", A, 0)) for x in (("pal", "pap", "act_llm", "act_var") if v == 1 else ("pal", "pap", "lap", "act_llm"))]
                    seqs.append((("pal", A, 1), ("pap", A, 1), ("pl", ev, 0), ("llm", A, 0)))
                    seqs.append((("pap", A, 1), ("pal", ev, 0), ("pal", ev, 1), ("llm", ev, 0)))
                    for seq in seqs:
                        turns = []
                        for t, (route, out, fault) in enumerate(seq):
                            turns.append({"user": f"{fakes.mk_user(t)} look that up", "route": route, "in": [], "out": out, "body": "some answer"})
                            if fault:
                                turns[-1]["fault"] = "dialog"
                        yield {"config": cfg, "turns": turns, "api": "sync"}

    # Colang 2.x: two LLM replies said in parallel (see PARALLEL_ROUTE)
    if _parallel_route_on():
        for exc in (False, True):
            cfg = {"v": 2, "in": [], "out": ["check"], "dialog": True, "exc": exc, "style": "hand", "ext": EXT_PAR}
            for seq in (("par", "llm"), ("llm", "par", "ll")):
                for ev in (["accept"], ["reject"]):
                    turns = [{"user": f"{fakes.mk_user(t)} how is the weather", "route": r, "in": [], "out": ev if r == "par" else ["accept"], "body": "some answer"} for t, r in enumerate(seq)]
                    yield {"config": cfg, "turns": turns, "api": "sync"}


# ------------------------------------------------------------------------------------------------


def _detail(cfg, t, **kw):
    d = {"v": cfg["v"], "exc": bool(cfg["exc"]), "turn": t}
    if cfg.get("ext"):
        d["ext"] = cfg["ext"]
    d.update(kw)
    return d


def _clip(s, n=200):
    s = str(s)
    return s if len(s) <= n else f"{s[:n // 2]} ...({len(s)} characters)... {s[-n // 2:]}"


def _first_message_kind(cfg, route):
    """"P" / "L": kind of the first bot message of the flow the route selects (labels only)."""
    if not cfg["dialog"]:
        return "L"
    kinds = ACT_ROUTES[route][1] if route in ACT_ROUTES else (EV_ROUTES[route][1] if route in EV_ROUTES else fakes.ROUTES.get(route, (None, ["L"]))[1])
    return next((k for k in kinds if k in ("P", "L")), "L")


def _aborts_before(case, obs, t):
    """Turns s < t in which an output rail delivered a reject and ran its block branch (trace evidence)."""
    cfg = case["config"]
    out = []
    for s in range(t):
        for e in obs.turns[s]["trace"]:
            if e["cat"] == "out" and e.get("verdict") == "reject" and not (cfg["out"][e["idx"]] == "self" and cfg["exc"]):
                out.append(s)  # (the shipped self-check rail with rail exceptions does not reach its `abort`: F11)
                break
    return out


def _check(case, obs):
    cfg = case["config"]
    v = cfg["v"]
    labels = [f"v{v}", ("llm-continuation" if cfg["dialog"] == "llmc" else "dialog") if cfg["dialog"] else "general-mode", f"out-rails={len(cfg['out'])}", f"turns={len(case['turns'])}", case.get("api", "sync")]
    if cfg["exc"]:
        labels.append("rails-exceptions")
    if v == 2:
        labels.append("v2-" + cfg.get("style", "config"))
    if "self" in cfg["out"]:
        labels.append("shipped-self-check-output")
    if cfg.get("passthrough"):
        labels.append("passthrough" + ("+dialog" if cfg["dialog"] else ""))
    if any(spec.get("options") is not None for spec in case["turns"]):
        labels.append("conversation-with-generation-options")
    if _ext_has(cfg, "ms"):
        labels.append("multi-step-generation")
    if _ext_has(cfg, "act"):
        labels.append("flows-with-action-after-bot-message")
    if _ext_has(cfg, "ev"):
        labels.append("flows-started-by-event")
    planted = case.get("context") if v == 1 else None
    if planted:
        labels.append("context-variables-planted-by-caller")
        if (obs.session.messages or [{}])[0].get("role") != "context":
            raise RuntimeError("c02: the case plants context variables but the history sent to generate does not start with the context message")
    faulted_at = []  # turns in which a custom action raised
    failed_closed_at = []  # turns whose over-long LLM completion was answered with a refusal / the internal-error message
    off_turns = []  # calls served with the output rails switched off (nothing asserted about them)
    checked_after_off = False
    events_at = []  # turns in which an output rail rejected or rewrote an LLM text
    llm_turns = []  # turns in which the LLM generated a message
    prev_kind = None
    fate = {}  # lineage -> (turn, what the output rails' verdicts made of the text the last time it was produced)
    repeated = False
    for t, (spec, o) in enumerate(zip(case["turns"], obs.turns)):
        if o["raised"]:
            if pipeline.EVENT_BUDGET in o["raised"]:
                return ok(skip="v1 runtime gave up: more than 100 new events in one turn (documented safety limit)", labels=["event-budget-exceeded"])
            raise RuntimeError(f"generate raised in turn {t}: {o['raised']}")
        text = pipeline.reply_text(o)
        excs = pipeline.reply_exceptions(o)
        in_reply = fakes.lineage(text)
        messages = pipeline.generated_texts(o)  # texts of the LLM's message completions
        # a message text the LLM wrote into its next-step completion is LLM text of this turn like any other
        inline = [ln for c in o["llm"] if c["task"] == "generate_next_steps" and c["answer"] is not None for ln in fakes.lineage(c["answer"])]
        generated = messages + [ln for ln in inline if ln not in messages]
        if inline:
            labels.append("next-steps-completion-with-inline-message" + (f"({spec.get('steps')})" if spec.get("steps") else ""))
        what = f"v{v} turn {t} (route {spec['route'] if cfg['dialog'] else 'general'}, out verdicts {spec['out']}" + (f", options {spec['options']}" if spec.get("options") is not None else "") + ")"
        off = not output_selected(spec.get("options"))
        if spec.get("options") is not None:
            labels.append("options:output-rails-off-call" if off else "options:output-rails-on-call")
        if spec.get("think") and any(mk_think(*ln) in str(c["answer"]) for c in o["llm"] for ln in generated):
            labels.append("llm-completion-with-think-block" + ("(multi-line)" if "\n" in spec["think"] else ""))
        if spec.get("route") == "par" and cfg["dialog"]:
            labels.append("v2-parallel-llm-replies")
        # kind of the turn: started by a user message (ordinary / the empty string) or by an event message of the caller
        pos = "only-turn" if len(case["turns"]) == 1 else ("first-turn" if t == 0 else ("last-turn" if t == len(case["turns"]) - 1 else "middle-turn"))
        if spec.get("start_event") is not None:
            first_started = not any(s.get("start_event") is None for s in case["turns"][:t])
            labels.append("turn-kind:event-started:" + ("before-any-user-turn" if first_started else "after-a-user-turn"))
            labels.append("turn-kind:event-started:" + ("UserSilent" if spec["start_event"].get("type") == "UserSilent" else "custom-event"))
            labels.append(f"turn-kind:event-started:{spec.get('route')}:" + ("llm-message" if messages else "no-llm-message"))
            if messages and not off:
                labels.append("event-started-llm-turn:" + ("before-any-user-turn" if first_started else "after-a-user-turn") + f":{pos}")
        elif spec.get("user") == "":
            labels.append(f"turn-kind:empty-user-message:{pos}")
            labels.append("turn-kind:empty-user-message:" + ("llm-message" if messages else "no-llm-message"))
            if messages and not off:
                labels.append("empty-user-message-llm-turn:" + ("shipped-self-check-output" if "self" in cfg["out"] else "custom-rails-only") + f":v{v}")
        # a custom action of the turn's flow raised (trace evidence): nothing is asserted about how such a turn is answered, only
        # that it returns no unchecked / rejected LLM text - the turns after it are judged as ever
        faulted = any(e["cat"] == "dialog" and e.get("verdict") == "raise" for e in o["trace"])
        if spec.get("fault"):
            kinds_before = ACT_ROUTES[spec["route"]][1] if spec.get("route") in ACT_ROUTES else ["A"]
            after = {"P": "after-predefined-message", "L": "after-llm-message", "A": "as-first-step"}[kinds_before[0]]
            labels.append(f"fault:action-raises-{after}" if faulted else "fault:planned-not-reached")
            if faulted:
                labels.append(f"fault:v{v}:{spec.get('route')}")
        if faulted:
            if faulted_at and faulted_at[-1] == t - 1:
                labels.append("fault:two-faulted-turns-in-a-row")
            faulted_at.append(t)
        elif faulted_at and faulted_at[-1] == t - 1:
            first = _first_message_kind(cfg, spec.get("route"))
            labels.append("turn-after-faulted-turn:first-message-" + {"L": "llm", "P": "predefined"}.get(first, "other"))
            if messages and not off:
                labels.append("llm-turn-right-after-faulted-turn" + (":after-fault-behind-predefined-message" if case["turns"][t - 1].get("route") in ("pal", "pap") else ""))
        if messages and not off:
            llm_turns.append(t)
            if off_turns:
                checked_after_off = True
                labels.append("checked-llm-turn-after-output-off-call" + ("(plain call)" if spec.get("options") is None else "(call with options)"))
        # texts of other turns must not resurface
        for ln in in_reply:
            if ln not in generated:
                raise Violation("foreign-llm-text", f"{what}: the reply carries LLM text {ln} that was not generated in this turn: {text[:120]!r}", _detail(cfg, t))
        out_entries = [e for e in o["trace"] if e["cat"] == "out"]
        by_text = {}
        for e in out_entries:
            for ln in fakes.lineage(e["text"]):
                by_text.setdefault(ln, []).append(e)
        if off:
            # the caller switched the output rails off for this call: whatever happens to its texts is C16's subject
            off_turns.append(t)
            for ln in generated:
                fate[ln] = (t, "served-with-output-rails-off")
        turn_released = []  # (white-space normalised) texts the output rails released in this turn and the reply carries
        for ln in generated if not off else ():
            tt, k = ln
            m = pipeline.model_output(cfg, spec, tt, k)
            entries = by_text.get(ln, [])
            present_raw = fakes.mk_llm(tt, k) in text
            present_any = ln in in_reply
            tag = f"{what}, LLM text {fakes.mk_llm(tt, k)}"
            verdicts = [c["verdict"] for c in m["calls"]]
            sig = {"route": spec.get("route"), "n_out_calls": len(entries), "earlier_aborts": _aborts_before(case, obs, t), "blocked_kind": cfg["out"][m["blocked"]] if m["blocked"] is not None else None,
                   "exception_in_reply": any(e.get("type") == "OutputRailException" for e in excs), "present_raw": present_raw}
            # (a) whatever ran, ran in the configured order on the right texts
            prob = pipeline.chain_problem(m["calls"], entries, tag, prefix_ok=True)
            if prob:
                raise Violation("output-rail-chain", prob, _detail(cfg, t, **sig))
            # (a') a part of the completion that reaches the caller was part of what the rails judging the completion were given
            part = mk_think(tt, k)
            if part in text:
                for c, e in zip(m["calls"], entries):
                    if c["sees"] == m["orig"] and part not in str(e["text"]):
                        raise Violation(
                            "unchecked-llm-text-in-reply",
                            f"{tag}: the reply carries the reasoning block of the completion ({part}) but rail {c['rail']} was given a text without it: {str(e['text'])[:100]!r}; reply {text[:160]!r}",
                            _detail(cfg, t, **sig),
                        )
            # (a'') the same for the two ends of a long completion: an end that reaches the caller was shown to each of those rails
            #       (in any of its invocations of this turn - an implementation may hand a long text over piece by piece)
            for part, which in ((mk_beg(tt, k), "beginning"), (mk_end(tt, k), "end")):
                if part in text:
                    for c, e in zip(m["calls"], entries):
                        if c["sees"] == m["orig"] and not any(part in str(x["text"]) for x in out_entries if x["idx"] == e["idx"]):
                            raise Violation(
                                "unchecked-llm-text-in-reply",
                                f"{tag}: the reply ({len(text)} characters) carries the {which} of the long completion ({part}) but rail {c['rail']} was never given it: "
                                f"it saw {[(len(str(x['text'])), str(x['text'])[:24], str(x['text'])[-24:]) for x in out_entries if x['idx'] == e['idx']]}",
                                _detail(cfg, t, **sig),
                            )
            if present_any:
                # (b) a text that reaches the caller has passed the complete chain ...
                if len(entries) < m["need"]:
                    raise Violation(
                        "unchecked-llm-text-in-reply",
                        f"{tag}: the reply carries the text but output rails invoked on it were {[e['rail'] for e in entries]}, configured chain is {[c['rail'] for c in m['calls']]}; reply {text[:120]!r}",
                        _detail(cfg, t, **sig),
                    )
                # ... was not rejected ...
                if m["blocked"] is not None:
                    raise Violation(
                        "blocked-text-in-reply",
                        f"{tag}: rail out{m['blocked']} rejected the text but the reply still carries it: {text[:120]!r} (exception events: {[e.get('type') for e in excs]})",
                        _detail(cfg, t, **sig),
                    )
                # ... and is returned in its final form only
                if m["final"] not in text or (m["final"] != m["orig"] and present_raw):
                    raise Violation("rewrite-not-returned", f"{tag}: expected the reply to carry {m['final']} (and not the original), got {text[:120]!r}", _detail(cfg, t, **sig))
                # ... which is the text the rails released, character by character (white space aside): what the last rewriting rail
                # handed back, and what every rail that judged that final form was given (a rail that is handed a long text piece by
                # piece saw pieces of the reply).  A reply that differs from it carries text no output rail saw.
                rw = [i for i, c in enumerate(m["calls"]) if c["verdict"] == "rewrite"]
                released = [(f"the form rail out{rw[-1]} rewrote it to", obs.session.rewritten("out", rw[-1], t, entries[rw[-1]]["text"]))] if rw else []
                released += [(f"the text rail {c['rail']} was given", e["text"]) for c, e in zip(m["calls"], entries) if c["sees"] == m["final"] and e.get("text") is not None]
                for which, r in released:
                    if _norm(r) not in _norm(text):
                        raise Violation(
                            "reply-differs-from-released-text",
                            f"{tag}: the reply carries the text, but not as the output rails released it - {which} is {_clip(r)!r}, the reply is {_clip(text)!r}",
                            _detail(cfg, t, **sig),
                        )
                    turn_released.append(_norm(r))
            if m["blocked"] is not None and len(entries) >= m["need"] and not faulted:
                # (c) the rejection was delivered: the refusal (or rail exception) of a rejecting rail is the answer
                rej = [i for i, c in enumerate(m["calls"][: len(entries)]) if c["verdict"] == "reject"]
                if cfg["exc"]:
                    wants = [block_message("out", i, cfg["out"][i]) for i in rej]
                    if not any(e.get("type") == "OutputRailException" and e.get("message") in wants for e in excs):
                        raise Violation("refusal-missing", f"{tag}: expected an OutputRailException with message {wants!r}, reply was {o['reply']!r}"[:600], _detail(cfg, t, **sig))
                else:
                    wants = [refusal_text("out", i, cfg["out"][i]) for i in rej]
                    if not any(w in text for w in wants):
                        raise Violation("refusal-missing", f"{tag}: rail out{rej[0]} rejected, its refusal {wants[0]!r} is not in the reply {text[:160]!r}", _detail(cfg, t, **sig))
            if entries and ("reject" in verdicts or "rewrite" in verdicts):
                events_at.append(t)
                labels.append("reject" if m["blocked"] is not None else "rewrite")
                if m["blocked"] is not None and m["blocked"] > 0:
                    labels.append("reject-after-" + ("rewrite" if "rewrite" in verdicts[: m["blocked"]] else "accept"))
                if "rewrite" in verdicts and verdicts.index("rewrite") < len(verdicts) - 1:
                    labels.append("rewrite-then-later-rail")
            if not entries and not present_any:
                labels.append("llm-text-generated-not-uttered")
            if ln in inline:
                labels.append("inline-message:" + ("uttered" if present_any else "not-uttered"))
            lg = next((str(c["answer"]) for c in o["llm"] if c["answer"] is not None and (mk_beg(tt, k) in str(c["answer"]) or mk_end(tt, k) in str(c["answer"]))), None)
            if lg is not None:
                size = "<=half" if len(lg) <= HALF else ("half..max" if len(lg) <= FULL - 200 else ("about-max" if len(lg) <= FULL + 200 else ">max"))
                outcome = "returned" if present_any else ("rejected" if m["blocked"] is not None and len(entries) >= m["need"] else "not-returned")
                labels.append(f"long-completion:{size}")
                labels.append(f"long-completion:{'marker-at-end' if mk_beg(tt, k) in lg else 'marker-at-start'}:{outcome}")
                if "self" in cfg["out"]:
                    labels.append(f"long-completion+self-check:{size}:{outcome}")
                if outcome == "not-returned" and len(entries) < m["need"] and "self" in cfg["out"] and len(lg) > FULL:
                    failed_closed_at.append(t)  # the text cannot fit into the rail's prompt: the rail failed, the turn was answered without the text
            if spec.get("think"):
                labels.append("think:" + ("rejected" if m["blocked"] is not None else ("rewritten" if m["final"] != m["orig"] else "passed")) + ("" if present_any or m["blocked"] is not None else "(not uttered)"))
            now = "rejected" if m["blocked"] is not None else ("rewritten" if m["final"] != m["orig"] else "passed")
            produced = next((str(c["answer"]) for c in o["llm"] if c["answer"] is not None and c["task"] in fakes.MESSAGE_TASKS and ln in fakes.lineage(c["answer"])), "")
            if "$" in produced:
                outcome = now + ("" if present_any or m["blocked"] is not None else "(not uttered)")
                for tok in _VAR_TOKEN.findall(produced):
                    labels.append(f"llm-text-with-dollar-token:{var_kind(tok, planted)}:{outcome}")
                labels.append("llm-text-with-dollar-token" + (":repeated-from-earlier-turn" if tt != t else f":place-{(spec.get('vars') or {}).get('place')}"))
            if tt != t and ln in messages:
                repeated = True
                labels.append("repeated-llm-text")
                if ln in fate:
                    labels.append(f"repeat:{fate[ln][1]}-then-{now}" + ("(consecutive-turns)" if fate[ln][0] == t - 1 else ""))
            fate[ln] = (t, now)
        if not off:
            # ... and outside the released texts the reply carries no LLM text at all (e.g. a second copy of the message)
            rest = _norm(text)
            for r in sorted(set(turn_released), key=len, reverse=True):
                rest = rest.replace(r, " ")
            if fakes.lineage(rest):
                raise Violation(
                    "unchecked-llm-text-in-reply",
                    f"{what}: next to the text(s) the output rails released ({[_clip(r, 120) for r in sorted(set(turn_released))]}) the reply carries more LLM text, which no rail was given in this form: {_clip(rest)!r}; reply {_clip(text)!r}",
                    _detail(cfg, t, route=spec.get("route")),
                )
        kind_now = "L" if messages else "P"
        if prev_kind and prev_kind != kind_now:
            labels.append("alternation-" + prev_kind + kind_now)
        prev_kind = kind_now
        if len(messages) > 1:
            labels.append("two-llm-messages-in-turn")
    failed_before = bool(failed_closed_at and llm_turns and min(failed_closed_at) < max(llm_turns))
    if failed_before:
        labels.append("long-completion-failed-closed-before-later-llm-turn")
    fault_before = bool(faulted_at and llm_turns and min(faulted_at) < max(llm_turns))
    if fault_before:
        labels.append("faulted-turn-before-later-llm-turn")
    nt = bool(events_at and llm_turns and min(events_at) < max(llm_turns)) or (repeated and bool(events_at)) or checked_after_off or failed_before or fault_before
    if nt:
        labels.append("event-before-later-llm-turn")
        if any(e >= 1 for e in events_at):
            labels.append("block-or-rewrite-in-turn>=2")
    return ok(nt=nt, labels=sorted(set(labels)), view=pipeline.view(case, obs))


def prop(case):
    return pipeline.run_checked(case, _check, session_cls=_Session)


def known(case, violation):
    """Signatures of the two findings already observed on the unchanged tree (DESIGN 6)."""
    d = violation.detail or {}
    if d.get("v") != 2:
        return None
    # F23: two bot messages said in parallel - the second `_bot_say` finds $output_rails_in_progress set and skips the rails
    # (same root - global state shared by the parallel `_bot_say` instances: a rail runs while the global $bot_message holds the other text)
    # With several rails the symptoms vary (one text misses the whole chain, or only the rails that ran while the flag was set, a rail
    # judges the other message's text): every output-rail violation *in a turn that says two LLM texts in parallel* is this finding;
    # turns of other routes in the same conversation are judged as always.
    if d.get("ext") in (EXT_PAR, EXT_PAR_ACT) and d.get("route") == "par" and violation.kind in ("unchecked-llm-text-in-reply", "output-rail-chain", "blocked-text-in-reply", "rewrite-not-returned"):
        return "C02-F23"
    # F1: after an output rail aborted in an earlier turn, the output rails are skipped altogether
    if violation.kind == "unchecked-llm-text-in-reply" and d.get("n_out_calls") == 0 and d.get("earlier_aborts"):
        return "C02-F1"
    # F11: shipped `self check output` with enable_rails_exceptions: exception sent, text uttered anyway
    if violation.kind == "blocked-text-in-reply" and d.get("exc") and d.get("blocked_kind") == "self" and d.get("exception_in_reply") and d.get("present_raw"):
        return "C02-F11"
    return None
