#!/bin/bash
# usage: mkround.sh <ID> <first index>  -> creates worktree + prop text and prints the prompt
pid=$1; a=$2; b=$((a+1))
git -C /repo worktree add --detach /tmp/seed-$pid HEAD -q 2>/dev/null
python3 - <<PY
import json
for l in open('/verif/properties.jsonl'):
    d=json.loads(l)
    if d['id']=='$pid':
        open('/tmp/seed-$pid.prop.txt','w').write(f"{d['title']}\n\n{d['statement']}\n\nQuantified: {d['quantifier']['text']}\n\nAnchors: {', '.join(d['anchors']['files'])}\n")
PY
python3 /verif/tools/seeding/seed_prompt.py $pid | sed -e "s/For each change i in (1, 2)/For each change i in ($a, $b)/" > /tmp/seed-$pid.prompt.txt
python3 - <<PY
import json,glob
prev=[]
for m in sorted(glob.glob('/verif/seeded/$pid-*/meta.json')):
    prev.append(json.load(open(m))['needs_to_manifest'])
with open('/tmp/seed-$pid.prompt.txt','a') as f:
    f.write("\n\nEarlier rounds already produced changes that manifest under these conditions; yours must have DIFFERENT root causes and triggers:\n" + "\n".join("- "+p for p in prev) + "\n")
PY
wc -c /tmp/seed-$pid.prompt.txt
