import sys, json, shutil, os
pid, i, needs, caught_by = sys.argv[1], sys.argv[2], sys.argv[3], sys.argv[4]
d=f"/verif/seeded/{pid}-{i}"
os.makedirs(d, exist_ok=True)
shutil.copy(f"/tmp/seed-{pid}/seeded_{pid}_{i}.diff", d+"/patch.diff")
shutil.copy(f"/tmp/seed-{pid}/demo_{pid}_{i}.py", d+"/demo.py")
meta={"property": pid, "origin": "fresh sub-agent that saw only the property text and a scratch worktree (HEAD of /repo at the time)",
 "needs_to_manifest": needs,
 "confirmed": f"demo.py exits 0/PASS on the clean worktree and 1/FAIL with patch.diff applied (run with PYTHONPATH=<worktree>); the seeding agent reports identical full-suite counts with and without the change (103 failed / 390 passed / 38 skipped / 12 errors offline)",
 "check_result": caught_by}
json.dump(meta, open(d+"/meta.json","w"), indent=1)
print("stored", d)
