#!/bin/bash
# usage: tryseed.sh <PID> <diff> [check args]
pid=$1; diff=$2; shift 2
wt=${VFMUT:-/var/tmp/vf-mut}; cd $wt && git checkout -q -- . && git reset -q --hard $(git -C /repo rev-parse HEAD) && { git apply "$diff" 2>/dev/null || git apply -C2 "$diff" 2>/dev/null || git apply -C1 "$diff"; } || { echo "apply failed"; exit 2; }
cd /verif && VERIF_REPO=$wt timeout 1500 ./check $pid "$@" 2>&1 | grep -E "tier=|VIOLATION|HARNESS|^  [a-zA-Z0-9_:<>=-]+: " | cut -c1-330
wt=${VFMUT:-/var/tmp/vf-mut}; cd $wt && git checkout -q -- .
