#!/bin/bash
# usage: seedsuite2.sh <scratch worktree> <logfile> seed...   (fail-fast mode)
wt=$1; log=$2; shift 2
cd /verif
for n in "$@"; do
  if grep -q '"status": "neutralised"' seeded/$n/meta.json; then echo "$n skipped (neutralised)" >> $log; continue; fi
  t0=$(date +%s)
  out=$(VF_FAILFAST=1 nice -n 5 tools/run_seeded.sh $n --scratch $wt --workers 5 2>&1)
  ex=$(echo "$out" | grep -o "exit=[0-9]*" | tail -1)
  kinds=$(echo "$out" | grep -E "^  [a-zA-Z0-9_:<>=.@-]+: " | sed -E 's/^  ([^ ]+): .*/\1/' | sort -u | tr '\n' ' ')
  echo "$n $ex $(( $(date +%s) - t0 ))s kinds: $kinds" >> $log
done
echo DONE >> $log
