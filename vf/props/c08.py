"""C08 - flow calls bind parameters, defaults and return values; locals are private.

Domain : signatures of 0-4 parameters (one in four: 5-14 parameters with up to 14 positional arguments), a generated subset of them with defaults (a suffix, or any placement - also a parameter
         with a default BEFORE one without, which the grammar accepts), optionally declaring 1-2 return members
         (`flow f $p0 -> $m0, $m1 = 5`) that the body may assign; the callee ends with `return <expression>`, a bare `return`,
         `return None` or without a return statement; calls with k positional + a named subset
         of the rest, simple (`f 1 $b=2`, also with named arguments written among / before the positional ones: `f $b=2 1`) and
         classic (`f(1, b=2)`) syntax, via `$x = await f`, `await f`,
         `start f as $r` + `match $r.Finished()`; values = scalars/None/bools/strings/lists/dicts as literals or passed
         through an event payload; callee echoes its parameters, reassigns parameters and a local that also exists in
         the caller, returns an expression of them; two sibling instances interleaved by events.
         Fourth call form `activate f ...`: the callee waits for Tick() after its echo, then runs the rest of its body
         (in-place append to defaulted lists, parameter reassignments incl. `$p = [$p]`, return) and is restarted; 0-3 restarts;
         optionally a second activation of the same flow with another argument subset (omits some / adds some / same values /
         one differs / mixed), issued by main or by two helper flows; plus an enumerated activation family.
Oracle : Python reference binder (positional -> named -> default -> None) + straight-line evaluation of the callee; for
         activations: every activation with its own binding owns an instance that echoes exactly that binding at activation
         and after every restart.
"""
import json

from hypothesis import strategies as st

from vf import smh
from vf.core import Violation, ok

PID = "C08"
LEVEL = "exploration"
CASE_TIMEOUT = 30
RULE = (
    "signature: 0-4 params p0..p3 (3 of 4 cases) or a WIDE one of 5-14 params p0..p13 (1 of 4; in 2 of 3 of these all but 0-3 parameters are given by "
    "position; arguments mostly scalars; labels params5-9 / params10-14, positional5-10 / positional11+ = more than ten positional arguments), a generated subset has literal defaults: in half of the cases a suffix, in the other half ANY placement "
    "(`flow f $p0=10 $p1`: a parameter with a default before one without - accepted by the grammar; positional argument i binds to the "
    "i-th DECLARED parameter; labels default-before-nondefault / positional-into-default-before-nondefault); in 3 of 5 cases the signature "
    "also declares 1-2 return members (`-> $m0, $m1 = 5`), each with or without a literal default and assigned or not in the body (values "
    "mostly not None; labels return-membersN, member-holds-value-at-end, returns-none-while-member-holds-value, returns-other-value-than-member); "
    "call: k<=n positional values then a subset of the "
    "remaining params by name; syntax simple|classic; WRITTEN order of a bracket-less (simple) call with positional and named arguments: in 2 of 3 of these "
    "cases every named argument is put at a drawn place among the positional ones (`f $p2=9 1`, `f 1 $p3=0 2 $p2=5`: the grammar rule simple_arguments "
    "puts no order on them; the i-th POSITIONAL argument belongs to the i-th parameter; label named-written-before-positional; also in second activations); form assign-await|await|start-ref|activate; values drawn from None/bool/int/float/"
    "str (quotes, newlines, $, braces)/list/dict (depth<=2), as literals or via the payload of a received event; callee: send "
    "Echo(all params), (when the flow is called twice) append in place to list parameters that received their default, reassign some params and the local $loc (also set in the caller), return literal | param | list of params "
    "| dict of params (params incl. the return members the body assigned) | bare `return` | `return None` (both more often when return members are declared) "
    "| no return statement (never with `$x = await`); `$x = await f` must assign exactly the value given to `return` - None for a bare return / "
    "`return None`, whatever the declared return members hold; a drawn subset of params is also reassigned from its own value ($p = [$p]); in half of the cases the callee is an @override of a base flow declaring another signature (names from p0..p3,q0,q1, other order/count/defaults, before or after the override); sibling leg: two instances of one flow interleaved by events, each changing its own variables. "
    "Form activate (1/4 of the calls): `activate f ...` from main or from a helper flow started by main; the callee waits for Tick() after its "
    "echo, then runs the rest of its body (in half of these cases it appends in place to list parameters that received their default) and ends, "
    "so that it is restarted: 0-3 Ticks = restarts, each restarted instance must echo the binding of its activation again (arguments by "
    "position / by name / defaulted / omitted, after the body reassigned them). In half of the activate cases a SECOND activation of the same "
    "flow follows, built relative to the first: omits-some (proper subset of the first one's arguments, same values), adds-some (all of them + "
    "arguments for parameters the first one left to their default), same-values (any k2 positional + named subset repeating the values the first "
    "one bound), one-differs, mixed; bindings that differ -> two instances, each echoing its own binding at activation and after every restart; "
    "identical bindings -> one or two instances, every echo shows that binding. Enumerated families: (a) signatures (154 cases): 1-3 params x every placement of defaults x every provision (k positional + named subset of the "
    "rest), distinct values, `$x = await`; (b) returns (104 cases): 7 return-member declarations (none / one / two, with / without default, assigned or not) x "
    "2 signatures x return of nothing / None / 0 / False / '' / [] / a value / the member; (c) activation (464 cases): 3 signatures x every provision "
    "(positional/named/omitted per parameter) of the first activation x (none | every provision of a second one, same values) x restarts, the body "
    "reassigning the first and wrapping the last parameter; (d) written order (84 cases): bracket-less calls of signatures with 2-4 params (defaults on the last / on all) x every "
    "provision with >=1 positional and >=1 named argument x every placement of the named arguments that writes one of them before a positional one, call forms "
    "in turn; (e) wide signatures (80 cases): 5, 8, 10-14 params (every third with a default) x every number 0..n of positional arguments, every second remaining "
    "parameter by name, distinct values, syntax and call form in turn. "
    "Non-trivial = the call mixes >=2 of {positional, named, defaulted} or passes a container/None/bool, or passes positional arguments to a signature "
    "with a default before a non-default, or more than four positional arguments, or a named argument written before a positional one, or returns None while a declared return member holds a value, or two activations with different "
    "bindings, or a restart after a parameter was reassigned; distinct by case."
)
ASSUMPTIONS = [
    "never more positional arguments than parameters (surplus rejection is a mechanism, not part of the statement)",
    "global variables are not used (the statement is about non-global variables)",
    "defaults are literals (evaluated without access to caller variables)",
    "a parameter with a default may precede one without (flow_params_def_simple/_classic put no order on flow_param_def; such a signature parses and runs); "
    "'corresponding positional argument' is read as: the i-th positional argument belongs to the i-th declared parameter",
    "a bracket-less call may write a named argument before a positional one (grammar: `simple_arguments: simple_argvalue+`, simple_argvalue = expr | var_name '=' expr, "
    "no order; the transformer numbers the positional arguments with a counter of their own; only the classic syntax rejects 'positional after named' and is never "
    "generated that way): the positional arguments are numbered among the positional ones only, i.e. `f $c=9 1` gives 1 to the first parameter; a parameter is never "
    "given both by position and by name",
    "declared return members are variables of the flow instance that a flow reference can read (docs: 'flow attributes'); the docs give them no role in "
    "`return` ('If no return value is provided None is passed'), so only the value given to `return` is asserted; the initial value of a member (its "
    "declared default) is never asserted: a return expression names a member only after the body assigned it; what `$x = await f` does when f ends "
    "WITHOUT a return statement (today the caller fails) is unspecified and not generated, with or without return members",
    "literal strings never contain `$`, `{` or `}` (string interpolation is language syntax); such texts are passed through event payloads instead",
    "in simple call syntax a list literal is never a positional argument (`f 0 [1]` parses as a subscript); `$x = await f` is only used with flows that `return` a value",
    "an activated callee always waits for an event (Tick) before it ends - how often a flow that ends without waiting is restarted is outside the statement; its return value is not observed",
    "two activations with identical bindings are one flow configuration (docs: 'can only be activated once'); whether one or two instances run is not C08's matter - "
    "only that every instance echoes that binding; activations whose bindings differ only by True/1/1.0 are skipped (whether these are identical parameters is unspecified)",
    "order of the echoes of two activated instances within one processing step is not asserted (compared as multisets)",
]
WALL = {"quick": 150, "thorough": 1500}
# `activate` x in-place append to defaulted list parameters (case field `mutate_defaults`): found C08-F28 (the restarted instance
# saw the appended element; fixed in the repo, repro replays/known/C08/activated-restart-mutated-default.json)
ACTIVATE_MUTATES_DEFAULTS = True


def budget(tier):
    return 3000 if tier == "quick" else 50000


text_val = st.sampled_from(["a", "", "it's", 'say "hi"', "x y", "$v", "{{ x }}", "line1\nline2", "ünï", "{$a}"])
scalar = st.one_of(st.none(), st.booleans(), st.integers(0, 50), st.sampled_from([0.5, 2.25]), text_val)
value = st.recursive(scalar, lambda ch: st.one_of(st.lists(ch, max_size=3), st.dictionaries(st.sampled_from(["k", "j", "m"]), ch, max_size=2)), max_leaves=5)
# values written as Colang literals: no `$`, `{`, `}` inside strings (string interpolation is language syntax, not binding)
lit_text = st.sampled_from(["a", "", "it's", 'say "hi"', "x y", "line1\nline2", "ünï", "100%"])
lit_scalar = st.one_of(st.none(), st.booleans(), st.integers(0, 50), st.sampled_from([0.5, 2.25]), lit_text)
lit_value = st.recursive(lit_scalar, lambda ch: st.one_of(st.lists(ch, max_size=3), st.dictionaries(st.sampled_from(["k", "j", "m"]), ch, max_size=2)), max_leaves=5)
# values of declared return members (default / assigned in the body): mostly not None, so that the member HOLDS a value
member_value = st.one_of(st.integers(1, 50), st.sampled_from(["member", 0, False, "", 2.25]), st.lists(st.integers(0, 5), max_size=2), st.none())
literal_safe_scalar = st.one_of(st.none(), st.booleans(), st.integers(0, 50), st.sampled_from([0.5, 2.25]), st.sampled_from(["a", "", "x y", "it's"]))


@st.composite
def _case(draw):
    if draw(st.integers(0, 4)) == 0:
        return {
            "leg": "siblings",
            "vals": [draw(lit_value.filter(lambda v: not isinstance(v, list))), draw(lit_value)],
            "order": draw(st.lists(st.integers(0, 1), min_size=2, max_size=6)),
        }
    # 3 of 4 signatures have 0-4 parameters, 1 of 4 is WIDE: 5-14 parameters ('for all signatures'; positional argument i is
    # handed over as `$i`, so that more than ten positional arguments reach the two-digit identifiers `$10`, `$11`, ...)
    wide = draw(st.integers(0, 3)) == 0
    n = draw(st.sampled_from([5, 6, 7, 8, 9, 10, 11, 11, 12, 12, 13, 14])) if wide else draw(st.integers(0, 4))
    ndef = draw(st.integers(0, n))
    # which parameters declare a default: a suffix of the signature, or ANY subset (the grammar accepts `flow f $a=10 $b`:
    # a parameter with a default before one without; positional argument i still binds to the i-th DECLARED parameter)
    if draw(st.booleans()):
        with_default = set(range(n - ndef, n))
    else:
        with_default = set(draw(st.lists(st.sampled_from(range(n)), unique=True, min_size=ndef, max_size=ndef))) if n else set()
    sig = []
    for i in range(n):
        p = {"name": f"p{i}"}
        if i in with_default:
            p["default"] = draw(literal_safe_scalar if draw(st.booleans()) else st.lists(literal_safe_scalar, max_size=2))
        sig.append(p)
    # return members declared in the signature (`flow f $p0 -> $m0, $m1 = 5`): variables of the instance that a flow reference
    # can read; they are NOT the return value - `$x = await f` assigns what `return` was given (None for a bare `return`)
    members = []
    for j in range(draw(st.sampled_from([0, 0, 1, 1, 2]))):
        m = {"name": f"m{j}"}
        if draw(st.booleans()):
            m["default"] = draw(member_value)
        if draw(st.booleans()):
            m["set"] = draw(member_value)
        members.append(m)
    set_members = [m["name"] for m in members if "set" in m]
    # number of positional arguments; for a wide signature in 2 of 3 cases all but 0-3 parameters are given by position
    k = draw(st.integers(max(0, n - 3), n)) if wide and draw(st.integers(0, 2)) else draw(st.integers(0, n))
    via_event = draw(st.booleans())
    syntax = draw(st.sampled_from(["simple", "classic"]))
    form = draw(st.sampled_from(["assign", "await", "startref", "activate"]))
    argval = value if via_event else lit_value
    if wide:
        # many arguments: mostly scalars (keeps the case small), now and then a container
        argval = st.one_of(scalar if via_event else lit_scalar, scalar if via_event else lit_scalar, argval)
    # `f 0 [1]` is read as the subscript expression `0[1]`: a list literal is never a positional argument in simple syntax
    posval = argval if via_event or syntax == "classic" else lit_value.filter(lambda v: not isinstance(v, list))
    pos = [draw(posval) for _ in range(k)]
    rest = [p["name"] for p in sig[k:]]
    named_names = draw(st.lists(st.sampled_from(rest), unique=True, max_size=len(rest))) if rest else []
    named = {nm: draw(argval) for nm in named_names}
    slots = _slots(draw, syntax, k, len(named))
    assigns = []
    for _ in range(draw(st.integers(0, 2))):
        target = draw(st.sampled_from([p["name"] for p in sig] + ["loc"] + set_members))
        assigns.append([target, draw(lit_value)])
    # variables a return expression may name: parameters and the return members the body assigns
    ret_names = [p["name"] for p in sig] + set_members
    kinds = ["literal", "bare"] + (["param", "list", "dict"] if ret_names else [])
    if members:
        kinds += ["bare", "none-literal"]  # `return` / `return None` while a declared return member holds a value
    if form != "assign":
        kinds.append("none")  # `$x = await f` with a flow that has no `return` is outside the statement
    ret_kind = draw(st.sampled_from(kinds))
    if ret_kind == "none-literal":
        ret = {"kind": "literal", "value": None}
    else:
        ret = {"kind": ret_kind}
    if ret_kind == "literal":
        ret["value"] = draw(lit_value)
    elif ret_kind == "param":
        ret["names"] = [draw(st.sampled_from(ret_names))]
    elif ret_kind in ("list", "dict"):
        ret["names"] = draw(st.lists(st.sampled_from(ret_names + ["loc"]), min_size=1, max_size=3))
    case = {
        "leg": "call",
        "sig": sig,
        "members": members,
        "pos": pos,
        "named": named,
        "syntax": syntax,
        "form": form,
        "via_event": via_event,
        "assigns": assigns,
        "ret": ret,
        "caller_loc": draw(lit_scalar),
        # call the flow twice with the same arguments; the callee mutates IN PLACE the container parameters that received
        # their declared default, so the second instance must still see the pristine declared default
        "repeat": draw(st.booleans()),
        "flow_name": draw(st.sampled_from(["f", "do thing", "handle user request"])),
        # the callee is an `@override` of a base flow that declares another signature (other names, order, count, defaults):
        # the override's own declaration is the one that binds
        "override": draw(st.none() | _base_sig()),
        # parameters the callee reassigns from their own value (`$p = [$p]`, after the literal reassignments): a value that
        # leaks into another instance compounds
        "wrap": draw(st.lists(st.sampled_from([p["name"] for p in sig]), unique=True, max_size=2)) if sig else [],
    }
    if slots is not None:
        case["slots"] = slots
    if form == "activate":
        # an ACTIVATED flow: started by `activate f ...`, waits for Tick(), runs the rest of its body and is restarted when it
        # ends; `ticks` = number of restarts observed; `second` = another activation of the same flow with another argument subset
        case["repeat"] = False
        case["ticks"] = draw(st.integers(0, 3))
        case["act_from"] = draw(st.sampled_from(["main", "helpers"]))
        case["mutate_defaults"] = ACTIVATE_MUTATES_DEFAULTS and draw(st.booleans())
        case["second"] = draw(st.none() | _second(sig, k, named, _bind(sig, pos, named), argval, posval, via_event or syntax == "classic", syntax))
    return case


def _slots(draw, syntax, k, m):
    """WRITTEN order of the arguments of a bracket-less call: for every named argument the number of positional arguments written
    before it (0..k). The grammar (`simple_arguments: simple_argvalue+`) puts no order on positional and named arguments, so
    `f $c=9 1` is a call with one positional and one named argument; the i-th POSITIONAL argument belongs to the i-th parameter.
    None = the usual order (all positional arguments first); the classic syntax rejects a positional argument after a named one."""
    if syntax != "simple" or not k or not m or draw(st.integers(0, 2)) == 0:
        return None
    return [draw(st.integers(0, k)) for _ in range(m)]


def _split(draw, sig, prov, list_pos_ok):
    """Splits the provided arguments {name: value} into k positional values (a drawn prefix of the signature) + named ones."""
    kmax = 0
    for p in sig:
        if p["name"] not in prov or (isinstance(prov[p["name"]], list) and not list_pos_ok):
            break  # (a list literal is never a simple-syntax positional argument)
        kmax += 1
    k = draw(st.integers(0, kmax))
    return [prov[p["name"]] for p in sig[:k]], {p["name"]: prov[p["name"]] for p in sig[k:] if p["name"] in prov}


@st.composite
def _second(draw, sig, k1, named1, env1, argval, posval, list_pos_ok, syntax="classic"):
    sec = draw(_second_args(sig, k1, named1, env1, argval, posval, list_pos_ok))
    slots = _slots(draw, syntax, len(sec["pos"]), len(sec["named"]))
    if slots is not None:
        sec["slots"] = slots
    return sec


@st.composite
def _second_args(draw, sig, k1, named1, env1, argval, posval, list_pos_ok):
    """A second activation of the same flow, built relative to the first one.
    omits-some : provides a proper subset of the first one's arguments, same values (positional or by name)
    adds-some  : provides all of the first one's arguments (same values) + some of the parameters the first one omitted
    same-values: k2 positional + a named subset of the rest, every value repeats what the first activation BOUND to that parameter
    one-differs / mixed: as same-values, but one / a drawn subset of the provided values are new"""
    names = [p["name"] for p in sig]
    provided1 = names[:k1] + [nm for nm in names[k1:] if nm in named1]
    omitted1 = [nm for nm in names if nm not in provided1]
    mode = draw(st.sampled_from((["omits-some"] if provided1 else []) + (["adds-some"] if omitted1 else []) + ["same-values", "one-differs", "mixed"]))
    if mode == "omits-some":
        drop = draw(st.lists(st.sampled_from(provided1), unique=True, min_size=1))
        pos2, named2 = _split(draw, sig, {nm: env1[nm] for nm in provided1 if nm not in drop}, list_pos_ok)
        return {"mode": mode, "pos": pos2, "named": named2}
    if mode == "adds-some":
        add = draw(st.lists(st.sampled_from(omitted1), unique=True, min_size=1))
        prov = {nm: (env1[nm] if nm in provided1 else draw(argval)) for nm in names if nm in provided1 or nm in add}
        pos2, named2 = _split(draw, sig, prov, list_pos_ok)
        return {"mode": mode, "pos": pos2, "named": named2}
    k2 = draw(st.integers(0, len(sig)))
    rest = names[k2:]
    named_names = draw(st.lists(st.sampled_from(rest), unique=True, max_size=len(rest))) if rest else []
    provided = names[:k2] + named_names
    if mode == "same-values" or not provided:
        fresh = set()
    elif mode == "one-differs":
        fresh = {draw(st.sampled_from(provided))}
    else:
        fresh = set(draw(st.lists(st.sampled_from(provided), unique=True)))

    def val(nm, positional):
        v = draw(posval if positional else argval) if nm in fresh else env1[nm]
        if positional and isinstance(v, list) and not list_pos_ok:
            # a list literal is never a simple-syntax positional argument (`posval` excludes lists in that setting)
            v = draw(posval)
        return v

    return {"mode": mode, "pos": [val(nm, True) for nm in names[:k2]], "named": {nm: val(nm, False) for nm in named_names}}


@st.composite
def _base_sig(draw):
    names = draw(st.lists(st.sampled_from(["p0", "p1", "p2", "p3", "q0", "q1"]), unique=True, max_size=4))
    ndef = draw(st.integers(0, len(names)))
    return {
        "sig": [{"name": nm, **({"default": "base-default-" + nm} if i >= len(names) - ndef else {})} for i, nm in enumerate(names)],
        "first": draw(st.booleans()),
    }


def strategy(tier):
    return _case()


def _provisions(names):
    """All ways to provide arguments: k positional + a subset of the remaining parameters by name."""
    out = []
    for k in range(len(names) + 1):
        rest = names[k:]
        for mask in range(1 << len(rest)):
            out.append((k, [nm for i, nm in enumerate(rest) if mask >> i & 1]))
    return out


def _plain_call(sig, pos, named, i, **kw):
    case = {
        "leg": "call",
        "sig": sig,
        "members": [],
        "pos": pos,
        "named": named,
        "syntax": "classic" if i % 2 else "simple",
        "form": "assign",
        "via_event": False,
        "assigns": [],
        "ret": {"kind": "list", "names": [p["name"] for p in sig]} if sig else {"kind": "literal", "value": "r"},
        "caller_loc": "main-loc",
        "repeat": False,
        "flow_name": "f" if i % 3 else "do thing",
        "override": None,
        "wrap": [],
    }
    case.update(kw)
    return case


def _signature_family():
    """Every placement of defaults in signatures of 1-3 parameters (incl. a parameter with a default BEFORE one without) x every
    argument provision (k positional + a named subset of the rest); distinct values, so that a swapped binding shows."""
    vals = {"p0": 7, "p1": "one", "p2": False}
    defaults = {"p0": "d0", "p1": 50, "p2": "d2"}
    i = 0
    for n in (1, 2, 3):
        names = [f"p{j}" for j in range(n)]
        for mask in range(1 << n):
            sig = [{"name": nm, **({"default": defaults[nm]} if mask >> j & 1 else {})} for j, nm in enumerate(names)]
            for k, named in _provisions(names):
                i += 1
                yield _plain_call(sig, [vals[nm] for nm in names[:k]], {nm: vals[nm] for nm in named}, i)


def _return_family():
    """Declared return members (none / one / two; with or without default; assigned or not in the body) x what the callee gives
    to `return` (nothing, None, falsy values, another value, the member itself) - `$x = await f` assigns exactly that."""
    member_sets = [
        [],
        [{"name": "m0"}],
        [{"name": "m0", "set": "member"}],
        [{"name": "m0", "default": 5}],
        [{"name": "m0", "default": 5, "set": [1]}],
        [{"name": "m0", "set": "member"}, {"name": "m1", "default": 2}],
        [{"name": "m0"}, {"name": "m1", "set": 0}],
    ]
    rets = [{"kind": "bare"}] + [{"kind": "literal", "value": v} for v in (None, 0, False, "", [], "value")]
    i = 0
    for members in member_sets:
        for sig in ([], [{"name": "p0"}, {"name": "p1", "default": 3}]):
            for ret in rets + ([{"kind": "param", "names": ["m0"]}] if members and "set" in members[0] else []):
                i += 1
                yield _plain_call(sig, [1] if sig else [], {}, i, members=members, ret=ret)


def _order_family():
    """Written order of the arguments of a bracket-less call: signatures of 2-4 parameters (defaults on none but the last / on all)
    x every provision with >=1 positional and >=1 named argument x every placement of the named arguments among the positional
    ones that writes at least one named argument BEFORE a positional one; call forms in turn."""
    vals = {"p0": 7, "p1": "one", "p2": False, "p3": {"k": 4}}
    forms = ["assign", "startref", "await", "activate"]
    i = 0
    for n in (2, 3, 4):
        names = [f"p{j}" for j in range(n)]
        for all_defaults in (False, True):
            sig = [{"name": nm, **({"default": "d" + nm} if all_defaults or j == n - 1 else {})} for j, nm in enumerate(names)]
            for k, named in _provisions(names):
                if not k or not named:
                    continue
                for code in range((k + 1) ** len(named)):
                    slots = [code // (k + 1) ** j % (k + 1) for j in range(len(named))]
                    if min(slots) == k:
                        continue  # the usual order: family (a)
                    i += 1
                    form = forms[i % 4]
                    extra = {"ticks": 1, "act_from": "main", "mutate_defaults": False, "second": None} if form == "activate" else {}
                    yield _plain_call(sig, [vals[nm] for nm in names[:k]], {nm: vals[nm] for nm in named}, i, syntax="simple", form=form, slots=slots, **extra)


def _wide_family():
    """Wide signatures: 5-14 parameters (every third one declares a default) x every number k of positional arguments; of the
    remaining parameters every second one is given by name; all values distinct, so that a swapped binding shows."""

    def val(j, syntax):
        # (a list literal is never a positional argument of a bracket-less call)
        return [100 + j, f"s{j}", {"k": j}, j + 0.5, [j] if syntax == "classic" else f"t{j}"][j % 5]

    i = 0
    for n in (5, 8, 10, 11, 12, 13, 14):
        names = [f"p{j}" for j in range(n)]
        sig = [{"name": nm, **({"default": f"d{j}"} if j % 3 == 2 else {})} for j, nm in enumerate(names)]
        for k in range(n + 1):
            i += 1
            syntax = "classic" if i % 2 else "simple"
            form = ["assign", "startref", "await", "activate"][i // 2 % 4]
            extra = {"ticks": 1, "act_from": "main", "mutate_defaults": False, "second": None} if form == "activate" else {}
            yield _plain_call(sig, [val(j, syntax) for j in range(k)], {names[j]: val(j, syntax) for j in range(k, n) if (j - k) % 2 == 0}, i, syntax=syntax, form=form, **extra)


def enumerate_cases(tier):
    yield from _activation_family()
    yield from _signature_family()
    yield from _return_family()
    yield from _order_family()
    yield from _wide_family()


def _activation_family():
    """Activation family: three signatures x every argument provision (positional / named / omitted per parameter) of a first
    activation x (no second activation | every provision of a second one, same values) x restarts; the body reassigns parameters."""
    sigs = [
        ([{"name": "p0"}, {"name": "p1", "default": 5}], (0, 2)),
        ([{"name": "p0", "default": "d0"}, {"name": "p1", "default": [2]}], (0, 2)),
        ([{"name": "p0"}, {"name": "p1"}, {"name": "p2", "default": None}], (1,)),
    ]
    vals = {"p0": 7, "p1": "one", "p2": [3]}
    i = 0
    for sig, tick_choices in sigs:
        names = [p["name"] for p in sig]
        provs = _provisions(names)
        for k1, named1 in provs:
            for sec in [None] + provs:
                for ticks in tick_choices:
                    i += 1
                    list_positional = any(isinstance(vals[nm], list) for nm in names[: max(k1, sec[0] if sec else 0)])
                    yield {
                        "leg": "call",
                        "sig": sig,
                        "pos": [vals[nm] for nm in names[:k1]],
                        "named": {nm: vals[nm] for nm in named1},
                        "syntax": "classic" if list_positional or i % 2 else "simple",
                        "form": "activate",
                        "via_event": False,
                        "assigns": [[names[0], "reassigned"], ["loc", 1]],
                        "ret": {"kind": "list", "names": names},
                        "caller_loc": "main-loc",
                        "repeat": False,
                        "flow_name": "f" if i % 3 else "do thing",
                        "override": None,
                        "wrap": [names[-1]],
                        "ticks": ticks,
                        "act_from": "helpers" if i % 4 == 0 else "main",
                        "mutate_defaults": i % 2 == 0,
                        "second": None if sec is None else {"mode": "enumerated", "pos": [vals[nm] for nm in names[: sec[0]]], "named": {nm: vals[nm] for nm in sec[1]}},
                    }


def _bind(sig, pos, named):
    """Reference binder: positional -> named -> declared default -> None."""
    env = {}
    for i, p in enumerate(sig):
        if i < len(pos):
            env[p["name"]] = pos[i]
        elif p["name"] in named:
            env[p["name"]] = named[p["name"]]
        elif "default" in p:
            env[p["name"]] = p["default"]
        else:
            env[p["name"]] = None
    return env


def _mutates(case):
    """The callee appends in place to the list parameters that received their declared default."""
    return bool(case.get("repeat") or case.get("mutate_defaults"))


def _mutated(case):
    """Names of the parameters the callee appends to in place: those that received their declared list default (in every
    activation, when there are two: the same body runs in both instances)."""
    if not _mutates(case):
        return []
    calls = [(case["pos"], case["named"])]
    if case.get("second"):
        calls.append((case["second"]["pos"], case["second"]["named"]))
    return [
        p["name"]
        for i, p in enumerate(case["sig"])
        if isinstance(p.get("default"), list) and all(i >= len(pos) and p["name"] not in named for pos, named in calls)
    ]


def _callee_model(case, pos=None, named=None):
    """Reference binder + straight-line evaluation."""
    pos = case["pos"] if pos is None else pos
    named = case["named"] if named is None else named
    env = _bind(case["sig"], pos, named)
    echo = dict(env)
    for nm in _mutated(case):
        env[nm] = list(env[nm]) + [99]
    env["loc"] = "callee-local"
    for m in case.get("members", ()):
        if "set" in m:
            env[m["name"]] = m["set"]
    for target, val in case["assigns"]:
        env[target] = val
    for nm in case.get("wrap", ()):
        env[nm] = [env[nm]]
    r = case["ret"]
    if r["kind"] in ("none", "bare"):
        # no `return` (not observed through `$x = await`) / a bare `return`: "If no return value is provided None is passed"
        ret = None
    elif r["kind"] == "literal":
        ret = r["value"]
    elif r["kind"] == "param":
        ret = env[r["names"][0]]
    elif r["kind"] == "list":
        ret = [env[nm] for nm in r["names"]]
    else:
        ret = {nm: env[nm] for nm in r["names"]}
    return echo, ret


def _members_at_end(case):
    """What the declared return members hold when the callee ends (labels only: the initial value of a member - its
    declared default - is not part of the statement and is never asserted)."""
    held = {m["name"]: m.get("default") for m in case.get("members") or ()}
    for m in case.get("members") or ():
        if "set" in m:
            held[m["name"]] = m["set"]
    for target, val in case["assigns"]:
        if target in held:
            held[target] = val
    return held


def _named_before_positional(call):
    """A bracket-less call that writes a named argument in front of a positional one."""
    return any(at < len(call["pos"]) for at in call.get("slots") or ())


def _default_before_nondefault(sig):
    """Index of the first parameter WITHOUT a default that follows one WITH a default (None: defaults form a suffix)."""
    seen = False
    for i, p in enumerate(sig):
        if "default" in p:
            seen = True
        elif seen:
            return i
    return None


def _program(case):
    lit = smh.lit
    name = case["flow_name"]
    activate = case["form"] == "activate"
    second = case.get("second") if activate else None
    sig = " ".join(f"${p['name']}" + (f"={lit(p['default'])}" if "default" in p else "") for p in case["sig"])
    members = case.get("members") or []
    if members:
        sig += " -> " + ", ".join(f"${m['name']}" + (f" = {lit(m['default'])}" if "default" in m else "") for m in members)
    lines = [f"flow {name} {sig}".rstrip()]
    base = []
    if case.get("override"):
        bsig = " ".join(f"${p['name']}" + (f"={lit(p['default'])}" if "default" in p else "") for p in case["override"]["sig"])
        base = [f"flow {name} {bsig}".rstrip(), "  send BaseRan()", ""]
        lines = (base if case["override"]["first"] else []) + ["@override"] + lines
    mutated = _mutated(case)
    # a list that is appended to afterwards is echoed as a copy (`$p + []`): the event would otherwise alias the mutated object
    echo_args = ", ".join(f"{p['name']}=${p['name']}" + (" + []" if p["name"] in mutated else "") for p in case["sig"])
    lines.append(f"  send Echo({echo_args})")
    if activate:
        # an activated flow waits before it goes on (and is restarted once it has ended)
        lines.append("  match Tick()")
    for p in case["sig"]:
        if p["name"] in mutated:
            lines.append(f"  (${p['name']}.append(99))")
    lines.append('  $loc = "callee-local"')
    for m in members:
        if "set" in m:
            lines.append(f"  ${m['name']} = {lit(m['set'])}")
    for target, val in case["assigns"]:
        lines.append(f"  ${target} = {lit(val)}")
    for nm in case.get("wrap", ()):
        lines.append(f"  ${nm} = [${nm}]")
    r = case["ret"]
    if r["kind"] == "bare":
        lines.append("  return")
    elif r["kind"] == "literal":
        lines.append(f"  return {lit(r['value'])}")
    elif r["kind"] == "param":
        lines.append(f"  return ${r['names'][0]}")
    elif r["kind"] == "list":
        lines.append("  return [" + ", ".join(f"${nm}" for nm in r["names"]) + "]")
    elif r["kind"] == "dict":
        lines.append("  return {" + ", ".join(f'"{nm}": ${nm}' for nm in dict.fromkeys(r["names"])) + "}")
    lines += [""] + (base if case.get("override") and not case["override"]["first"] else [])
    payload = {}

    def arg(v, key):
        if case["via_event"]:
            payload[key] = v
            return f"$e.{key}"
        return lit(v)

    def render(pos_vals, named_vals, kp, kn, slots):
        pos = [arg(v, f"{kp}{i}") for i, v in enumerate(pos_vals)]
        named = [(nm, arg(v, f"{kn}_{nm}")) for nm, v in named_vals.items()]
        if case["syntax"] == "simple":
            # written order: named argument j stands after `slots[j]` positional arguments (default: after all of them)
            slots = slots if slots is not None else [len(pos)] * len(named)
            words = [name]
            for i in range(len(pos) + 1):
                words += [f"${nm}={a}" for (nm, a), at in zip(named, slots) if at == i]
                words += pos[i : i + 1]
            return " ".join(words)
        return f"{name}(" + ", ".join(pos + [f"{nm}={a}" for nm, a in named]) + ")"

    call = render(case["pos"], case["named"], "v", "n", case.get("slots"))
    call2 = render(second["pos"], second["named"], "w", "m", second.get("slots")) if second else None
    helpers = activate and case.get("act_from") == "helpers"
    if helpers:
        # the activations are issued by two other flows (the activated flow is their child, not main's)
        for tag, c in (("a", call), ("b", call2)):
            if c is not None:
                lines += [f"flow act {tag}" + (" $e" if case["via_event"] else ""), f"  activate {c}", "  match Never()", ""]
    lines += ["flow main", f"  $loc = {lit(case['caller_loc'])}"]
    for p in case["sig"]:
        lines.append(f'  ${p["name"]} = "caller-{p["name"]}"')
    if case["via_event"]:
        lines.append("  match In() as $e")
    helper_arg = "($e)" if case["via_event"] else ""
    if case["form"] == "assign":
        lines.append(f"  $x = await {call}")
    elif case["form"] == "await":
        lines.append(f"  await {call}")
        lines.append("  $x = None")
    elif activate:
        lines.append(f"  start act a{helper_arg}" if helpers else f"  activate {call}")
        lines.append("  $x = None")
    else:
        lines.append(f"  start {call} as $r")
        lines.append("  match $r.Finished()")
        lines.append("  $x = None")
    caller_args = ", ".join(f"{p['name']}=${p['name']}" for p in case["sig"])
    lines.append(f"  send Res(x=$x, loc=$loc{', ' if caller_args else ''}{caller_args})")
    if case.get("repeat"):
        lines.append(f"  await {call}")
        lines.append("  send Done2()")
    if second:
        lines.append(f"  start act b{helper_arg}" if helpers else f"  activate {call2}")
        lines.append("  send Done2()")
    lines += ["  match Never()", ""]
    verb = {"assign": "$x = await ", "await": "await ", "startref": "start ", "activate": "activate "}[case["form"]]
    return "\n".join(lines), payload, [verb + c for c in (call, call2) if c is not None]


def _strip(e):
    return {k: v for k, v in e.items() if k not in ("type", "uid", "event_created_at", "source_uid")}


def _siblings(case):
    lit = smh.lit
    v = case["vals"]
    text = "\n".join(
        [
            "flow g $id $v",
            "  $loc = $v",
            "  match Step(i=$id)",
            "  send EchoA(id=$id, loc=$loc, v=$v)",
            '  $loc = "changed"',
            '  $v = "changed"',
            "  match Step(i=$id)",
            "  send EchoB(id=$id, loc=$loc, v=$v)",
            "",
            "flow main",
            '  $loc = "main-loc"',
            '  $v = "main-v"',
            f"  start g 0 {lit(v[0])}",
            f"  start g 1 $v={lit(v[1])}",
            "  match Probe()",
            "  send Res(loc=$loc, v=$v)",
            "  match Never()",
            "",
        ]
    )
    state = smh.init(text)
    steps = [0, 0]
    for who in case["order"]:
        out = [e for e in smh.feed(state, smh.ev("Step", i=who)) if e["type"].startswith("Echo")]
        steps[who] += 1
        if steps[who] == 1:
            exp = [("EchoA", {"id": who, "loc": v[who], "v": v[who]})]
        elif steps[who] == 2:
            exp = [("EchoB", {"id": who, "loc": "changed", "v": "changed"})]
        else:
            exp = []
        got = [(e["type"], _strip(e)) for e in out]
        if got != exp:
            raise Violation("sibling-leak", f"values {v}, order {case['order']}: after Step(i={who}) #{steps[who]} got {got}, expected {exp}")
    out = [e for e in smh.feed(state, smh.ev("Probe")) if e["type"] == "Res"]
    if [_strip(e) for e in out] != [{"loc": "main-loc", "v": "main-v"}]:
        raise Violation("caller-variables-changed", f"caller's variables after the siblings ran: {[_strip(e) for e in out]}")
    nt = any(isinstance(x, (list, dict, bool)) or x is None for x in v)
    return ok(nt=nt, labels=["siblings"], view={"leg": "siblings", "vals": v, "order": case["order"]})


def _skey(x):
    """Type-strict canonical text of a value (True, 1 and 1.0 differ)."""
    return json.dumps(x, sort_keys=True)


def _check_echos(phase, got, b1, b2, identical, call_desc, observed):
    got = sorted(got, key=_skey)
    observed.append(got)
    if b2 is None:
        exp = [b1]
    elif identical:
        exp = [b1] * max(1, min(2, len(got)))
    else:
        exp = sorted([b1, b2], key=_skey)
    if got != exp:
        if phase == "activation":
            kind = "binding"
        else:
            kind = "restart-binding"
        return kind, f"{call_desc}: {phase}: the running instances echoed {got}, expected {exp}" + (" (one or two instances)" if identical else "")
    return None


def prop(case):
    if case["leg"] == "siblings":
        return _siblings(case)
    text, payload, calls = _program(case)
    echo_exp, ret_exp = _callee_model(case)
    activate = case["form"] == "activate"
    second = case.get("second") if activate else None
    state = smh.init(text)
    events = list(state.outgoing_events)
    if case["via_event"]:
        events = smh.feed(state, smh.ev("In", **payload))
    call_desc = text.split("flow main")[0].split("\n")[0] + " | " + " | ".join(calls)
    if activate and case.get("act_from") == "helpers":
        call_desc += " (each activation issued by a flow started from main)"
    if case["via_event"]:
        call_desc += f" with $e={payload!r}"
    echos = [_strip(e) for e in events if e["type"] == "Echo"]
    if case.get("override"):
        call_desc = "@override of `" + [l for l in text.split("\n") if l.startswith("flow ")][0 if case["override"]["first"] else 1] + "`: " + call_desc.replace("@override | ", [l for l in text.split("\n") if l.startswith("flow ")][1 if case["override"]["first"] else 0] + " | ")
        if any(e["type"] == "BaseRan" for e in events):
            raise Violation("base-flow-ran", f"{call_desc}: the overridden base flow ran")
    observed = []
    b2 = identical = None
    if activate:
        b2 = _callee_model(case, second["pos"], second["named"])[0] if second else None
        identical = second is not None and _skey(echo_exp) == _skey(b2)
        if second is not None and not identical and echo_exp == b2:
            return ok(skip="the two activations differ only by True/1/1.0 (whether these are identical parameters is unspecified)", labels=["activate"])
        bad = _check_echos("activation", echos, echo_exp, b2, identical, call_desc, observed)
        if bad:
            raise Violation(bad[0], bad[1], detail={"observed": observed})
    elif case.get("repeat"):
        if echos != [echo_exp, echo_exp]:
            kind = "default-not-fresh" if echos[:1] == [echo_exp] else "binding"
            raise Violation(kind, f"{call_desc} called twice (the callee appends to defaulted list parameters in place): callee saw {echos}, expected twice {echo_exp}")
    elif echos != [echo_exp]:
        raise Violation("binding", f"{call_desc}: callee saw {echos}, expected [{echo_exp}]")
    res = [_strip(e) for e in events if e["type"] == "Res"]
    caller_exp = {"x": ret_exp if case["form"] == "assign" else None, "loc": case["caller_loc"]}
    for p in case["sig"]:
        caller_exp[p["name"]] = f"caller-{p['name']}"
    if res != [caller_exp]:
        kind = "return-value" if res and {k: v for k, v in res[0].items() if k != "x"} == {k: v for k, v in caller_exp.items() if k != "x"} else "caller-variables-changed"
        raise Violation(kind, f"{call_desc}: caller observed {res}, expected [{caller_exp}]")
    if activate:
        # every Tick lets each running instance finish its body (in-place append, reassignments of parameters and $loc, return);
        # an activated flow is then started again: the new instance must be bound like the activation it belongs to
        reassigned = sorted({t for t, _ in case["assigns"] if t != "loc"} | set(case.get("wrap", ())) | set(_mutated(case)))
        for j in range(case["ticks"]):
            out = smh.feed(state, smh.ev("Tick"))
            got = [_strip(e) for e in out if e["type"] == "Echo"]
            bad = _check_echos(f"after restart #{j + 1} (the body {'changed ' + ', '.join('$' + t for t in reassigned) if reassigned else 'changed no parameter'})", got, echo_exp, b2, identical, call_desc, observed)
            if bad:
                kind = bad[0]
                if _mutated(case) and all(all(e.get(k) == v for k, v in echo_exp.items() if k not in _mutated(case)) for e in got) and b2 is None:
                    kind = "default-not-fresh"
                raise Violation(kind, bad[1], detail={"observed": observed})
            other = [e["type"] for e in out if e["type"] in ("Res", "Done2", "BaseRan")]
            if other:
                raise Violation("caller-variables-changed", f"{call_desc}: restart #{j + 1} made the caller or the base flow run again: {other}")
    n = len(case["sig"])
    k = len(case["pos"])
    used_default = any(i >= k and p["name"] not in case["named"] and "default" in p for i, p in enumerate(case["sig"]))
    mix = sum([k > 0, bool(case["named"]), used_default])
    vals = list(case["pos"]) + list(case["named"].values())
    nt = mix >= 2 or any(isinstance(x, (list, dict, bool)) or x is None for x in vals)
    labels = [case["syntax"], case["form"], "via-event" if case["via_event"] else "literal", f"params{n}" if n <= 4 else "params5-9" if n <= 9 else "params10-14", f"mix{mix}", "ret-" + case["ret"]["kind"]]
    if used_default:
        labels.append("default-used")
    k_max = max(k, len(second["pos"]) if second else 0)
    if k_max > 4:
        # positional argument i is handed over as `$i`: from the eleventh on the identifier has two digits
        labels.append("positional11+" if k_max > 10 else "positional5-10")
        nt = True
    if _named_before_positional(case) or (second and _named_before_positional(second)):
        labels.append("named-written-before-positional")
        nt = True
    if _default_before_nondefault(case["sig"]) is not None:
        labels.append("default-before-nondefault")
        if k:
            # positional arguments into a signature whose declaration order differs from "mandatory first"
            labels.append("positional-into-default-before-nondefault")
            nt = True
    held = _members_at_end(case)
    if held:
        labels.append(f"return-members{len(held)}")
        holds = any(v is not None for v in held.values())
        labels.append("member-holds-value-at-end" if holds else "member-none-at-end")
        if holds and case["form"] == "assign":
            if ret_exp is None:
                labels.append("returns-none-while-member-holds-value")
                nt = True
            elif not any(_skey(ret_exp) == _skey(v) for v in held.values()):
                labels.append("returns-other-value-than-member")
    if any(p["name"] not in case["named"] and i >= k and "default" not in p for i, p in enumerate(case["sig"])):
        labels.append("omitted-no-default")
    if case["assigns"]:
        labels.append("callee-assigns")
    if case.get("wrap"):
        labels.append("callee-reassigns-param-from-itself")
    if case.get("override"):
        labels.append("override-with-other-signature")
    if case.get("repeat"):
        labels.append("called-twice")
    if _mutated(case):
        labels.append("defaulted-list-mutated-in-place")
    if activate:
        labels.append(f"activate-restarts{case['ticks']}")
        labels.append("activate-from-" + case.get("act_from", "main"))
        param_changed = bool({t for t, _ in case["assigns"] if t != "loc"} | set(case.get("wrap", ())))
        if case["ticks"] and param_changed:
            labels.append("activate-restart-after-param-reassigned")
            bound = [p["name"] for i, p in enumerate(case["sig"]) if i < k or p["name"] in case["named"]]
            changed = {t for t, _ in case["assigns"]} | set(case.get("wrap", ()))
            if changed & set(p["name"] for p in case["sig"][:k]):
                labels.append("activate-restart-reassigned-positional")
            if changed & set(case["named"]):
                labels.append("activate-restart-reassigned-named")
            if changed & {p["name"] for p in case["sig"] if "default" in p and p["name"] not in bound}:
                labels.append("activate-restart-reassigned-defaulted")
            nt = True
        if second:
            labels.append("two-activations-" + ("identical" if identical else "distinct") + "-binding")
            labels.append("second-activation-" + second.get("mode", "enumerated"))
            prov1 = {p["name"] for i, p in enumerate(case["sig"]) if i < k or p["name"] in case["named"]}
            prov2 = {p["name"] for i, p in enumerate(case["sig"]) if i < len(second["pos"]) or p["name"] in second["named"]}
            with_default = {p["name"] for p in case["sig"] if "default" in p}
            same_provided = all(_skey(echo_exp[nm]) == _skey(b2[nm]) for nm in prov1 & prov2)
            if not identical and same_provided and (prov1 - prov2) & with_default:
                labels.append("second-omits-defaulted-param-first-set")
            if not identical and same_provided and (prov2 - prov1) & with_default:
                labels.append("first-omits-defaulted-param-second-sets")
            if not identical:
                nt = True
    return ok(nt=nt, labels=labels, view={"call": call_desc, "echo": echo_exp, "returned": ret_exp})
