"""C11 - a saved or aged conversation state continues exactly like the live one.

Domain : generated Colang 2 programs (vf/co2.py) extended with variables holding sets, regex objects, nested containers,
         dicts with int/str keys (generated dicts with keys of mixed kinds at any position, in every placement) and references to
         flows/actions/events (also references to flows that ended long ago, read through later), non-finite floats (computed or received, in every placement);
         and-groups of flows in open when / await scopes whose members end at different times; helper flows activated by several flows that end / deactivate in drawn ways; histories H = H1 . cut . H2 with the cut at every
         position (enumerated per drawn case up to a bound) and cut in {save/restore, age > 5 s, both}.
Oracle : differential. Two executions from scratch with identical tie-break choices: A feeds H1.H2 live; B feeds H1, applies
         json_to_state(state_to_json(state)) (which must not raise) and/or advances the (fake) clock by 6 s, then feeds H2.
         The canonicalised outgoing events of H2 must be equal step by step and the C09 invariants must hold on the restored state.
"""
import json
import re

from hypothesis import strategies as st

from vf import co2, smh
from vf.core import Violation, ok

PID = "C11"
LEVEL = "exploration"
CASE_TIMEOUT = 60
RULE = (
    "program from the co2 grammar; optionally every flow gets a prologue assigning rich variables ($s set, $rx regex, $d dict with an int and "
    "a str key, $n nested containers) and 0-4 statements using them are inserted at drawn positions (send the value, index the dict by its "
    "int key, match with the regex, start an action with a set argument, start an action with a dict variable as argument and match its Finished event through a dict literal); history of 2-24 items; up to 3 drawn cut points x mode in "
    "{save, age, both, every (a round trip before each later event), every-age (round trip + 6 s idle before each later event)}; 3 of 14 generated cases run the shipped library (core, timing, avatars; generator shared with C09) with 1-2 cuts; 2 of 14 run the real RuntimeV2_x.process_events: a fixed program with state-dependent system actions (CheckValidFlowExistsAction, CheckFlowDefinedAction, CheckForActiveEventMatchAction, AddFlowsAction / RemoveFlowsAction of a dynamic flow) through the real RuntimeV2_x.process_events over generated histories (also enumerated: all histories of length 3 over five events); 1 of 14 is an LLMRails conversation (vf.pipeline Colang 2.x configuration: rails, dialog flows, `llm continuation`) of 2-4 turns in which the State object is handed back live vs. the JSON state returned by generate() (modes save, both = + 6 s idle per turn, rewind = an older snapshot restored on the same instance). Non-trivial = at the cut at least one child flow is running and a reference-typed or container variable is live "
    "(save), or a finished instance older than the threshold exists (age); distinct by (program, history, cut, mode). "
    "Two further dimensions of the state-machine cases (each drawn for about 1 in 3, labels mixed-* / shared-*): (a) mdict - a dict whose keys are of MIXED kinds "
    "(1-5 unique keys from strings, ints, a float, False, None, a tuple; a STRING key first in 2 of 3 and a non-string key somewhere behind it; one value may itself be a "
    "string-first mixed dict), placed as a flow variable, inside a list / a dict / an int-keyed or mixed-keyed dict, as a global (also nested) or as an action argument, and "
    "1-3 statements at drawn positions that look it up by every key, test a non-string key with `in`, send it, or change it in place (uses mixed-index / -in / -send / -update / -deep); "
    "(b) shared - one helper flow (a dedicated c11note that ends through its last statement and restarts / never ends / aborts / holds an action, or a parameterless generated helper) "
    "ACTIVATED BY two or three extra flows c11act<i> that end in drawn ways (last statement, abort, StopFlow from another flow, `deactivate` of the helper before the last statement, never), "
    "started at drawn positions, plus 0-2 `deactivate <helper>` and 0-1 StopFlow / further `activate` statements at drawn positions of drawn flows (half of these cases in an ageing mode); "
    "label cut-with-ended-helper-under-running-activator = at a cut a fully deactivated, ended helper instance is still listed as child of a running activator; "
    "(c) flowref (about 1 in 3; labels flowref-*) - one or two REFERENCES TO FLOWS THAT END, kept in a variable of a drawn flow (mostly main) at a drawn position and dereferenced later: each use owns a flow "
    "c11calc<i> $x -> $res (parameter, return member, local variable $loc; it ends before its first wait / after one drawn event / sets $res again after that event / aborts after it), obtains the reference "
    "through `await c11calc<i> V as $fr`, `start ... as $fr`, the flow attribute of a matched flow event (`match $fs.Finished() as $fe` / `match FlowFinished(flow_id=..) as $fe`, Failed for the aborting tail: `$fe.flow`) "
    "or a copy of the reference in a second variable, waits for 1-2 drawn events and then reads 1-3 drawn members (x / res / loc) in a send, in the script of a started action or in an if condition; optionally one more "
    "drawn event and a second read of all three members; parameter value from str / int / 0 / list / dict, positional or named call; 2 of 3 of these cases in an ageing mode. Labels cut-with-reference-to-ended-flow = at a cut a "
    "variable of a running flow holds (directly or as the flow of a kept event) a flow instance that has ended, ended-flow-read-through-reference-after-cut = and the output of such a read appears after that cut. "
    "(d) nonfinite (about 1 in 6; labels nonfinite-*) - a NON-FINITE FLOAT (inf / -inf / nan) that is computed in a flow (`1e308 * 10.0`, `0.0 - 1e308 * 10.0`, inf - inf) or arrives as the parameter of a received event "
    "(history items carry it as the plain-data stand-in {__nf__: name}; for such a case about 1 in 4 events of the history carry one, the drawn source event always) and is kept across the cuts in a drawn placement: flow variable, inside a list / a nested dict, "
    "global, argument of a started action, argument of a started flow, or only the reference to the received event; after 1-2 drawn events it is read through that placement in a send, an if condition (> 1e300), a comparison with itself and a product with 0.0, "
    "or the script of a started action, optionally read again one drawn event later; 2 of 3 of these cases in a saving mode. The runtime leg gives every received event a non-finite parameter in 1 of 2 cases (the runtime keeps received events in the state; "
    "the watcher flow keeps and sends Ev0's). Outgoing events are compared with non-finite floats replaced by their repr (nan != nan). Label cut-with-non-finite-float-in-variable-or-action = at a cut such a value is reachable from a variable of a running flow or from an action. "
    "(e) scope (about 1 in 6; labels scope-*) - an OPEN SCOPE THAT OUTLIVES A FLOW STARTED INSIDE IT: an and-group of 2-3 flows c11m<i> (each ends before its first wait / after one / after two occurrences of a drawn event) as a when-case "
    "(`when a and b` with no / an event / a flow `or when` alternative), as `await a and b`, as `await a and b` inside the branch of a when, or as `await (a and b) or c`, followed by sends and optionally one more wait, placed at a drawn position of a drawn flow; "
    "3 of 4 of these cases in an ageing mode. Label cut-with-ended-flow-in-open-scope = at a cut an open scope of a running flow lists a flow instance that has ended. "
    "(f) regex-from-outside (1 in 3 of the runtime-leg cases without non-finite parameters; labels regex-from-outside / rx-*) - a COMPILED REGEX WHOSE FLAGS ARE NOT PART OF THE PATTERN (re.compile(pattern, flags); Colang's regex(\"...\") can only "
    "write flags inline): 11 pattern rows (IGNORECASE, DOTALL, MULTILINE, VERBOSE, the pairs and the triple, controls without flags and with an inline flag), each with a text matched only thanks to the flags (T0), a text matched anyway (T1) and a text never matched (T2); "
    "the pattern enters the flow as the return value of a registered custom action (C11PatternAction) or as the parameter of a received event, is kept as a flow variable / inside a list / a nested dict / a global / the argument of a started flow / only through the reference to the received event, "
    "and is used in a loop as an event-parameter match (`match Probe(v=$p)`), as the final_transcript of UtteranceUserAction.Finished, or in `if search($p, $m.v)`; history = 0-2 items, Arm, 2-8 items from {T0 x3, T1, T2, Other, Arm, age}, 1-3 cuts, 3 of 4 in a saving mode. "
    "Label cut-with-flagged-regex-held-then-flag-dependent-text = a saving cut lies after the pattern was obtained and a T0 text follows it. "
    "Enumerated (the regex-from-outside family first: every pattern row x {action, event} x 2 histories, placement / use / mode rotating, every cut; then): non-finite floats (3 values x {computed, received} x every placement, kind of read rotating x every cut x save, partly every-age / both / every); open scopes (4 shapes x {no, event, flow alternative} x 3 orders of the members' events "
    "with other events in between x every cut x {age, every-age}, partly both); runtime-leg histories with non-finite event parameters (3 values x 3 histories x every cut x {save, every-age}); every rich use x 2 positions x every cut x 4 modes; flow references (5 ways of obtaining the reference x 4 ways the referenced flow ends x 1-2 waits before the read, member / place of the read / parameter value "
    "rotating, second read one event later x every cut x two of {age, every-age, both, save}); activated flows restarting (single activator); two-activator programs (activator kinds finish / abort / stopped / tidy squared x "
    "0-2 deactivations by a third flow x helper tails x all orders of the three events x every cut x age, partly every-age); mixed-key dicts (string key first then int / float / bool / None / tuple key, "
    "controls, every placement x all mixed uses x every cut x save, partly every-age); runtime-leg histories; hand-written families (action reference returned from a flow, orphan action watched by arguments, dict variable as action argument matched by a dict literal, alias list) x their histories x every cut x 4 modes; the C09 families."
)
ASSUMPTIONS = [
    "cuts are between events (the only points at which the API hands out a state)",
    "sets are compared as sets; uids are renamed by first appearance; timestamps are dropped",
    "the interpreter's clock is the harness's fake clock; run A never advances it",
    "the live run is executed once per case (it does not depend on the cut); its outputs from the cut on are compared with the run that is cut there",
    "structural invariants are asserted on the restored state only as far as the state satisfied them before it was saved (what idle clean-up alone leaves behind - e.g. the uid of a discarded helper instance in the child list of its second activator - is C09's subject)",
    "dict keys of a generated mixed-key dict are pairwise different under == (no True next to 1, no 2.0 next to 2); the tuple key is produced with list({..}.items())[0] since Colang has no tuple literal",
    "reading a finished flow's members through a reference is documented for return members (docs/colang_2/language_reference/working-with-variables-and-expressions.rst, Flow Variable Access: `await user said something as $ref` ... `$ref.transcript`) and `$ref.flow` of a flow event in defining-flows.rst; parameters and local variables are readable the same way in the implementation - the oracle does not depend on what a read yields, both runs execute the same program",
    "an awaited flow that aborts fails the awaiting flow, so the aborting tail is not combined with `await ... as $ref` (nothing would be read afterwards)",
    "non-finite floats are legitimate Colang values (Python float arithmetic of the expression evaluator; event parameters are arbitrary JSON-like payloads); what an expression over them yields is not asserted - both runs execute the same program; outputs holding nan are compared through repr since nan != nan",
    "flow groups in when / await (`when a and b`, `await (a and b) or c`) are documented in docs/colang_2/language_reference/defining-flows.rst (Flow Grouping: `await a and b`, brackets) and flow-control.rst (`when` / `or when` with flows and groups); the oracle does not depend on their semantics",
    "a re.Pattern is a legitimate state value whatever its origin (the state encoder has a regex case that records pattern AND flags; action results and event parameters are arbitrary Python values; eval's search() and the event-parameter comparison accept compiled patterns): the oracle only compares the live with the restored run, it does not assert which texts match",
    "`deactivate X` is the documented statement (docs/colang_2/language_reference/more-on-flows.rst, = send StopFlow(flow_id=X, deactivate=True)); the oracle does not depend on what it does - both runs execute the same program",
]
WALL = {"quick": 170, "thorough": 1500}

RICH_PROLOGUE = {
    "s": "$s = {1, 2}",
    "rx": '$rx = regex("^[01]$")',
    "d": '$d = {1: "one", "k": [1, {"n": None}]}',
    "n": '$n = [[1, 2], {"a": {"b": 3}}, "x"]',
}
USES = {
    "send-set": ("s", "send OutS(v=$s)"),
    "send-nested": ("n", "send OutN(v=$n)"),
    "send-dict": ("d", "send OutD(v=$d)"),
    "index-int-key": ("d", "send OutK(v=$d[1])"),
    "index-str-key": ("d", 'send OutJ(v=$d["k"])'),
    "match-regex": ("rx", "match Ev2(v=$rx)"),
    "action-set-arg": ("s", "start XCustomAction(p=$s) as $axs"),
    "action-nested-arg": ("n", "start XCustomAction(p=$n) as $axn"),
    # an action started with a dict taken from a flow variable (it travels as AttributeDict, a plain dict after a restore), its Finished
    # event matched by the action's arguments written as a dict literal (C04-F39)
    "action-dict-arg-match": (None, '$dd = {"a": 1}\nstart XCustomAction(p=$dd) as $axd\nmatch Ev1()\nmatch XCustomAction(p={"a": 1}).Finished()\nsend OutAD()'),
    # references to received events / started actions kept across a cut and dereferenced afterwards
    "event-ref": (None, "match Ev3() as $evref\nmatch Ev0()\nsend OutE(v=$evref.v)"),
    "action-ref": (None, 'start UtteranceBotAction(script="ref") as $actref\nmatch Ev1()\nsend OutA(s=$actref.start_event_arguments.script)'),
    "global-var": (None, 'global $gv\n$gv = {"k": [1, 2]}\nmatch Ev2()\nsend OutG(v=$gv)'),
    # object identity: one dict reachable through two references (two variables; a child flow sharing the parent's context)
    "alias-dict": (None, '$ad = {"k": 1}\n$bd = $ad\nmatch Ev1()\n($bd.update({"k": 2}))\nsend OutAlias(v=$ad["k"])'),
    # one LIST reachable through two variables (open finding C11-F25: lists are not reference-tracked by the encoder)
    "alias-list": (None, '$al = [1]\n$bl = $al\nmatch Ev1()\n($al.append(2))\nsend OutAliasL(v=$bl)'),
    # a child flow that FAILS with a runtime error (before or after the cut); the failed instance stays reachable through $failref
    "failing-child": (None, "start c11failer as $failref\nmatch Ev1()\nsend OutAfterFailure()"),
    "shared-context": (None, '$status = "initial"\n$ctxuid = uid()\nsend StartFlow(flow_id="ctxhelper", flow_instance_uid=$ctxuid, context=$self.context)\nmatch FlowStarted(flow_instance_uid=$ctxuid)\nmatch FlowFinished(flow_instance_uid=$ctxuid)\nsend OutShared(v=$status)'),
}
FAILER = {"name": "c11failer", "params": [], "loop": None, "body": [{"k": "raw", "text": "match Ev0()"}, {"k": "raw", "text": '$z = 1 + "a"'}, {"k": "raw", "text": "send NeverSentByFailer()"}]}
CTXHELPER = {"name": "ctxhelper", "params": [], "loop": None, "body": [{"k": "raw", "text": "match Ev3()"}, {"k": "raw", "text": '$status = "updated by helper"'}]}

# ------------------------------------------------------------------------------------------------
# dict variables with keys of MIXED kinds (JSON object keys are strings: the encoder has to notice a non-string key at ANY position)
#   case["mdict"] = {"keys": [k0, k1, ...] (unique; ["t"] stands for a tuple key), "at": <placement>, "deep": bool}
#   value of key i is "v<i>"; with deep the last value is itself a string-first mixed dict {"z": 0, 4: "deep"}
MIXED_KEYS = ["k", "default", "1", 1, 2, 7, 2.5, False, None, ["t"]]  # pairwise different under == (no True/1, False/0, 2.0/2)
MIXED_AT = {
    # placement -> (prologue lines, path of the dict); {D} = the dict literal
    "var": (["$md = {D}"], "$md"),
    "list": (["$md = [0, {D}]"], "$md[1]"),
    "dict": (['$md = {"in": {D}}'], '$md["in"]'),
    "intdict": (['$md = {3: {D}, "s": 0}'], "$md[3]"),
    "mixeddict": (['$md = {"s": 0, 3: {D}}'], "$md[3]"),
    "global": (["global $mg", "$mg = {D}"], "$mg"),
    "global-list": (["global $mg", '$mg = {"k": [{D}]}'], '$mg["k"][0]'),
    "action-arg": (["start XCustomAction(p={D}) as $axm"], "$axm.start_event_arguments.p"),
}
MIXED_USES = ["mixed-index", "mixed-send", "mixed-in", "mixed-update", "mixed-deep"]
TUPLE_KEY = '$mt = list({"a": 1}.items())[0]'  # Colang has no tuple literal; this one is ("a", 1)


def _klit(k):
    return "$mt" if isinstance(k, list) else smh.lit(k)


def _key_kind(k):
    return "tuple" if isinstance(k, list) else "none" if k is None else type(k).__name__


def _mixed_tables(md):
    """(prologue lines, {use name: statement text}) of one generated mixed-key dict."""
    keys = md["keys"]
    vals = [smh.lit(f"v{i}") for i in range(len(keys))]
    if md.get("deep"):
        vals[-1] = '{"z": 0, 4: "deep"}'
    lit = "{" + ", ".join(f"{_klit(k)}: {v}" for k, v in zip(keys, vals)) + "}"
    lines, path = MIXED_AT[md["at"]]
    pro = ([TUPLE_KEY] if any(isinstance(k, list) for k in keys) else []) + [ln.replace("{D}", lit) for ln in lines]
    nonstr = [k for k in keys if not isinstance(k, str)] or keys
    shallow = keys[:-1] if md.get("deep") and len(keys) > 1 else keys
    uses = {
        "mixed-index": "send OutMK(" + ", ".join(f"a{i}={path}[{_klit(k)}]" for i, k in enumerate(shallow)) + ")",
        "mixed-send": f"send OutMD(v={path})",
        "mixed-in": f"$mi = {_klit(nonstr[-1])} in {path}\nsend OutMI(v=$mi)",
        "mixed-update": f'({path}.update({{{_klit(nonstr[-1])}: "changed"}}))\nsend OutMU(v={path})',
        "mixed-deep": f"send OutMZ(v={path}[{_klit(keys[-1])}][4])" if md.get("deep") else f"send OutMZ(v={path}[{_klit(keys[-1])}])",
    }
    return pro, uses


@st.composite
def _mdict(draw):
    strs = [k for k in MIXED_KEYS if isinstance(k, str)]
    others = [k for k in MIXED_KEYS if not isinstance(k, str)]
    first = draw(st.sampled_from(strs * 5 + others))  # a string key first in 2 of 3 dicts
    rest = draw(st.lists(st.sampled_from([k for k in MIXED_KEYS if k != first]), min_size=1, max_size=4, unique_by=repr))
    if isinstance(first, str) and all(isinstance(k, str) for k in rest) and draw(st.integers(0, 3)) > 0:
        rest.append(draw(st.sampled_from(others)))  # mostly at least one non-string key somewhere behind the first
    return {"keys": [first] + rest, "at": draw(st.sampled_from(sorted(MIXED_AT))), "deep": draw(st.integers(0, 3)) == 0}


# ------------------------------------------------------------------------------------------------
# one helper flow ACTIVATED BY SEVERAL flows (its reference instance is listed as a child of every activator, but knows one parent only)
#   case["shared"] = {"target": -1 (dedicated flow c11note) | j (j-th parameterless generated helper),
#                     "note": {"ev": e, "tail": "end"|"never"|"abort"|"action", "loop": None|"NEW"},
#                     "acts": [{"ev": e, "kind": "finish"|"abort"|"stopped"|"tidy"|"never"}, ...]}
#   activator i = flow c11act<i>: activate T, wait for its event, then end in its own way (finish = last statement, abort = `abort`,
#   stopped = an outside flow sends StopFlow for it, tidy = `deactivate T` before its last statement, never = keeps running)
SHARED_USES = {
    "sh-start-0": "start c11act0 as $sh0",  # (+ the flow that will stop it from outside, if the activator is of kind stopped)
    "sh-start-1": "start c11act1 as $sh1",
    "sh-start-2": "start c11act2 as $sh2",
    "sh-activate": "activate {T}",
    "sh-deactivate": "deactivate {T}",
    "sh-stop-0": 'send StopFlow(flow_id="c11act0")',
    "sh-stop-1": 'send StopFlow(flow_id="c11act1")',
}


def _shared_uses(sh, target):
    tab = {k: v.replace("{T}", target) for k, v in SHARED_USES.items()}
    for i, a in enumerate(sh["acts"]):
        if a["kind"] == "stopped":
            tab[f"sh-start-{i}"] += f"\nstart c11stop{i} as $shs{i}"
    return tab


def _raw_flow(name, lines, loop=None):
    return {"name": name, "params": [], "loop": loop, "body": [{"k": "raw", "text": ln} for ln in lines]}


def _shared_flows(sh, target):
    """The extra flows of a shared-activation overlay (dedicated helper, activators, the flows that stop an activator from outside)."""
    flows = []
    if target == "c11note":
        n = sh["note"]
        body = [f"match Ev{n['ev']}()", "send OutNote()"]
        if n["tail"] == "never":
            body += ["match Never()"]
        elif n["tail"] == "abort":
            body += ["abort"]
        elif n["tail"] == "action":
            body = [f"match Ev{n['ev']}()", 'start UtteranceBotAction(script="note") as $na', "send OutNote()", f"match Ev{n['ev']}()"]
        flows.append(_raw_flow("c11note", body, n.get("loop")))
    for i, a in enumerate(sh["acts"]):
        body = [f"activate {target}"]
        if a["kind"] in ("stopped", "never"):
            body += ["match Never()"]
        else:
            body += [f"match Ev{a['ev']}()"]
            if a["kind"] == "tidy":
                body += [f"deactivate {target}"]
            body += [f"send OutAct{i}()"]
            if a["kind"] == "abort":
                body += ["abort"]
        flows.append(_raw_flow(f"c11act{i}", body))
        if a["kind"] == "stopped":
            flows.append(_raw_flow(f"c11stop{i}", [f"match Ev{a['ev']}()", f'send StopFlow(flow_id="c11act{i}")', f"send OutStopped{i}()"]))
    return flows


@st.composite
def _shared(draw, nflows):
    """Overlay + the uses that wire it into the generated program: (shared, uses)."""
    ev = st.integers(0, co2.EVENTS - 1)
    kinds = ["finish", "finish", "abort", "stopped", "tidy", "tidy", "never"]
    acts = [{"ev": draw(ev), "kind": draw(st.sampled_from(kinds))} for _ in range(draw(st.sampled_from([2, 2, 2, 3])))]
    sh = {
        "target": draw(st.sampled_from([-1, -1, 0, 1, 2])),
        "note": {"ev": draw(ev), "tail": draw(st.sampled_from(["end", "end", "never", "abort", "action"])), "loop": draw(st.sampled_from([None, None, "NEW"]))},
        "acts": acts,
    }
    main = nflows - 1
    where = st.sampled_from([main, main, main] + list(range(nflows)))
    pos = st.integers(0, 8)
    fi = draw(where)
    early = st.sampled_from([0, 0, 1, 2, 3, 5, 8])  # mostly started before the first wait of the flow
    uses = [[fi, draw(early), f"sh-start-{i}"] for i in range(len(acts))]
    for _ in range(draw(st.integers(0, 2))):
        uses.append([draw(where), draw(pos), "sh-deactivate"])
    for _ in range(draw(st.integers(0, 1))):
        uses.append([draw(where), draw(pos), draw(st.sampled_from(["sh-stop-0", "sh-stop-1", "sh-activate"]))])
    return sh, uses


# ------------------------------------------------------------------------------------------------
# references to FLOWS that ended long ago, dereferenced later (the instance is discarded from the state by the idle clean-up while a
# variable of a running flow still holds it: its parameters / return members / local variables stay readable through the reference)
#   case["flowref"] = {"uses": [{"via": how the reference is obtained, "tail": how c11calc<i> ends, "tev": event of its wait,
#                                "arg": parameter value, "named": call style, "gap": [events waited for before the first read],
#                                "read": [members], "how": where the read happens, "again": event before a second read | None}, ...]}
#   use i lives in a drawn flow at a drawn position (uses entry "fref-<i>") and owns the flow c11calc<i> $x -> $res
FREF_VIA = {
    # how the reference reaches the variable -> (statements, path of the flow reference); {C} = the call, {F} = Finished | Failed
    "await": (["await {C} as $fr{i}"], "$fr{i}"),
    "start": (["start {C} as $fr{i}"], "$fr{i}"),
    "event": (["start {C} as $fs{i}", "match $fs{i}.{F}() as $fe{i}"], "$fe{i}.flow"),  # the flow attribute of a matched flow event
    "internal": (["start {C} as $fs{i}", 'match Flow{F}(flow_id="c11calc{i}") as $fe{i}'], "$fe{i}.flow"),
    "copy": (["start {C} as $fs{i}", "$fr{i} = $fs{i}"], "$fr{i}"),  # a second variable holding the same reference
}
FREF_TAILS = ["now", "wait", "late", "abort"]  # ends before its first wait | after one event | sets $res after the event | aborts after it
FREF_MEMBERS = ["x", "res", "loc"]  # parameter, return member, local variable
FREF_ARGS = ["ab", 3, 0, [1, "b"], {"k": 1}]
FREF_HOW = ["send", "action", "if"]


def _fref_flow(i, u):
    body = ['$loc = [$x, "loc"]', '$res = "{$x}-{$x}"']
    if u["tail"] != "now":
        body += [f"match Ev{u['tev']}()"]
    if u["tail"] == "late":
        body += ['$res = "late {$x}"']
    if u["tail"] == "abort":
        body += ["abort"]
    # (co2.render writes the parameter list verbatim after the name: the return member is declared through it)
    return {"name": f"c11calc{i}", "params": ["x -> $res"], "loop": None, "body": [{"k": "raw", "text": ln} for ln in body]}


def _fref_read(how, path, members, i, n):
    if how == "action":
        return f'start UtteranceBotAction(script="fref{i} ' + " ".join("{" + f"{path}.{m}" + "}" for m in members) + '")'
    if how == "if":
        return f"if {path}.{members[0]}\n  send OutFRyes{i}(n={n})\nelse\n  send OutFRno{i}(n={n})"
    return f"send OutFR{i}(n={n}, " + ", ".join(f"{m}={path}.{m}" for m in members) + ")"


def _fref_tables(fr):
    """(extra flows, {use name: statement text}) of a flow-reference overlay."""
    flows, tab = [], {}
    for i, u in enumerate(fr["uses"]):
        flows.append(_fref_flow(i, u))
        lines, path = FREF_VIA[u["via"]]
        call = f"c11calc{i}(x={smh.lit(u['arg'])})" if u.get("named") else f"c11calc{i} {smh.lit(u['arg'])}"
        sub = lambda t: t.replace("{C}", call).replace("{F}", "Failed" if u["tail"] == "abort" else "Finished").replace("{i}", str(i))  # noqa: E731
        text = [sub(ln) for ln in lines] + [f"match Ev{g}()" for g in u["gap"]] + [_fref_read(u["how"], sub(path), u["read"], i, 1)]
        if u.get("again") is not None:
            text += [f"match Ev{u['again']}()", _fref_read("send", sub(path), FREF_MEMBERS, i, 2)]
        tab[f"fref-{i}"] = "\n".join(text)
    return flows, tab


@st.composite
def _flowref(draw, nflows):
    """Overlay + the uses that place it in the generated program: (flowref, uses)."""
    ev = st.integers(0, co2.EVENTS - 1)
    main = nflows - 1
    where = st.sampled_from([main, main, main] + list(range(nflows)))
    fr, uses = {"uses": []}, []
    for i in range(draw(st.sampled_from([1, 1, 2]))):
        via = draw(st.sampled_from(sorted(FREF_VIA)))
        # an awaited flow that aborts fails the awaiting flow: nothing would be read afterwards
        tail = draw(st.sampled_from(["now", "now", "wait", "late"] + ([] if via == "await" else ["abort"])))
        fr["uses"].append(
            {
                "via": via,
                "tail": tail,
                "tev": draw(ev),
                "arg": draw(st.sampled_from(FREF_ARGS)),
                "named": draw(st.integers(0, 3)) == 0,
                "gap": draw(st.lists(ev, min_size=1, max_size=2)),
                "read": draw(st.lists(st.sampled_from(FREF_MEMBERS), min_size=1, max_size=3, unique=True)),
                "how": draw(st.sampled_from(["send", "send"] + FREF_HOW)),
                "again": draw(st.sampled_from([None, None, 0, 1, 2, 3])),
            }
        )
        uses.append([draw(where), draw(st.sampled_from([0, 0, 1, 2, 3, 5, 8])), f"fref-{i}"])
    return fr, uses


def _flowref_cases():
    """A reference to a flow that ended, read one or two events later: every way of obtaining the reference x every way the flow ends x
    1-2 waits before the read (member and place of the read rotate) x every cut x {age, every-age, both, save}."""
    n = 0
    for via in sorted(FREF_VIA):
        for tail in FREF_TAILS:
            if via == "await" and tail == "abort":
                continue
            for gap in ([0], [0, 2]):
                u = {"via": via, "tail": tail, "tev": 1, "arg": FREF_ARGS[n % len(FREF_ARGS)], "named": n % 4 == 3, "gap": gap, "read": [FREF_MEMBERS[n % 3]], "how": FREF_HOW[(n // 3) % 3], "again": 3}
                n += 1
                fr = {"uses": [u]}
                prog = {"flows": [_raw_flow("main", ["match Never()"])]}
                hist = [["ev", 1, None], ["ev", 0, None], ["ev", 2, None], ["ev", 3, None], ["ev", 0, None]]
                for mode in ("age", "every-age") if n % 2 else ("both", "save" if n % 4 == 0 else "age"):
                    yield {"prog": prog, "family": "flow-reference/" + via + "-" + tail, "flowref": fr, "hist": hist, "uses": [[0, 0, "fref-0"]], "cuts": list(range(1, len(hist))), "mode": mode, "choices": []}


# ------------------------------------------------------------------------------------------------
# NON-FINITE floats (inf, -inf, nan) in the state at a cut: the result of an overflowing float multiplication or the parameter of a
# received event, kept in a flow variable / inside a container / in a global / as argument of a started action or a started flow / in
# an event reference, and read after the cut; received events carrying such a value are also the LAST event before a cut
#   case["nonfinite"] = {"val": "inf"|"-inf"|"nan", "src": "calc"|"event", "sev": event the value arrives with (src event),
#                        "at": placement, "gap": [events waited for before the read], "how": kind of read, "again": event | None}
#   history items may carry the value as {"__nf__": "inf"|"-inf"|"nan"} (the case stays plain JSON)
NF_VALUES = {"inf": float("inf"), "-inf": float("-inf"), "nan": float("nan")}
NF_CALC = {"inf": ["$nf = 1e308 * 10.0"], "-inf": ["$nf = 0.0 - 1e308 * 10.0"], "nan": ["$nf = 1e308 * 10.0", "$nf = $nf - $nf"]}
NF_AT = {
    # placement -> (statements keeping the value, path it is read through)
    "var": ([], "$nf"),
    "list": (["$nfc = [1, $nf]"], "$nfc[1]"),
    "dict": (['$nfc = {"k": $nf, "n": [0.5, $nf]}'], '$nfc["n"][1]'),
    "global": (["global $nfg", "$nfg = $nf"], "$nfg"),
    "action-arg": (["start XCustomAction(p=$nf) as $axnf"], "$axnf.start_event_arguments.p"),
    "flow-arg": (["start c11nfhold $nf as $nfh"], "$nfh.x"),
    "event-ref": ([], "$nfe.v"),  # (src event only) the reference to the received event is all that keeps the value
}
NF_HOW = ["send", "if", "cmp", "action"]
NFHOLD = {"name": "c11nfhold", "params": ["x"], "loop": None, "body": [{"k": "raw", "text": "match Ev3()"}, {"k": "raw", "text": "send OutNFH(v=$x)"}, {"k": "raw", "text": "match Never()"}]}


def _nf_read(how, path, n):
    if how == "if":
        return f"if {path} > 1e300\n  send OutNFbig(n={n})\nelse\n  send OutNFsmall(n={n})"
    if how == "cmp":
        return f"$nfq = {path} == {path}\nsend OutNFeq(n={n}, q=$nfq, w={path} * 0.0)"
    if how == "action":
        return '$nfr = %s\nstart UtteranceBotAction(script="nf%d {$nfr}")' % (path, n)
    return f"send OutNF(n={n}, v={path})"


def _nf_tables(nf):
    """(extra flows, {use name: statement text}) of a non-finite-float overlay."""
    at = nf["at"] if nf["src"] == "event" or nf["at"] != "event-ref" else "var"
    lines, path = NF_AT[at]
    src = [f"match Ev{nf['sev']}() as $nfe"] + ([] if at == "event-ref" else ["$nf = $nfe.v"]) if nf["src"] == "event" else NF_CALC[nf["val"]]
    text = src + lines + [f"match Ev{g}()" for g in nf["gap"]] + [_nf_read(nf["how"], path, 1)]
    if nf.get("again") is not None:
        text += [f"match Ev{nf['again']}()", _nf_read("send", path, 2)]
    return ([dict(NFHOLD)] if at == "flow-arg" else []), {"nf-0": "\n".join(text)}


def _nf_item(item):
    """History item with the plain-data stand-in of a non-finite float replaced by the float."""
    if len(item) > 2 and isinstance(item[2], dict) and "__nf__" in item[2]:
        return [item[0], item[1], NF_VALUES[item[2]["__nf__"]]] + list(item[3:])
    return item


def _nf_canon(x):
    """nan != nan: non-finite floats in the outgoing events are compared through their repr."""
    if isinstance(x, float) and (x != x or x in (float("inf"), float("-inf"))):
        return f"<float {x!r}>"
    if isinstance(x, (list, tuple)):
        return type(x)(_nf_canon(i) for i in x)
    if isinstance(x, dict):
        return {k: _nf_canon(v) for k, v in x.items()}
    return x


def _nf_inside(v, depth=0):
    """A non-finite float is reachable from this value (containers, arguments of kept events / actions / flows)."""
    if isinstance(v, float):
        return v != v or v in (float("inf"), float("-inf"))
    if depth > 4:
        return False
    if isinstance(v, dict):
        return any(_nf_inside(x, depth + 1) for x in v.values())
    if isinstance(v, (list, tuple, set, frozenset)):
        return any(_nf_inside(x, depth + 1) for x in v)
    for attr in ("arguments", "start_event_arguments"):
        a = getattr(v, attr, None)
        if isinstance(a, dict) and any(_nf_inside(x, depth + 1) for x in a.values()):
            return True
    return False


@st.composite
def _nonfinite(draw, nflows, hist):
    """Overlay + the uses that place it + the history with the value carried by some events: (nonfinite, uses, hist)."""
    ev = st.integers(0, co2.EVENTS - 1)
    main = nflows - 1
    src = draw(st.sampled_from(["calc", "calc", "event"]))
    nf = {
        "val": draw(st.sampled_from(["inf", "inf", "-inf", "nan", "nan"])),
        "src": src,
        "sev": draw(ev),
        "at": draw(st.sampled_from(sorted(set(NF_AT) - ({"event-ref"} if src == "calc" else set())))),
        "gap": draw(st.lists(ev, min_size=1, max_size=2)),
        "how": draw(st.sampled_from(["send", "send"] + NF_HOW)),
        "again": draw(st.sampled_from([None, None, 0, 1, 2, 3])),
    }
    tok = {"__nf__": nf["val"]}
    out = []
    for item in hist:
        item = list(item)
        if item[0] in ("ev", "hit") and ((src == "event" and item[0] == "ev" and item[1] == nf["sev"]) or draw(st.integers(0, 3)) == 0):
            item[2] = dict(tok) if draw(st.integers(0, 4)) else {"__nf__": draw(st.sampled_from(sorted(NF_VALUES)))}
        out.append(item)
    if src == "event" and not any(i[0] == "ev" and i[1] == nf["sev"] for i in out[:4]):
        out.insert(draw(st.integers(0, min(2, len(out) - 1))), ["ev", nf["sev"], dict(tok)])
    uses = [[draw(st.sampled_from([main, main, main] + list(range(nflows)))), draw(st.sampled_from([0, 0, 1, 2, 3, 5, 8])), "nf-0"]]
    return nf, uses, out


def _nonfinite_cases():
    """A non-finite float kept across a cut: every value x {computed, received} x every placement (kind of read rotating) x every cut x
    save (every third also x every-age / both); the received events carrying the value are also the last event before a cut."""
    n = 0
    for val in ("inf", "-inf", "nan"):
        for src in ("calc", "event"):
            for at in sorted(NF_AT):
                if src == "calc" and at == "event-ref":
                    continue
                nf = {"val": val, "src": src, "sev": 3, "at": at, "gap": [0], "how": NF_HOW[n % len(NF_HOW)], "again": 1}
                tok = {"__nf__": val}
                hist = [["ev", 3, dict(tok)], ["ev", 0, None], ["ev", 1, dict(tok) if n % 2 else None], ["ev", 3, None], ["ev", 2, None]]
                prog = {"flows": [_raw_flow("main", ["match Never()"])]}
                for mode in ("save", ("every-age", "both", "every")[n % 3]) if n % 3 == 0 or at == "var" else ("save",):
                    yield {"prog": prog, "family": "non-finite/" + src + "-" + at, "nonfinite": nf, "hist": hist, "uses": [[0, 0, "nf-0"]], "cuts": list(range(1, len(hist))), "mode": mode, "choices": []}
                n += 1


# ------------------------------------------------------------------------------------------------
# an OPEN SCOPE that outlives a flow started inside it: an and-group of flows in a when-case / in an await (also inside a when-branch or
# next to an or-alternative); one member finishes, idle time passes (its instance is discarded, the scope still lists it), then the
# other member finishes / an alternative wins and the scope is left
#   case["scope"] = {"shape": one of SC_SHAPES, "members": [{"ev": e, "waits": 0|1|2}, ...] (flows c11m<i>), "alt": None | ["ev", e] | ["flow", e]
#                    (the or-when alternative: an event, or the flow c11malt waiting for Ev<e>), "pre": event of the enclosing when-branch,
#                    "after": event waited for after the scope | None}
SC_SHAPES = ["when-and", "await-and", "when-await-and", "await-or-and"]


def _scope_tables(sc):
    """(extra flows, {use name: statement text}) of an open-scope overlay."""
    flows = []
    for i, m in enumerate(sc["members"]):
        flows.append(_raw_flow(f"c11m{i}", [f"match Ev{m['ev']}()"] * m["waits"] + [f"send OutM{i}()"]))
    names = [f"c11m{i}" for i in range(len(sc["members"]))]
    alt = sc.get("alt")
    if alt and alt[0] == "flow":
        flows.append(_raw_flow("c11malt", [f"match Ev{alt[1]}()", "send OutMalt()"]))
    alt_text = None if not alt else "c11malt" if alt[0] == "flow" else f"Ev{alt[1]}()"
    group = " and ".join(names)
    shape = sc["shape"]
    if shape == "when-and":
        text = [f"when {group}", "  send OutScA()"] + ([f"or when {alt_text}", "  send OutScB()"] if alt_text else [])
    elif shape == "await-and":
        text = [f"await {group}", "send OutScA()"]
    elif shape == "await-or-and":
        text = [f"await ({' and '.join(names[:-1])}) or {names[-1]}", "send OutScA()"]
    else:
        text = [f"when Ev{sc['pre']}()", f"  await {group}", "  send OutScA()", f"or when {alt_text or 'Ev3()'}", "  send OutScB()"]
    text += ["send OutScEnd()"]
    if sc.get("after") is not None:
        text += [f"match Ev{sc['after']}()", "send OutScAfter()"]
    return flows, {"scope-0": "\n".join(text)}


@st.composite
def _scope(draw, nflows):
    """Overlay + the uses that place it in the generated program: (scope, uses)."""
    ev = st.integers(0, co2.EVENTS - 1)
    main = nflows - 1
    shape = draw(st.sampled_from(SC_SHAPES))
    nmem = draw(st.sampled_from([2, 2, 3])) if shape != "await-or-and" else 3
    sc = {
        "shape": shape,
        "members": [{"ev": draw(ev), "waits": draw(st.sampled_from([0, 1, 1, 1, 2]))} for _ in range(nmem)],
        "alt": draw(st.sampled_from([None, ["ev", 0], ["ev", 3], ["flow", 1], ["flow", 2], ["flow", 3]])),
        "pre": draw(ev),
        "after": draw(st.sampled_from([None, 0, 1, 2, 3])),
    }
    uses = [[draw(st.sampled_from([main, main, main] + list(range(nflows)))), draw(st.sampled_from([0, 0, 1, 2, 3, 5, 8])), "scope-0"]]
    return sc, uses


def _scope_cases():
    """An and-group of two flows in an open scope, one member finishing before the other with every cut in between: every shape x
    {no alternative, event, flow} x member orders x every cut x {age, every-age} (one in four also both)."""
    n = 0
    for shape in SC_SHAPES:
        for alt in (None, ["ev", 3], ["flow", 3]):
            members = [{"ev": 1, "waits": 1}, {"ev": 2, "waits": 1 + (n % 2)}] + ([{"ev": 3, "waits": 1}] if shape == "await-or-and" else [])
            sc = {"shape": shape, "members": members, "alt": alt, "pre": 0, "after": 0}
            prog = {"flows": [_raw_flow("main", ["match Never()"])]}
            for hist in ([["ev", 0, None], ["ev", 1, None], ["ev", 0, None], ["ev", 2, None], ["ev", 2, None], ["ev", 3, None], ["ev", 0, None]], [["ev", 0, None], ["ev", 2, None], ["ev", 2, None], ["ev", 1, None], ["ev", 0, None]], [["ev", 0, None], ["ev", 1, None], ["ev", 3, None], ["ev", 2, None], ["ev", 0, None]]):
                for mode in ("age", "every-age") + (("both",) if n % 4 == 0 else ()):
                    yield {"prog": prog, "family": "open-scope/" + shape, "scope": sc, "hist": hist, "uses": [[0, 0, "scope-0"]], "cuts": list(range(1, len(hist))), "mode": mode, "choices": []}
            n += 1


def budget(tier):
    return 4000 if tier == "quick" else 40000


@st.composite
def _case(draw):
    prog = draw(co2.programs(profile={"recursion": True}))
    hist = draw(st.lists(co2.history_item(), min_size=2, max_size=24))
    uses = []
    if draw(st.integers(0, 3)) > 0:
        for _ in range(draw(st.integers(1, 4))):
            fi = draw(st.integers(0, len(prog["flows"]) - 1))
            uses.append([fi, draw(st.integers(0, 8)), draw(st.sampled_from(sorted(USES)))])
    cuts = draw(st.lists(st.integers(1, len(hist) - 1), min_size=1, max_size=3, unique=True))
    case = {"prog": prog, "hist": hist, "uses": uses, "cuts": sorted(cuts), "mode": draw(st.sampled_from(MODES)), "choices": draw(st.lists(st.integers(0, 3), max_size=3))}
    extra = draw(st.sampled_from(["", "", "", "mdict", "mdict", "shared", "shared", "shared", "mdict+shared", "flowref", "flowref", "flowref", "flowref+shared", "nonfinite", "nonfinite", "scope", "scope", "nonfinite+scope"]))
    if "mdict" in extra:
        # a dict variable with keys of mixed kinds, looked up / sent / changed at drawn positions
        case["mdict"] = draw(_mdict())
        for _ in range(draw(st.integers(1, 3))):
            uses.append([draw(st.integers(0, len(prog["flows"]) - 1)), draw(st.integers(0, 8)), draw(st.sampled_from(MIXED_USES))])
    if "shared" in extra:
        # one helper flow activated by two or three flows that end in drawn ways, deactivations at drawn positions
        case["shared"], more = draw(_shared(len(prog["flows"])))
        uses.extend(more)
        if draw(st.booleans()):
            case["mode"] = draw(st.sampled_from(["age", "both", "every-age"]))
    if "flowref" in extra:
        # one or two references to flows that end, kept in a variable and read one or two events (or more) later
        case["flowref"], more = draw(_flowref(len(prog["flows"])))
        uses.extend(more)
        if draw(st.integers(0, 2)) > 0:
            case["mode"] = draw(st.sampled_from(["age", "age", "both", "every-age", "every-age"]))
    if "nonfinite" in extra:
        # a non-finite float (computed or received) kept in a drawn placement across the cuts; events of the history carry the value
        case["nonfinite"], more, case["hist"] = draw(_nonfinite(len(prog["flows"]), hist))
        uses.extend(more)
        case["cuts"] = sorted(draw(st.lists(st.integers(1, len(case["hist"]) - 1), min_size=1, max_size=3, unique=True)))
        if draw(st.integers(0, 2)) > 0:
            case["mode"] = draw(st.sampled_from(["save", "save", "both", "every", "every-age"]))
    if "scope" in extra:
        # an and-group of flows in an open scope (when-case / await / inside a when-branch), members finishing at different times
        case["scope"], more = draw(_scope(len(prog["flows"])))
        uses.extend(more)
        if draw(st.integers(0, 3)) > 0 and "nonfinite" not in extra:
            case["mode"] = draw(st.sampled_from(["age", "age", "both", "every-age", "every-age"]))
        elif "nonfinite" in extra:
            case["mode"] = draw(st.sampled_from(["both", "every-age"]))
    return case


MODES = ["save", "save", "age", "both", "every", "every-age"]


@st.composite
def _lib_case(draw):
    # the shipped library (core, timing, avatars) under a generated main (generator shared with C09) with cuts
    from vf.props import c09

    case = draw(c09._lib_case())
    n = len(case["hist"])
    case["cuts"] = sorted(draw(st.lists(st.integers(1, n - 1), min_size=1, max_size=2, unique=True)))
    case["mode"] = draw(st.sampled_from(MODES))
    case["uses"] = []
    return case


@st.composite
def _rails_case(draw):
    """LLMRails level: a Colang 2.x conversation through generate(state=...) (vf.pipeline configuration as in C01/C02)."""
    from vf import pipeline

    cfg = {"v": 2, "in": draw(pipeline.st_rail_kinds(2, 0, 2, "in")), "out": draw(pipeline.st_rail_kinds(2, 0, 2, "out"))}
    cfg["dialog"] = draw(st.sampled_from([False, True, True, "llmc"]))
    cfg["exc"] = draw(st.sampled_from([False, False, True]))
    cfg["style"] = draw(st.sampled_from(["config", "hand"]))
    routes = pipeline.routes_for(cfg)
    if cfg["dialog"] == "llmc":
        # "known": the LLM's continuation names a bot intent flow that the configuration defines (and that earlier turns may have run)
        routes = tuple(routes) + ("known", "known")
    turns = []
    for t in range(draw(st.integers(2, 4))):
        turns.append(
            {
                "user": draw(pipeline.st_user_text(t)),
                "route": draw(st.sampled_from(routes)),
                "in": [draw(pipeline.st_verdict(k, p_accept=8)) for k in cfg["in"]],
                "out": [draw(pipeline.st_verdict(k, p_accept=6)) for k in cfg["out"]],
                "body": draw(pipeline.st_body()),
            }
        )
    return {"leg": "rails", "config": cfg, "turns": turns, "api": "async", "mode": draw(st.sampled_from(["save", "both", "both", "rewind", "rewind"])), "rewind_to": draw(st.integers(1, 3))}


def strategy(tier):
    return st.one_of(*([_case()] * 8 + [_lib_case()] * 3 + [_rails_case()] + [_rt_case()] * 2))



# ------------------------------------------------------------------------------------------------
# runtime leg: the real RuntimeV2_x.process_events with system actions whose result depends on the state

RT_PROGRAM = r"""
flow helper
  match Go()
  send HelperDone()

flow helper2 $x
  match Go2()
  send Helper2Done(x=$x)

flow watcher
  match Ev0() as $e
  send Watched(v=$e.v)

flow main
  match Begin()
  start helper
  activate watcher
  $n = 0
  while True
    when Query()
      $a = await CheckValidFlowExistsAction(flow_id="helper")
      $b = await CheckValidFlowExistsAction(flow_id="helper2")
      $c = await CheckFlowDefinedAction(flow_id="dyn flow")
      $d = await CheckValidFlowExistsAction(flow_id="dyn flow")
      $m = await CheckForActiveEventMatchAction(event_name="Go")
      $m2 = await CheckForActiveEventMatchAction(event_name="Go2")
      send Answer(a=$a, b=$b, c=$c, d=$d, m=$m, m2=$m2, n=$n)
    or when Restart()
      start helper
    or when Second()
      $n = $n + 1
      start helper2 $n
    or when Add()
      $added = await AddFlowsAction(config="flow dyn flow\n  match DynGo()\n  send DynDone()\n")
      send Added(n=len($added))
    or when RunDyn()
      $ok = await CheckFlowDefinedAction(flow_id="dyn flow")
      if $ok
        send StartFlow(flow_id="dyn flow")
    or when Remove()
      await RemoveFlowsAction(flow_ids=["dyn flow"])
      send Removed()
"""
RT_EVENTS = ["Query", "Go", "Go2", "Restart", "Second", "Add", "RunDyn", "DynGo", "Remove", "Ev0"]
_rt = {}


def _rt_rails(rx=None):
    key = "rails" if rx is None else "rails:" + json.dumps(rx, sort_keys=True)
    if key not in _rt:
        from nemoguardrails import LLMRails, RailsConfig
        from vf import pipeline

        pipeline.loop()
        _rt[key] = LLMRails(RailsConfig.from_content(RT_PROGRAM if rx is None else _rx_program(rx), 'colang_version: "2.x"\nmodels: []'))
        if rx is not None:
            _rt[key].register_action(_rx_pattern_action, "C11PatternAction")
    return _rt[key]


# A compiled regex whose flags are NOT written in the pattern (re.compile(pattern, flags)): Colang's regex("...") cannot produce one, a
# custom action's return value or an event parameter can. [pattern, flag names, text matched only thanks to the flags, text matched with
# and without them, text never matched]. The last two rows are controls (no flag / the flag written inline).
RX_FLAGS = {"I": re.IGNORECASE, "S": re.DOTALL, "M": re.MULTILINE, "X": re.VERBOSE}
RX_TABLE = [
    ["hello", "I", "HELLO there", "say hello", "bye"],
    ["a.b", "S", "a\nb", "a-b", "ab"],
    ["^b$", "M", "a\nb", "b", "ab"],
    ["^x.y$", "IS", "X\nY", "x-y", "xy"],
    ["^k.l$", "MS", "j\nk\nl\nm", "k-l", "kl"],
    ["^end$", "IM", "the\nEND", "end", "ending"],
    ["c d", "X", "cd", "cd", "c d"],
    ["^[q-s]u # tail", "IX", "Qu", "ru", "tu"],
    ["^o.p$", "IMS", "n\nO\nP", "o-p", "op"],
    ["plain", "", "plain", "plain", "PLAIN"],
    ["(?i)inline", "", "INLINE", "inline", "outline"],
]
RX_SRC = ["action", "event"]  # returned by a custom action | parameter of a received event (planted by the harness)
RX_PLACE = {
    # where the pattern is kept: [statements after `$p = ...`, expression that reads it]
    "var": [[], "$p"],
    "list": [["$box = [1, $p]"], "$box[1]"],
    "dict": [['$box = {"k": {"r": $p}}'], '$box["k"]["r"]'],
    "global": [["global $c11rx", "$c11rx = $p"], "$c11rx"],
    "flowarg": [[], "$q"],
    "event-ref": [[], "$e.p"],  # only the reference to the received event is kept (src event)
}
RX_USE = ["match", "search", "match-action"]
RX_EVENTS = ["T0", "T1", "T2", "Other", "Arm"]


def _rx_flags(names):
    f = 0
    for c in names:
        f |= int(RX_FLAGS[c])
    return f


def _rx_pattern_action(pattern, flags):
    return re.compile(pattern, flags)


def _rx_program(rx):
    pat, names = RX_TABLE[rx["pat"]][:2]
    pro, read = RX_PLACE[rx["place"]]
    if rx["use"] == "match":
        loop = [f"match Probe(v={read}) as $m", "send Hit(v=$m.v)"]
    elif rx["use"] == "match-action":
        loop = [f"match UtteranceUserAction.Finished(final_transcript={read}) as $m", "send Hit(v=$m.final_transcript)"]
    else:
        loop = ["match Probe() as $m", f"if search({read}, $m.v)", "  send Hit(v=$m.v)", "else", "  send NoHit(v=$m.v)"]
    get = "$p = $e.p" if rx["src"] == "event" else f"$p = await C11PatternAction(pattern={json.dumps(pat)}, flags={_rx_flags(names)})"
    if rx["place"] == "flowarg":
        return "\n".join(["flow c11rxuser $q", "  while True"] + ["    " + ln for ln in loop] + ["", "flow main", "  match Begin()", "  match Arm() as $e", "  " + get, "  send Armed()", "  await c11rxuser $p", ""])
    return "\n".join(["flow main", "  match Begin()", "  match Arm() as $e", "  " + get] + ["  " + ln for ln in pro] + ["  send Armed()", "  while True"] + ["    " + ln for ln in loop] + [""])


def _rx_event(rx, name):
    row = RX_TABLE[rx["pat"]]
    if name == "Arm":
        return {"type": "Arm", "p": re.compile(row[0], _rx_flags(row[1]))} if rx["src"] == "event" else {"type": "Arm"}
    if name in ("T0", "T1", "T2"):
        text = row[2 + int(name[1])]
        if rx["use"] == "match-action":
            return {"type": "UtteranceUserActionFinished", "final_transcript": text}
        return {"type": "Probe", "v": text}
    return {"type": name}


@st.composite
def _rx(draw):
    rx = {"pat": draw(st.integers(0, len(RX_TABLE) - 1)), "src": draw(st.sampled_from(RX_SRC)), "use": draw(st.sampled_from(RX_USE))}
    rx["place"] = draw(st.sampled_from(sorted(set(RX_PLACE) - ({"event-ref"} if rx["src"] == "action" else set()))))
    return rx


@st.composite
def _rt_case(draw):
    hist = draw(st.lists(st.one_of(st.sampled_from(RT_EVENTS), st.sampled_from(["Query", "Query", "Go"]), st.just("age")), min_size=3, max_size=14))
    cuts = sorted(draw(st.lists(st.integers(1, len(hist) - 1), min_size=1, max_size=2, unique=True)))
    case = {"leg": "runtime", "hist": hist, "cuts": cuts, "mode": draw(st.sampled_from(MODES))}
    nfv = draw(st.sampled_from([None, None, None, "inf", "-inf", "nan"]))
    if nfv:
        # every received event carries a non-finite float parameter: the runtime keeps the received events in the state (last_events),
        # the watcher flow keeps the Ev0 event in a variable and sends its parameter
        case["nfv"] = nfv
    elif draw(st.integers(0, 2)) == 1:
        # a compiled regex with out-of-pattern flags enters a flow variable (action result / event parameter), is kept in a drawn placement
        # and is used after the cut on texts whose match depends on the flags
        case["rx"] = draw(_rx())
        probes = st.sampled_from(["T0", "T0", "T0", "T1", "T2", "Other", "Arm", "age"])
        case["hist"] = draw(st.lists(probes, max_size=2)) + ["Arm"] + draw(st.lists(probes, min_size=2, max_size=8))
        case["cuts"] = sorted(draw(st.lists(st.integers(1, len(case["hist"]) - 1), min_size=1, max_size=3, unique=True)))
        if draw(st.integers(0, 3)) > 0:
            case["mode"] = draw(st.sampled_from(["save", "save", "both", "every", "every-age"]))
    return case


def _rt_run(case, cut, mode):
    from nemoguardrails.colang.v2_x.runtime.serialization import json_to_state, state_to_json
    from vf import pipeline

    smh.install()
    smh.CHOOSER.reset([])
    smh.Clock.virtual = 0.0
    rx = case.get("rx")
    rails = _rt_rails(rx)
    lp = pipeline.loop()
    # AddFlowsAction writes into the flow-config dict that a fresh State shares with the runtime object; every run starts from the
    # configured flows (conversations influencing each other through one instance is C15's subject, not this one's)
    rails.runtime._init_flow_configs()
    state = {}
    every = mode in ("every", "every-age")
    outs = []
    n_dyn = 0
    try:
        for i, name in enumerate(["Begin"] + list(case["hist"])):
            j = i - 1  # index in case["hist"]
            if mode is not None and j >= 0 and (j == cut or (every and j > cut)):
                if mode in ("save", "both", "every", "every-age"):
                    try:
                        state = json_to_state(state_to_json(state))
                    except Exception as e:
                        raise Violation("runtime-roundtrip-raises:" + type(e).__name__, f"cut {cut}: {e!r}"[:300] + f"; history {case['hist']}")
                if mode in ("age", "both", "every-age"):
                    smh.Clock.virtual += 6.0
            if name == "age":
                # idle time that is part of the history itself happens in both runs
                smh.Clock.virtual += 6.0
                continue
            ev = {"type": name}
            if name == "Ev0":
                ev["v"] = i
            if case.get("nfv"):
                ev["v"] = NF_VALUES[case["nfv"]]
            if rx:
                ev = _rx_event(rx, name)
            try:
                out, state = lp.run_until_complete(rails.runtime.process_events([ev], state=state, blocking=True))
            except Exception as e:
                if mode is None:
                    raise
                raise Violation("restored-run-raises:" + type(e).__name__, f"cut {cut} mode {mode}, event #{j} {name}: {e!r}"[:300] + f"; history {case['hist']}")
            if j >= cut:
                outs.append([{k: v for k, v in e.items()} for e in out])
            n_dyn += sum(1 for e in out if e["type"] in ("Added", "DynDone"))
    except BaseException:
        pipeline.reset_runtime()
        _rt.clear()
        raise
    return outs, n_dyn


def _rt_prop(case):
    compared = 0
    dyn = 0
    for cut in case["cuts"]:
        live, n1 = _rt_run(case, cut, None)
        other, _ = _rt_run(case, cut, case["mode"])
        a, b = _novolatile(_canon_steps(live)), _novolatile(_canon_steps(other))
        compared += 1
        dyn = max(dyn, n1)
        if a != b:
            k = next((i for i, (x, y) in enumerate(zip(a, b)) if x != y), min(len(a), len(b)))
            raise Violation(
                "runtime-diverges-" + case["mode"],
                f"cut before event #{cut} ({case['mode']}): live continuation emits {a[k] if k < len(a) else 'nothing more'} where the restored/aged one emits {b[k] if k < len(b) else 'nothing more'}; history {case['hist']} (program: {'vf.props.c11._rx_program(' + json.dumps(case['rx']) + '), pattern row ' + json.dumps(RX_TABLE[case['rx']['pat']]) if case.get('rx') else 'vf.props.c11.RT_PROGRAM'} through RuntimeV2_x.process_events)",
            )
    labels = ["runtime-leg", "mode-" + case["mode"]] + (["dynamic-flows"] if dyn else []) + (["runtime-events-with-non-finite-float", "nonfinite-" + case["nfv"]] if case.get("nfv") else [])
    rx = case.get("rx")
    if rx:
        names = RX_TABLE[rx["pat"]][1]
        labels += ["regex-from-outside", "rx-src-" + rx["src"], "rx-place-" + rx["place"], "rx-use-" + rx["use"], "rx-flags-" + (names or ("inline" if "(?" in RX_TABLE[rx["pat"]][0] else "none"))]
        h = case["hist"]
        arm = h.index("Arm")
        saving = case["mode"] in ("save", "both", "every", "every-age")
        if names and saving and any(arm < c and "T0" in h[c:] for c in case["cuts"]):
            labels.append("cut-with-flagged-regex-held-then-flag-dependent-text")
        return ok(nt="T0" in h[arm:], labels=labels, view={"program": _rx_program(rx), "history": h, "cuts": case["cuts"], "mode": case["mode"]}, counters={"cut_points_compared": compared})
    return ok(nt=len(case["hist"]) >= 4, labels=labels, view={"program": "RT_PROGRAM", "history": case["hist"], "cuts": case["cuts"], "mode": case["mode"]}, counters={"cut_points_compared": compared})


def _rails_run(case, mode, start=0, state=None):
    """mode None: the State object returned by the runtime is handed back live; "save": the JSON state that generate() returns is handed
    back (json_to_state on the next call); "both": additionally 6 s of idle time pass between the turns. With start=r, state=J the
    conversation is continued from turn r with the saved state J of an earlier run (an older snapshot restored on the same instance)."""
    from vf import pipeline

    smh.install()
    smh.CHOOSER.reset([])
    smh.Clock.virtual = 0.0
    pl = pipeline.get_pipeline(case["config"])
    session = pl.new_session(case)
    runtime = pl.rails.runtime
    orig = runtime.process_events
    captured = {}

    async def spy(events, state=None, **kw):
        out, st_ = await orig(events, state=state, **kw)
        captured["state"] = st_
        return out, st_

    runtime.process_events = spy
    obs = []
    if state is not None:
        session.state = state
    try:
        for t in range(start, len(case["turns"])):
            o = pl.turn(session, t)
            obs.append({"reply": o["reply"], "raised": o["raised"], "trace": o["trace"], "llm": [c.get("prompt") if isinstance(c, dict) else c for c in o["llm"]], "saved": session.state if mode is not None else None})
            if mode is None and "state" in captured:
                session.state = captured["state"]
            if mode == "both":
                smh.Clock.virtual += 6.0
    except BaseException:
        pipeline.reset_runtime()
        raise
    finally:
        del runtime.process_events
    return obs


def _rails_prop(case):
    live = _rails_run(case, None)
    if case["mode"] == "rewind":
        # an OLDER snapshot is restored on the same instance: the conversation is served with JSON states, then continued a second
        # time from the state saved after turn r-1; that continuation must again equal the live one
        first = _rails_run(case, "save")
        r = min(case.get("rewind_to", 1), len(case["turns"]) - 1)
        other = first[:r] + _rails_run(case, "save", start=r, state=first[r - 1]["saved"])
    else:
        other = _rails_run(case, case["mode"])
    for o in live + other:
        o.pop("saved", None)
        # the harness's own call counters restart with every session object
        o["trace"] = [{k: v for k, v in e.items() if k not in ("k", "seq")} if isinstance(e, dict) else e for e in o["trace"]]
    a, b = _novolatile(_nouuid(json.loads(json.dumps(live, default=repr)), {})), _novolatile(_nouuid(json.loads(json.dumps(other, default=repr)), {}))
    for t, (x, y) in enumerate(zip(a, b)):
        if x["raised"] and not (y["raised"]):
            return ok(skip="live-turn-raises")  # the live run itself fails: C03/C17 territory, nothing to compare
        for key in ("raised", "reply", "trace", "llm"):
            if x[key] != y[key]:
                raise Violation(
                    "rails-diverge-" + case["mode"] + ":" + key,
                    f"turn {t}: with the State object handed back live {key} = {str(x[key])[:300]}; with the JSON state from generate() ({case['mode']}) {key} = {str(y[key])[:300]}; config {case['config']}; turns {case['turns']}",
                )
    cfg = case["config"]
    nt = len(case["turns"]) >= 2 and bool(cfg["in"] or cfg["out"] or cfg["dialog"])
    return ok(nt=nt, labels=["rails-leg", "mode-" + case["mode"], "dialog-" + str(cfg["dialog"])], view={"config": cfg, "turns": [t["user"] for t in case["turns"]], "replies": [o["reply"] for o in live]}, counters={"cut_points_compared": len(case["turns"]) - 1})


def enumerate_cases(tier):
    # small fixed programs x every cut x every mode: one per rich feature
    base_hist = [["ev", 0, None], ["ev", 1, 1], ["finished", 0], ["ev", 2, 1], ["ev", 0, None], ["ev", 1, None], ["ev", 3, None]]
    yield from _rx_cases()
    yield from _nonfinite_cases()
    yield from _scope_cases()
    for use in sorted(USES):
        prog = {
            "flows": [
                {"name": "h0", "params": [], "loop": None, "body": [{"k": "match", "ev": 1, "v": None}, {"k": "send", "n": 1}]},
                {
                    "name": "main",
                    "params": [],
                    "loop": None,
                    "body": [
                        {"k": "startflow", "f": 0, "arg": None, "ref": 0},
                        {"k": "startact", "a": 0, "ref": 0},
                        {"k": "match", "ev": 0, "v": None},
                        {"k": "send", "n": 0},
                        {"k": "matchflow", "ref": 0},
                        {"k": "matchact", "ref": 0, "what": "Finished"},
                        {"k": "match", "ev": 0, "v": None},
                        {"k": "send", "n": 2},
                        {"k": "raw", "text": "match Never()"},
                    ],
                },
            ]
        }
        for pos in (3, 7):
            for mode in ("save", "age", "both", "every-age"):
                yield {"prog": prog, "hist": base_hist, "uses": [[1, pos, use]], "cuts": list(range(1, len(base_hist))), "mode": mode, "choices": []}
    yield from _flowref_cases()
    yield from _activation_cases()
    yield from _two_activator_cases()
    yield from _mixed_cases()
    yield from _runtime_cases()
    yield from _family_cases()
    # hand-written families shared with C09 (two flows sharing one co-won action, ...): every cut x mode, both tie-break outcomes
    from vf.props import c09

    hist = [["ev", 0, None], ["ev", 1, None], ["ev", 2, None], ["finished", 0], ["ev", 1, None], ["ev", 2, None]]
    hist2 = [["ev", 0, None], ["ev", 2, None], ["ev", 1, None], ["finished", 0], ["ev", 0, None]]
    for name, (text, _items) in c09.FAMILIES.items():
        for h in (hist, hist2):
            for mode in ("age", "both", "save", "every-age"):
                for choices in ([0], [1]):
                    yield {"text": text, "prog": {"flows": []}, "hist": h, "uses": [], "cuts": list(range(1, len(h))), "mode": mode, "choices": choices}


C11_FAMILIES = {
    # a reference to an action travels to another flow (`return $act`); the flow that started the action ends and is cleaned up
    # after idle time while the other flow still waits for the action's Finished event (C11-F26)
    "action-ref-returned": (
        """flow s
  start UtteranceBotAction(script="x") as $act
  return $act

flow main
  $a = await s
  match Ev0()
  match $a.Finished()
  send OutFin()
  match Never()
""",
        [[["ev", 0, None], ["finished", 0], ["ev", 1, None]], [["ev", 1, None], ["ev", 0, None], ["finished", 0]], [["finished", 0], ["ev", 0, None], ["ev", 0, None]]],
    ),
    # an action outlives the flow that started it (stopped, not yet Finished); a flow that never held a reference matches the
    # action's Finished event by the action's start arguments; idle time passes before the Finished event arrives (C11-F38)
    "orphan-action-watched": (
        """flow talker
  start UtteranceBotAction(script="Hello")

flow watcher
  match UtteranceBotAction(script="Hello").Finished()
  send OutSeen()

flow main
  activate watcher
  match Ev0()
  start talker
  match Never()
""",
        [[["ev", 0, None], ["ev", 1, None], ["finished", 0]], [["ev", 0, None], ["finished", 0], ["ev", 1, None]], [["ev", 0, None], ["ev", 1, None], ["ev", 1, None], ["finished", 0], ["ev", 0, None]]],
    ),
    # a dict from a flow variable as action argument (an AttributeDict while live, a plain dict after a restore); the action's
    # Finished event is matched through the same arguments written as a dict literal (C04-F39)
    "dict-arg-action-matched-by-literal": (
        """flow main
  $dd = {"a": 1}
  start XCustomAction(p=$dd) as $axd
  match Ev1()
  match XCustomAction(p={"a": 1}).Finished()
  send OutAD()
  match Never()
""",
        [[["ev", 1, None], ["finished", 0], ["ev", 0, None]], [["ev", 0, None], ["ev", 1, None], ["finished", 0], ["ev", 0, None]], [["finished", 0], ["ev", 1, None], ["ev", 0, None]]],
    ),
    # one list reachable through two variables, changed in place after the cut (C11-F25, open)
    "alias-list": (
        """flow main
  $al = [1]
  $bl = $al
  match Ev1()
  ($al.append(2))
  send OutAliasL(v=$bl)
  match Never()
""",
        [[["ev", 0, None], ["ev", 1, None]]],
    ),
}


def _family_cases():
    for name, (text, hists) in C11_FAMILIES.items():
        for h in hists:
            for mode in ("save", "age", "both", "every-age"):
                yield {"text": text, "family": name, "prog": {"flows": []}, "hist": h, "uses": [], "cuts": list(range(1, len(h))), "mode": mode, "choices": []}


def known(case, violation):
    """C11-F25 (open): a list that two variables refer to comes back as two lists after a state round trip."""
    involved = case.get("family") == "alias-list" or any(u[2] == "alias-list" for u in case.get("uses", []))
    if involved and violation.kind.startswith("behaviour-diverges-") and "OutAliasL" in violation.msg and case.get("mode") in ("save", "both", "every", "every-age"):
        return "C11-F25"
    return None


def _rx_cases():
    # compiled regexes with out-of-pattern flags: every pattern row x {action result, event parameter} with placement and use rotating,
    # every cut x save (partly every-age / both)
    places = sorted(RX_PLACE)
    n = 0
    for pat in range(len(RX_TABLE)):
        for src in RX_SRC:
            for k in range(2):
                place = places[n % len(places)]
                if place == "event-ref" and src == "action":
                    place = "var"
                rx = {"pat": pat, "src": src, "use": RX_USE[(n // 2) % len(RX_USE)], "place": place}
                h = [["Arm", "T0", "T1", "T2", "T0"], ["T0", "Arm", "T2", "Other", "T0", "T1"]][k]
                yield {"leg": "runtime", "rx": rx, "hist": h, "cuts": list(range(1, len(h))), "mode": ["save", "every-age", "save", "both"][n % 4]}
                n += 1


def _runtime_cases():
    # the real runtime with state-dependent system actions: all histories of length 3 over five events x both cuts x {age, save}
    import itertools

    for h in itertools.product(["Go", "Query", "Second", "Go2", "Restart"], repeat=3):
        if "Query" not in h[1:]:
            continue
        for mode in ("age", "save"):
            yield {"leg": "runtime", "hist": list(h), "cuts": [1, 2], "mode": mode}
    # received events with a non-finite float parameter (kept in the state's event history; Ev0's is kept and sent by the watcher flow)
    for nfv in sorted(NF_VALUES):
        for h in (["Ev0", "Query", "Go"], ["Query", "Ev0", "Ev0", "Query"], ["Go", "Second", "Query"]):
            for mode in ("save", "every-age"):
                yield {"leg": "runtime", "hist": h, "cuts": list(range(1, len(h))), "mode": mode, "nfv": nfv}


def _activation_cases():
    # activated flows that end and restart several times, with every cut x mode in between (ageing must not disturb the restart chain)
    h_simple = {"name": "h0", "params": [], "loop": None, "body": [{"k": "match", "ev": 0, "v": None}, {"k": "send", "n": 1}]}
    h_child = {"name": "h0", "params": [], "loop": None, "body": [{"k": "startflow", "f": 1, "arg": None, "ref": 0}, {"k": "match", "ev": 0, "v": None}, {"k": "send", "n": 1}]}
    h_act = {"name": "h0", "params": [], "loop": "L1", "body": [{"k": "match", "ev": 0, "v": None}, {"k": "startact", "a": 0, "ref": 0}, {"k": "match", "ev": 1, "v": None}]}
    h1 = {"name": "h1", "params": [], "loop": None, "body": [{"k": "match", "ev": 1, "v": None}, {"k": "send", "n": 2}]}
    main1 = {"name": "main", "params": [], "loop": None, "body": [{"k": "activate", "f": 0}, {"k": "match", "ev": 3, "v": None}, {"k": "send", "n": 3}, {"k": "raw", "text": "match Never()"}]}
    main2 = {"name": "main", "params": [], "loop": None, "body": [{"k": "activate", "f": 0}, {"k": "activate", "f": 1}, {"k": "raw", "text": "match Never()"}]}
    hist = [["ev", 0, None], ["ev", 1, None], ["ev", 0, None], ["ev", 3, None], ["ev", 0, None], ["ev", 1, None], ["ev", 0, None]]
    for flows in ([h_simple, main1], [h_child, h1, main1], [h_act, main1], [h_simple, h1, main2]):
        for mode in ("age", "both", "save", "every-age"):
            yield {"prog": {"flows": flows}, "hist": hist, "uses": [], "cuts": list(range(1, len(hist))), "mode": mode, "choices": []}


def _two_activator_cases():
    """One helper activated by two flows. The helper's activation count reaches zero while an activator is still running in three ways:
    a third flow deactivates it d times (d = 2: on its own; d = 1: together with the end of one activator), or an activator of kind tidy
    deactivates the helper itself before it ends. Activators end in four ways (last statement / abort / stopped from outside / tidy);
    all orders of the three events x every cut x age (d = 1 also x every-age: a round trip and 6 s idle before every later event). The helper ends itself through its last statement and restarts
    (tail end), keeps running (never), aborts itself (abort) or holds a started action (action)."""
    import itertools

    kinds = ["finish", "abort", "stopped", "tidy"]
    for d in (0, 1, 2):
        pairs = list(itertools.product(kinds, kinds))
        if d == 2:
            pairs = [p for p in pairs if "finish" in p]
        for k0, k1 in pairs:
            tails = ["end"]
            if (k0, k1) in (("finish", "finish"), ("tidy", "finish"), ("finish", "tidy"), ("stopped", "abort")):
                tails = ["end", "never", "abort", "action"]
            for tail in tails:
                sh = {"target": -1, "note": {"ev": 0, "tail": tail, "loop": None}, "acts": [{"ev": 1, "kind": k0}, {"ev": 2, "kind": k1}]}
                starts = _shared_uses(sh, "c11note")
                main = starts["sh-start-0"].split("\n") + starts["sh-start-1"].split("\n")
                if d:
                    main += ["match Ev3()"] + ["deactivate c11note"] * d + ["send OutMuted()"]
                main += ["match Never()"]
                prog = {"flows": _shared_flows(sh, "c11note") + [_raw_flow("main", main)]}
                orders = itertools.permutations([1, 2, 3]) if d else itertools.permutations([1, 2])
                if tail != "end":
                    orders = list(orders)[:: 3 if d else 1]
                for order in orders:
                    o = [["ev", e, None] for e in order]
                    hist = [["ev", 0, None]] + o[:2] + [["ev", 0, None]] + o[2:] + [["ev", 0, None]]
                    for mode in ("age", "every-age") if d == 1 and tail == "end" else ("age",):
                        yield {"prog": prog, "family": f"two-activators/{k0}-{k1}-d{d}-{tail}", "hist": hist, "uses": [], "cuts": list(range(1, len(hist))), "mode": mode, "choices": []}


def _mixed_cases():
    """Dict variables whose keys are of mixed kinds: a string key first and an int / float / bool / None / tuple key later (and the
    controls: non-string key first, string keys only), in every placement (variable, inside list / dict, global, action argument),
    looked up by every key, tested with `in`, sent, changed in place after the cut; every cut x save (the first dict also x every-age)."""
    prog = {
        "flows": [
            {"name": "h0", "params": [], "loop": None, "body": [{"k": "match", "ev": 1, "v": None}, {"k": "send", "n": 1}]},
            {
                "name": "main",
                "params": [],
                "loop": None,
                "body": [
                    {"k": "startflow", "f": 0, "arg": None, "ref": 0},
                    {"k": "match", "ev": 0, "v": None},
                    {"k": "send", "n": 0},
                    {"k": "match", "ev": 1, "v": None},
                    {"k": "match", "ev": 0, "v": None},
                    {"k": "send", "n": 2},
                    {"k": "raw", "text": "match Never()"},
                ],
            },
        ]
    }
    hist = [["ev", 0, None], ["ev", 1, None], ["ev", 2, 1], ["ev", 0, None], ["ev", 1, None]]
    dicts = [["default", 1, 2], ["default", 2.5], ["k", False], ["k", None], ["k", ["t"]], ["k", "default", 7], ["1", 1], [1, "k"], ["k", "default"]]
    places = sorted(MIXED_AT)
    for i, keys in enumerate(dicts):
        for at in places if i == 0 else [places[(i + j) % len(places)] for j in (0, 3, 5)]:
            for deep, uses in ((False, [[1, 4, "mixed-index"], [1, 4, "mixed-in"], [1, 4, "mixed-send"]]), (True, [[1, 5, "mixed-update"], [1, 5, "mixed-deep"]])):
                for mode in ("save", "every-age") if i == 0 else ("save",):
                    yield {"prog": prog, "family": "mixed-dict", "mdict": {"keys": keys, "at": at, "deep": deep}, "hist": hist, "uses": uses, "cuts": list(range(1, len(hist))), "mode": mode, "choices": []}


def build(case):
    if case.get("leg") == "lib":
        from vf.props import c09

        return c09.lib_program(case)
    if "text" in case:
        return case["text"]
    prog = {"flows": [dict(f, body=list(f["body"])) for f in case["prog"]["flows"]]}
    if any(u[2] == "shared-context" for u in case["uses"]):
        prog["flows"].insert(0, dict(CTXHELPER))
        case = dict(case, uses=[[u[0] + 1, u[1], u[2]] for u in case["uses"]])
    if any(u[2] == "failing-child" for u in case["uses"]):
        prog["flows"].insert(0, dict(FAILER))
        case = dict(case, uses=[[u[0] + 1, u[1], u[2]] for u in case["uses"]])
    uses_tab = USES
    mixed_pro = []
    if case.get("mdict") or case.get("shared") or case.get("flowref") or case.get("nonfinite") or case.get("scope"):
        uses_tab = dict(USES)
        if case.get("mdict"):
            mixed_pro, tab = _mixed_tables(case["mdict"])
            uses_tab.update({k: (None, v) for k, v in tab.items()})
        if case.get("shared"):
            sh = case["shared"]
            cands = [f["name"] for f in case["prog"]["flows"][:-1] if not f["params"]]
            target = cands[sh["target"] % len(cands)] if sh["target"] >= 0 and cands else "c11note"
            uses_tab.update({k: (None, v) for k, v in _shared_uses(sh, target).items()})
            extra_flows = _shared_flows(sh, target)
            prog["flows"] = extra_flows + prog["flows"]
            case = dict(case, uses=[[u[0] + len(extra_flows), u[1], u[2]] for u in case["uses"]])
        if case.get("flowref"):
            extra_flows, tab = _fref_tables(case["flowref"])
            uses_tab.update({k: (None, v) for k, v in tab.items()})
            prog["flows"] = extra_flows + prog["flows"]
            case = dict(case, uses=[[u[0] + len(extra_flows), u[1], u[2]] for u in case["uses"]])
        for key, tables in (("nonfinite", _nf_tables), ("scope", _scope_tables)):
            if case.get(key):
                extra_flows, tab = tables(case[key])
                uses_tab.update({k: (None, v) for k, v in tab.items()})
                prog["flows"] = extra_flows + prog["flows"]
                case = dict(case, uses=[[u[0] + len(extra_flows), u[1], u[2]] for u in case["uses"]])
    needed = sorted({uses_tab[u[2]][0] for u in case["uses"]} - {None})
    by_flow = {}
    for fi, pos, use in case["uses"]:
        by_flow.setdefault(fi % len(prog["flows"]), []).append((pos, use))
    for fi, fl in enumerate(prog["flows"]):
        body = fl["body"]
        ins = sorted(by_flow.get(fi, []), key=lambda x: -x[0])
        # never insert after the closing `match Never()` of main or after an exit statement
        limit = len(body) - 1 if fl["name"] == "main" else len(body)
        for i, stmt in enumerate(body[:limit]):
            if stmt["k"] in ("return", "abort"):
                limit = i
                break
        for pos, use in ins:
            p = min(pos, limit)
            for j, line in enumerate(uses_tab[use][1].split("\n")):
                body.insert(p + j, {"k": "raw", "text": line})
        # the mixed-key dict is assigned at the top of the flows that use it
        own = [{"k": "raw", "text": ln} for ln in mixed_pro] if any(u.startswith("mixed-") for _, u in ins) else []
        fl["body"] = [{"k": "raw", "text": RICH_PROLOGUE[v]} for v in needed] + own + body
    return co2.render(prog)


def _session(text, case):
    if case.get("leg") == "lib":
        from vf.props import c09

        return c09.LibSession(text, case["choices"])
    return smh.Session(text, case["choices"])


def _run(text, case, cut, mode):
    s = _session(text, case)
    outs = []
    info = {}
    every = mode in ("every", "every-age")
    for i, item in enumerate(case["hist"]):
        if mode is not None and (i == cut or (every and i > cut)):
            st_ = s.state
            if i == cut:
                info["children_running"] = sum(1 for fs in st_.flow_states.values() if fs.parent_uid and smh.sm().is_active_flow(fs))
                info["done_instances"] = sum(1 for fs in st_.flow_states.values() if fs.status.value in ("finished", "stopped"))
                # an ended, fully deactivated instance that a still running flow (a later activator) lists as its child: the idle
                # clean-up will discard the instance, the list keeps the uid
                info["ended_under_activator"] = sum(
                    1
                    for fs in st_.flow_states.values()
                    if smh.sm().is_active_flow(fs)
                    for uid in fs.child_flow_uids
                    if uid in st_.flow_states and st_.flow_states[uid].activated == 0 and st_.flow_states[uid].parent_uid != fs.uid and st_.flow_states[uid].status.value in ("finished", "stopped")
                )
                # references (variables of running flows, directly or as the flow of a kept flow event) to flow instances that have ended
                info["held_ended_flows"] = sum(1 for fs in st_.flow_states.values() if smh.sm().is_active_flow(fs) for v in fs.context.values() if _ended_flow_ref(v))
                # non-finite floats reachable from the variables of running flows or from the started actions
                info["nonfinite_live"] = sum(1 for fs in st_.flow_states.values() if smh.sm().is_active_flow(fs) for v in fs.context.values() if _nf_inside(v)) + sum(1 for a in st_.actions.values() if _nf_inside(a))
                # open scopes of running flows that list a flow instance which has ended (or has been discarded already)
                info["scope_ended_members"] = sum(
                    1
                    for fs in st_.flow_states.values()
                    if smh.sm().is_active_flow(fs)
                    for flow_uids, _ in fs.scopes.values()
                    for uid in flow_uids
                    if uid not in st_.flow_states or st_.flow_states[uid].status.value in ("finished", "stopped")
                )
                info["ref_vars"] = sum(1 for fs in st_.flow_states.values() if smh.sm().is_active_flow(fs) for v in fs.context.values() if not isinstance(v, (str, int, float, bool, type(None))))
            if mode in ("save", "both", "every", "every-age"):
                from nemoguardrails.colang.v2_x.runtime.serialization import json_to_state, state_to_json

                try:
                    js = state_to_json(st_)
                except Exception as e:
                    raise Violation("state_to_json-raises:" + type(e).__name__, f"cut {cut}: {e!r}"[:300] + "\n" + text)
                try:
                    s.state = json_to_state(js)
                except Exception as e:
                    raise Violation("json_to_state-raises:" + type(e).__name__, f"cut {cut}: {e!r}"[:300] + "\n" + text)
                bad = smh.invariants(s.state)
                if bad:
                    # only what the round trip broke: an invariant that the state violated already before it was saved is C09's subject
                    # (e.g. the uid of a discarded helper instance that stays in the child list of its second activator)
                    pre = {k for k, _ in smh.invariants(st_)}
                    bad = [b for b in bad if b[0] not in pre]
                if bad:
                    raise Violation("restored-" + bad[0][0], f"cut {cut}: {bad[0][1]}\n{text}")
            if mode in ("age", "both", "every-age"):
                smh.Clock.virtual += 6.0
        try:
            out = s.feed(_nf_item(item))
        except Exception as e:
            if mode is None:
                raise  # the live run itself failed: not this property's business (generator problem)
            raise Violation("restored-run-raises:" + type(e).__name__, f"cut {cut} mode {mode}, event #{i} {item}: {e!r}"[:300] + "\n" + text)
        if i >= cut:
            outs.append(out)
    return outs, info


def _ended_flow_ref(v):
    from nemoguardrails.colang.v2_x.runtime.flows import FlowState, InternalEvent

    if isinstance(v, InternalEvent):
        v = v.flow
    return isinstance(v, FlowState) and v.status.value in ("finished", "stopped")


def _fref_output(steps):
    """Some step shows the result of a read through a flow reference (OutFR* events, `fref<i> ...` utterances)."""
    return any(str(e.get("type", "")).startswith("OutFR") or str(e.get("script", "")).startswith("fref") for out in steps for e in out or [])


def _canon_steps(steps):
    flat = []
    for k, out in enumerate(steps):
        for e in out or []:
            d = dict(e)
            d["__step"] = k
            flat.append(d)
    return _nf_canon(smh.canon(_nouuid(flat, {})))


_UUID = re.compile(r"[0-9a-f]{8}-[0-9a-f]{4}-[0-9a-f]{4}-[0-9a-f]{4}-[0-9a-f]{12}")


def _novolatile(x):
    if isinstance(x, list):
        return [_novolatile(i) for i in x]
    if isinstance(x, dict):
        return {k: _novolatile(v) for k, v in x.items() if k not in ("event_created_at", "uid", "source_uid")}
    return x


def _nouuid(x, names):
    """uuids embedded in string values (timer names `wait_timer_<uid>`, flow instance uids) are renamed by first appearance."""
    if isinstance(x, str):
        return _UUID.sub(lambda m: names.setdefault(m.group(0), f"U{len(names)}"), x)
    if isinstance(x, list):
        return [_nouuid(i, names) for i in x]
    if isinstance(x, dict):
        return {k: _nouuid(v, names) for k, v in x.items()}
    return x


def prop(case):
    if case.get("leg") == "rails":
        return _rails_prop(case)
    if case.get("leg") == "runtime":
        return _rt_prop(case)
    text = build(case)
    labels = ["mode-" + case["mode"]] + sorted({"use-" + u[2] for u in case["uses"]}) + (["library"] if case.get("leg") == "lib" else [])
    if case.get("family"):
        labels.append("family-" + case["family"].split("/")[0])
    if case.get("mdict"):
        keys = case["mdict"]["keys"]
        first_str = isinstance(keys[0], str)
        later = sorted({_key_kind(k) for k in keys[1:]} - {"str"})
        labels += ["mixed-dict", "mixed-at-" + case["mdict"]["at"], "mixed-first-" + ("str" if first_str else _key_kind(keys[0]))]
        labels += ["mixed-str-first-then-" + k for k in later] if first_str else []
    if case.get("shared"):
        labels += ["shared-activation", "shared-target-" + ("generated" if case["shared"]["target"] >= 0 else "dedicated")]
        labels += sorted({"shared-activator-" + a["kind"] for a in case["shared"]["acts"]})
    if case.get("flowref"):
        labels.append("flow-reference")
        for u in case["flowref"]["uses"]:
            labels += ["flowref-via-" + u["via"], "flowref-tail-" + u["tail"], "flowref-how-" + u["how"], f"flowref-waits-{len(u['gap'])}"] + ["flowref-read-" + m for m in u["read"]]
        labels = sorted(set(labels), key=labels.index)
    if case.get("nonfinite"):
        nf = case["nonfinite"]
        labels += ["non-finite", "nonfinite-" + nf["val"], "nonfinite-src-" + nf["src"], "nonfinite-at-" + (nf["at"] if nf["src"] == "event" or nf["at"] != "event-ref" else "var"), "nonfinite-how-" + nf["how"]]
    if case.get("scope"):
        sc = case["scope"]
        labels += ["open-scope", "scope-" + sc["shape"], "scope-alt-" + (sc["alt"][0] if sc.get("alt") else "none"), f"scope-members-{len(sc['members'])}"]
    nf_live = scope_ended = False
    ended_under = False
    held_ended = read_after = False
    nt = False
    compared = 0
    live_all = None
    for cut in case["cuts"]:
        if cut >= len(case["hist"]):
            continue
        if live_all is None:
            # the live run does not depend on the cut: one execution serves all cut points (its outputs from the cut on are compared)
            live_all, _ = _run(text, case, 0, None)
        live = live_all[cut:]
        other, info = _run(text, case, cut, case["mode"])
        a, b = _canon_steps(live), _canon_steps(other)
        compared += 1
        if a != b:
            # first differing step
            k = next((i for i, (x, y) in enumerate(zip(a, b)) if x != y), min(len(a), len(b)))
            raise Violation(
                "behaviour-diverges-" + case["mode"],
                f"cut before event #{cut} ({case['mode']}): live continuation emits {a[k] if k < len(a) else 'nothing more'} where the restored/aged one emits {b[k] if k < len(b) else 'nothing more'}; history {case['hist']}\n{text}",
            )
        if case["mode"] in ("save", "both", "every", "every-age") and info.get("children_running", 0) >= 1 and info.get("ref_vars", 0) >= 1:
            nt = True
        if case["mode"] in ("age", "both", "every-age") and info.get("done_instances", 0) >= 1:
            nt = True
        if case["mode"] in ("save", "both", "every", "every-age") and info.get("nonfinite_live", 0) >= 1:
            nt = True
        nf_live = nf_live or info.get("nonfinite_live", 0) >= 1
        scope_ended = scope_ended or info.get("scope_ended_members", 0) >= 1
        ended_under = ended_under or info.get("ended_under_activator", 0) >= 1
        if info.get("held_ended_flows", 0) >= 1:
            held_ended = True
            read_after = read_after or (bool(case.get("flowref")) and _fref_output(other))
    if any(x for x in [case["uses"]]):
        labels.append("rich-vars")
    if ended_under:
        labels.append("cut-with-ended-helper-under-running-activator")
    if nf_live:
        labels.append("cut-with-non-finite-float-in-variable-or-action")
    if scope_ended:
        labels.append("cut-with-ended-flow-in-open-scope")
    if held_ended:
        labels.append("cut-with-reference-to-ended-flow")
    if read_after:
        labels.append("ended-flow-read-through-reference-after-cut")
    return ok(nt=nt, labels=labels, view={"program": text, "history": case["hist"][:10], "cuts": case["cuts"], "mode": case["mode"]}, counters={"cut_points_compared": compared})
