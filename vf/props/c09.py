"""C09 - after each event the interpreter is quiescent and its dispatch index is exact.

Domain : general Colang 2 programs (vf/co2.py: match/send/actions/start/await/activate/groups/if/while/when/
         return/abort/break/continue, 1-4 helper flows + main, loops @loop(L1|NEW)) x histories of <= 30 events
         (alphabet events with parameters, Started/Finished of running actions) x tie-break outcomes; thorough tier adds
         ALL histories of length <= 4 over a 3-event alphabet for a family of generated programs.
Oracle : structural invariants after EVERY run_to_completion (vf/smh.invariants): I1 no pending internal event, I2 every
         listening flow's live heads are parked on match/WaitForHeads/MergeHeads, I3 finished/stopped instances hold no live
         head, I4 event_matching_heads equals the from-scratch scan of all waiting match statements (and the reverse map is
         its inverse), I5 flow_id_states partitions flow_states, I6 referenced actions/children/parents exist.
"""
import itertools

from hypothesis import strategies as st

from vf import co2, smh
from vf.core import Violation, ok

PID = "C09"
LEVEL = "exploration"
CASE_TIMEOUT = 40
RULE = (
    "enumerated: three hand-written program families (two flows sharing one co-won action; one match statement reached with references of different action types; an activated flow whose scope end stops an action) x ALL histories of length <= 4 (quick) / 5 (thorough) over 5-6 items incl. idle time; generated, 3 of 4 cases: program from the co2 grammar (1-4 helper flows h_i that only reference h_j, j>i; every while body starts with a wait; main ends in "
    "`match Never()`) x history of 1-30 items (Ev0..Ev3 with v in {None,0,1}; Started/Finished of the k-th running action) x 0-3 tie-break "
    "choices; 1 of 4 cases: the shipped library (core, timing, avatars) under a generated main that activates 0-5 library flows and loops over 1-4 `when <user flow> / <bot flow>` cases, with histories of user utterances (final/interim/started), Ev0 and Started/Finished of running actions (timers, utterances, gestures, CheckFlowDefinedAction); invariants I1-I6 are evaluated after the start and after every event. Non-trivial = the program forks heads (group/when) AND "
    "some flow instance with children or actions ended during the history AND the history has >= 10 events; distinct by (program, history)."
)
ASSUMPTIONS = [
    "programs whose own statements raise are C10's domain and are not generated here, so any exception out of run_to_completion is reported",
    "histories contain explicit `age` items (6 s of idle time on the harness-owned clock), otherwise the clock is frozen",
]
WALL = {"quick": 170, "thorough": 1500}


def budget(tier):
    return 8000 if tier == "quick" else 100000


LIB_ACTIVATE = [
    "tracking bot talking state",
    "tracking user talking state",
    "notification of colang errors",
    "notification of undefined flow start",
    "notification of unexpected user utterance",
    'handling bot talking interruption $mode="inform"',
    "managing listening posture",
    "managing talking posture",
    "tracking visual choice selection state",
]
LIB_USER = [
    'user said "hi"',
    "user said something",
    'user saying "stop"',
    "user was silent 2.0",
    "user didnt respond 3.0",
    'user gestured "wave"',
    "user said something unexpected",
    'user said "bye" or user said "ciao"',
]
LIB_BOT = [
    'bot say "hello"',
    'bot inform "info"',
    'bot gesture "nod"',
    'bot say "a" and bot gesture "b"',
    'bot ask "how are you"',
    "bot was silent 1.0",
    'start bot say "long text" as $ref\n      match Ev0()\n      send $ref.Stop()',
    "undefined flow name",
]
LIB_TEXTS = ["hi", "bye", "please stop now", "something else", ""]


@st.composite
def _lib_case(draw):
    acts = draw(st.lists(st.integers(0, len(LIB_ACTIVATE) - 1), unique=True, max_size=5))
    cases = draw(st.lists(st.tuples(st.integers(0, len(LIB_USER) - 1), st.integers(0, len(LIB_BOT) - 1)).map(list), min_size=1, max_size=4, unique_by=lambda x: x[0]))
    item = st.one_of(
        st.tuples(st.just("say"), st.integers(0, len(LIB_TEXTS) - 1)),
        st.tuples(st.just("say"), st.integers(0, len(LIB_TEXTS) - 1)),
        st.tuples(st.just("saying"), st.integers(0, len(LIB_TEXTS) - 1)),
        st.tuples(st.just("ustart"), st.just(0)),
        st.tuples(st.just("ev"), st.just(0), st.none()),
        st.tuples(st.just("finished"), st.integers(0, 3)),
        st.tuples(st.just("finished"), st.integers(0, 3)),
        st.tuples(st.just("started"), st.integers(0, 3)),
    ).map(list)
    return {"leg": "lib", "activate": sorted(acts), "cases": cases, "hist": draw(st.lists(item, min_size=3, max_size=25)), "choices": draw(st.lists(st.integers(0, 3), max_size=3))}


def lib_program(case):
    lines = ["flow main"]
    for a in case["activate"]:
        lines.append("  activate " + LIB_ACTIVATE[a])
    lines.append("  while True")
    for i, (u, b) in enumerate(case["cases"]):
        lines.append(("    when " if i == 0 else "    or when ") + LIB_USER[u])
        lines.append("      " + LIB_BOT[b])
    return "\n".join(lines) + "\n"


@st.composite
def _case(draw):
    if draw(st.integers(0, 3)) == 0:
        return draw(_lib_case())
    return {
        "prog": draw(co2.programs(profile={"recursion": True})),
        "hist": draw(co2.histories(30)),
        "choices": draw(st.lists(st.integers(0, 3), max_size=3)),
    }


def strategy(tier):
    return _case()


FAMILIES = {
    # two flows co-win an identical action (shared Action object), then end at different times, with idle time in between
    "shared-action": (
        """flow a
  match Ev0()
  start UtteranceBotAction(script="same") as $x0
  match Ev1()

flow b
  match Ev0()
  start UtteranceBotAction(script="same") as $x0
  match Ev2()
  send OutB()

flow main
  start a
  start b
  match Never()
""",
        [["ev", 0, None], ["ev", 1, None], ["ev", 2, None], ["age"], ["finished", 0], ["started", 0]],
    ),
    # a state round trip while a flow waits inside an open fork (or-group / when), then the group completes
    "fork-roundtrip": (
        """flow f1
  match Ev1()

flow main
  match Ev0() or Ev1()
  send OutA()
  when f1
    send OutB()
  or when Ev2()
    send OutC()
  match Ev0() and Ev2()
  send OutD()
  match Never()
""",
        [["ev", 0, None], ["ev", 1, None], ["ev", 2, None], ["save"]],
    ),
    # the same `match $r.Finished()` statement is reached with references of different action types
    "ref-type-varies": (
        """flow w $p
  if $p == 0
    start UtteranceBotAction(script="a") as $r
  else
    start GestureBotAction(gesture="g") as $r
  match $r.Finished()
  send OutW()

flow main
  start w 0
  match Ev0()
  start w 1
  match Ev0()
  start w 0
  match Never()
""",
        [["ev", 0, None], ["finished", 0], ["finished", 1], ["started", 0], ["age"]],
    ),
    # activated flow restarted through when/else scopes with actions stopped by the scope end
    "scope-stop-restart": (
        """flow r
  when UtteranceBotAction(script="x")
    send OutX()
  or when Ev1()
    send OutY()
  match Ev2()

flow main
  activate r
  match Never()
""",
        [["ev", 1, None], ["ev", 2, None], ["finished", 0], ["started", 0], ["age"]],
    ),
}


def enumerate_cases(tier):
    for name, (text, items) in FAMILIES.items():
        n = 4 if tier == "quick" else 5
        for k in range(1, n + 1):
            for h in itertools.product(items, repeat=k):
                yield {"leg": "text", "family": name, "text": text, "hist": [list(x) for x in h], "choices": []}
    if tier != "thorough":
        return
    # exhaustive histories of length <= 4 over {Ev0, Ev1, Ev2} for programs generated from fixed seeds
    from hypothesis import HealthCheck, given, seed, settings

    progs = []

    @seed(12345)
    @settings(max_examples=60, database=None, deadline=None, suppress_health_check=list(HealthCheck))
    @given(co2.programs(profile={"actions": False}))
    def collect(p):
        progs.append(p)

    collect()
    alphabet = [["ev", 0, None], ["ev", 1, None], ["ev", 2, None]]
    for p in progs[:60]:
        for n in range(1, 5):
            for h in itertools.product(alphabet, repeat=n):
                yield {"prog": p, "hist": [list(x) for x in h], "choices": []}


_lib = {}


def _lib_flows():
    if "flows" not in _lib:
        from nemoguardrails import RailsConfig

        cfg = RailsConfig.from_content(
            colang_content="import core\nimport timing\nimport avatars\n\nflow main\n  match Never()\n",
            yaml_content='colang_version: "2.x"\nmodels: []',
        )
        _lib["flows"] = [f for f in cfg.flows if f.name != "main"]
    import copy

    return copy.deepcopy(_lib["flows"])


class LibSession(smh.Session):
    """Session over the shipped library: user utterance items on top of the generic action life-cycle items."""

    def __init__(self, text, choices):
        smh.install()
        smh.CHOOSER.reset(choices or [])
        smh.Clock.virtual = 0.0
        self.running, self.action_type, self.n_user = [], {}, 0
        self.state = smh.init(text, extra_flows=_lib_flows())
        self._ledger(self.state.outgoing_events)
        self.start_events = [dict(e) for e in self.state.outgoing_events]

    def concrete(self, item):
        k = item[0]
        if k == "say":
            self.n_user += 1
            return {"type": "UtteranceUserActionFinished", "final_transcript": LIB_TEXTS[item[1]], "action_uid": f"user-{self.n_user}", "is_success": True}
        if k == "saying":
            return {"type": "UtteranceUserActionTranscriptUpdated", "interim_transcript": LIB_TEXTS[item[1]], "action_uid": f"user-{self.n_user + 1}"}
        if k == "ustart":
            return {"type": "UtteranceUserActionStarted", "action_uid": f"user-{self.n_user + 1}"}
        if k in ("started", "finished") and not self.running:
            return None
        ev = super().concrete(item)
        if ev and ev["type"] == "UtteranceBotActionFinished":
            ev["final_script"] = "x"
        return ev


def prop(case):
    if case.get("leg") == "lib":
        text = lib_program(case)
        kinds = {"matchg": 1, "awaitg": 0, "when": 1, "activate": len(case["activate"]), "startact": 1, "awaitact": 0, "while": 1}
        from collections import Counter

        kinds = Counter(kinds)
        mk = lambda: LibSession(text, case["choices"])  # noqa: E731
    elif case.get("leg") == "text":
        from collections import Counter

        text = case["text"]
        kinds = Counter({"when": 1, "startact": 1})
        mk = lambda: smh.Session(text, case["choices"])  # noqa: E731
    else:
        text = co2.render(case["prog"])
        kinds = co2.count_kinds(case["prog"])
        mk = lambda: smh.Session(text, case["choices"])  # noqa: E731
    try:
        s = mk()
    except Exception as e:
        raise Violation("exception-at-start:" + type(e).__name__, f"{e!r}"[:300] + "\n" + text)
    bad = smh.invariants(s.state)
    if bad:
        raise Violation(bad[0][0], f"after start: {bad[0][1]}\n{text}")
    ended_with_children = False
    seen_done = set()
    fed = 0
    for i, item in enumerate(case["hist"]):
        try:
            out = s.feed(item)
        except Exception as e:
            raise Violation("exception-escaped:" + type(e).__name__, f"event #{i} {item}: {e!r}"[:300] + "\n" + text)
        if out is None:
            continue
        fed += 1
        bad = smh.invariants(s.state)
        if bad:
            raise Violation(bad[0][0], f"after event #{i} {item} of {case['hist'][: i + 1]}: {bad[0][1]}\n{text}")
        for fs in s.state.flow_states.values():
            if fs.uid not in seen_done and fs.status.value in ("finished", "stopped"):
                seen_done.add(fs.uid)
                if fs.child_flow_uids or fs.action_uids:
                    ended_with_children = True
    forks = kinds["matchg"] + kinds["awaitg"] + kinds["awaitga"] + kinds["when"] > 0
    nt = forks and ended_with_children and fed >= 10
    labels = []
    if forks:
        labels.append("forks")
    if ended_with_children:
        labels.append("flow-ended-with-children")
    if kinds["activate"]:
        labels.append("activate")
    if kinds["startact"] + kinds["awaitact"]:
        labels.append("actions")
    if kinds["while"]:
        labels.append("while")
    if kinds["when"]:
        labels.append("when")
    if case.get("leg") == "text":
        labels.append("family:" + case["family"])
    elif case.get("leg") == "lib":
        labels.append("library")
    elif any(f.get("loop") for f in case["prog"]["flows"]):
        labels.append("loops")
    if case.get("prog") and co2.has_recursion(case["prog"]):
        labels.append("recursive-flow-calls")
    if smh.CHOOSER.used:
        labels.append("tie-break-used")
    labels.append("len>=10" if fed >= 10 else "len<10")
    view = {"program": text, "history": case["hist"][:12], "flows_alive": len(s.state.flow_states)}
    if case.get("leg") == "text":
        nt = fed >= 3
    return ok(nt=nt, labels=labels, view=view, counters={"events_fed": fed})
