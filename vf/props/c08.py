"""C08 - flow calls bind parameters, defaults and return values; locals are private.

Domain : signatures of 0-4 parameters with a generated suffix of defaults; calls with k positional + a named subset
         of the rest, simple (`f 1 $b=2`) and classic (`f(1, b=2)`) syntax, via `$x = await f`, `await f`,
         `start f as $r` + `match $r.Finished()`; values = scalars/None/bools/strings/lists/dicts as literals or passed
         through an event payload; callee echoes its parameters, reassigns parameters and a local that also exists in
         the caller, returns an expression of them; two sibling instances interleaved by events.
Oracle : Python reference binder (positional -> named -> default -> None) + straight-line evaluation of the callee.
"""
from hypothesis import strategies as st

from vf import smh
from vf.core import Violation, ok

PID = "C08"
LEVEL = "exploration"
CASE_TIMEOUT = 30
RULE = (
    "signature: 0-4 params p0..p3, a generated suffix has literal defaults; call: k<=n positional values then a subset of the "
    "remaining params by name; syntax simple|classic; form assign-await|await|start-ref; values drawn from None/bool/int/float/"
    "str (quotes, newlines, $, braces)/list/dict (depth<=2), as literals or via the payload of a received event; callee: send "
    "Echo(all params), (when the flow is called twice) append in place to list parameters that received their default, reassign some params and the local $loc (also set in the caller), return literal | param | list of params "
    "| dict of params; in half of the cases the callee is an @override of a base flow declaring another signature (names from p0..p3,q0,q1, other order/count/defaults, before or after the override); sibling leg: two instances of one flow interleaved by events, each changing its own variables. "
    "Non-trivial = the call mixes >=2 of {positional, named, defaulted} or passes a container/None/bool; distinct by case."
)
ASSUMPTIONS = [
    "never more positional arguments than parameters (surplus rejection is a mechanism, not part of the statement)",
    "global variables are not used (the statement is about non-global variables)",
    "defaults are literals (evaluated without access to caller variables)",
    "literal strings never contain `$`, `{` or `}` (string interpolation is language syntax); such texts are passed through event payloads instead",
    "in simple call syntax a list literal is never a positional argument (`f 0 [1]` parses as a subscript); `$x = await f` is only used with flows that `return` a value",
]
WALL = {"quick": 150, "thorough": 1500}


def budget(tier):
    return 3000 if tier == "quick" else 50000


text_val = st.sampled_from(["a", "", "it's", 'say "hi"', "x y", "$v", "{{ x }}", "line1\nline2", "ünï", "{$a}"])
scalar = st.one_of(st.none(), st.booleans(), st.integers(0, 50), st.sampled_from([0.5, 2.25]), text_val)
value = st.recursive(scalar, lambda ch: st.one_of(st.lists(ch, max_size=3), st.dictionaries(st.sampled_from(["k", "j", "m"]), ch, max_size=2)), max_leaves=5)
# values written as Colang literals: no `$`, `{`, `}` inside strings (string interpolation is language syntax, not binding)
lit_text = st.sampled_from(["a", "", "it's", 'say "hi"', "x y", "line1\nline2", "ünï", "100%"])
lit_scalar = st.one_of(st.none(), st.booleans(), st.integers(0, 50), st.sampled_from([0.5, 2.25]), lit_text)
lit_value = st.recursive(lit_scalar, lambda ch: st.one_of(st.lists(ch, max_size=3), st.dictionaries(st.sampled_from(["k", "j", "m"]), ch, max_size=2)), max_leaves=5)
literal_safe_scalar = st.one_of(st.none(), st.booleans(), st.integers(0, 50), st.sampled_from([0.5, 2.25]), st.sampled_from(["a", "", "x y", "it's"]))


@st.composite
def _case(draw):
    if draw(st.integers(0, 4)) == 0:
        return {
            "leg": "siblings",
            "vals": [draw(lit_value.filter(lambda v: not isinstance(v, list))), draw(lit_value)],
            "order": draw(st.lists(st.integers(0, 1), min_size=2, max_size=6)),
        }
    n = draw(st.integers(0, 4))
    ndef = draw(st.integers(0, n))
    sig = []
    for i in range(n):
        p = {"name": f"p{i}"}
        if i >= n - ndef:
            p["default"] = draw(literal_safe_scalar if draw(st.booleans()) else st.lists(literal_safe_scalar, max_size=2))
        sig.append(p)
    k = draw(st.integers(0, n))
    via_event = draw(st.booleans())
    syntax = draw(st.sampled_from(["simple", "classic"]))
    form = draw(st.sampled_from(["assign", "await", "startref"]))
    argval = value if via_event else lit_value
    # `f 0 [1]` is read as the subscript expression `0[1]`: a list literal is never a positional argument in simple syntax
    posval = argval if via_event or syntax == "classic" else lit_value.filter(lambda v: not isinstance(v, list))
    pos = [draw(posval) for _ in range(k)]
    rest = [p["name"] for p in sig[k:]]
    named_names = draw(st.lists(st.sampled_from(rest), unique=True, max_size=len(rest))) if rest else []
    named = {nm: draw(argval) for nm in named_names}
    assigns = []
    for _ in range(draw(st.integers(0, 2))):
        target = draw(st.sampled_from([p["name"] for p in sig] + ["loc"]))
        assigns.append([target, draw(lit_value)])
    kinds = ["literal", "param", "list", "dict"] if n else ["literal"]
    if form != "assign":
        kinds.append("none")  # `$x = await f` with a flow that has no `return` is outside the statement
    ret_kind = draw(st.sampled_from(kinds))
    ret = {"kind": ret_kind}
    if ret_kind == "literal":
        ret["value"] = draw(lit_value)
    elif ret_kind == "param":
        ret["names"] = [draw(st.sampled_from([p["name"] for p in sig]))]
    elif ret_kind in ("list", "dict"):
        ret["names"] = draw(st.lists(st.sampled_from([p["name"] for p in sig] + ["loc"]), min_size=1, max_size=3))
    return {
        "leg": "call",
        "sig": sig,
        "pos": pos,
        "named": named,
        "syntax": syntax,
        "form": form,
        "via_event": via_event,
        "assigns": assigns,
        "ret": ret,
        "caller_loc": draw(lit_scalar),
        # call the flow twice with the same arguments; the callee mutates IN PLACE the container parameters that received
        # their declared default, so the second instance must still see the pristine declared default
        "repeat": draw(st.booleans()),
        "flow_name": draw(st.sampled_from(["f", "do thing", "handle user request"])),
        # the callee is an `@override` of a base flow that declares another signature (other names, order, count, defaults):
        # the override's own declaration is the one that binds
        "override": draw(st.none() | _base_sig()),
    }


@st.composite
def _base_sig(draw):
    names = draw(st.lists(st.sampled_from(["p0", "p1", "p2", "p3", "q0", "q1"]), unique=True, max_size=4))
    ndef = draw(st.integers(0, len(names)))
    return {
        "sig": [{"name": nm, **({"default": "base-default-" + nm} if i >= len(names) - ndef else {})} for i, nm in enumerate(names)],
        "first": draw(st.booleans()),
    }


def strategy(tier):
    return _case()


def _callee_model(case):
    """Reference binder + straight-line evaluation."""
    env = {}
    for i, p in enumerate(case["sig"]):
        if i < len(case["pos"]):
            env[p["name"]] = case["pos"][i]
        elif p["name"] in case["named"]:
            env[p["name"]] = case["named"][p["name"]]
        elif "default" in p:
            env[p["name"]] = p["default"]
        else:
            env[p["name"]] = None
    echo = dict(env)
    if case.get("repeat"):
        for i, p in enumerate(case["sig"]):
            if i >= len(case["pos"]) and p["name"] not in case["named"] and isinstance(p.get("default"), list):
                env[p["name"]] = list(p["default"]) + [99]
    env["loc"] = "callee-local"
    for target, val in case["assigns"]:
        env[target] = val
    r = case["ret"]
    if r["kind"] == "none":
        ret = None
    elif r["kind"] == "literal":
        ret = r["value"]
    elif r["kind"] == "param":
        ret = env[r["names"][0]]
    elif r["kind"] == "list":
        ret = [env[nm] for nm in r["names"]]
    else:
        ret = {nm: env[nm] for nm in r["names"]}
    return echo, ret


def _program(case):
    lit = smh.lit
    name = case["flow_name"]
    sig = " ".join(f"${p['name']}" + (f"={lit(p['default'])}" if "default" in p else "") for p in case["sig"])
    lines = [f"flow {name} {sig}".rstrip()]
    base = []
    if case.get("override"):
        bsig = " ".join(f"${p['name']}" + (f"={lit(p['default'])}" if "default" in p else "") for p in case["override"]["sig"])
        base = [f"flow {name} {bsig}".rstrip(), "  send BaseRan()", ""]
        lines = (base if case["override"]["first"] else []) + ["@override"] + lines
    def _mutated(i, p):
        return bool(case.get("repeat")) and i >= len(case["pos"]) and p["name"] not in case["named"] and isinstance(p.get("default"), list)

    # a list that is appended to afterwards is echoed as a copy (`$p + []`): the event would otherwise alias the mutated object
    echo_args = ", ".join(f"{p['name']}=${p['name']}" + (" + []" if _mutated(i, p) else "") for i, p in enumerate(case["sig"]))
    lines.append(f"  send Echo({echo_args})")
    if case.get("repeat"):
        for i, p in enumerate(case["sig"]):
            omitted = i >= len(case["pos"]) and p["name"] not in case["named"]
            if omitted and isinstance(p.get("default"), list):
                lines.append(f"  (${p['name']}.append(99))")
    lines.append('  $loc = "callee-local"')
    for target, val in case["assigns"]:
        lines.append(f"  ${target} = {lit(val)}")
    r = case["ret"]
    if r["kind"] == "literal":
        lines.append(f"  return {lit(r['value'])}")
    elif r["kind"] == "param":
        lines.append(f"  return ${r['names'][0]}")
    elif r["kind"] == "list":
        lines.append("  return [" + ", ".join(f"${nm}" for nm in r["names"]) + "]")
    elif r["kind"] == "dict":
        lines.append("  return {" + ", ".join(f'"{nm}": ${nm}' for nm in dict.fromkeys(r["names"])) + "}")
    lines += [""] + (base if case.get("override") and not case["override"]["first"] else [])
    lines += ["flow main", f"  $loc = {lit(case['caller_loc'])}"]
    for p in case["sig"]:
        lines.append(f'  ${p["name"]} = "caller-{p["name"]}"')
    payload = {}
    if case["via_event"]:
        lines.append("  match In() as $e")

    def arg(v, key):
        if case["via_event"]:
            payload[key] = v
            return f"$e.{key}"
        return lit(v)

    pos = [arg(v, f"v{i}") for i, v in enumerate(case["pos"])]
    named = [(nm, arg(v, f"n_{nm}")) for nm, v in case["named"].items()]
    if case["syntax"] == "simple":
        call = " ".join([name] + pos + [f"${nm}={a}" for nm, a in named])
    else:
        call = f"{name}(" + ", ".join(pos + [f"{nm}={a}" for nm, a in named]) + ")"
    if case["form"] == "assign":
        lines.append(f"  $x = await {call}")
    elif case["form"] == "await":
        lines.append(f"  await {call}")
        lines.append("  $x = None")
    else:
        lines.append(f"  start {call} as $r")
        lines.append("  match $r.Finished()")
        lines.append("  $x = None")
    caller_args = ", ".join(f"{p['name']}=${p['name']}" for p in case["sig"])
    lines.append(f"  send Res(x=$x, loc=$loc{', ' if caller_args else ''}{caller_args})")
    if case.get("repeat"):
        lines.append(f"  await {call}")
        lines.append("  send Done2()")
    lines += ["  match Never()", ""]
    return "\n".join(lines), payload


def _strip(e):
    return {k: v for k, v in e.items() if k not in ("type", "uid", "event_created_at", "source_uid")}


def _siblings(case):
    lit = smh.lit
    v = case["vals"]
    text = "\n".join(
        [
            "flow g $id $v",
            "  $loc = $v",
            "  match Step(i=$id)",
            "  send EchoA(id=$id, loc=$loc, v=$v)",
            '  $loc = "changed"',
            '  $v = "changed"',
            "  match Step(i=$id)",
            "  send EchoB(id=$id, loc=$loc, v=$v)",
            "",
            "flow main",
            '  $loc = "main-loc"',
            '  $v = "main-v"',
            f"  start g 0 {lit(v[0])}",
            f"  start g 1 $v={lit(v[1])}",
            "  match Probe()",
            "  send Res(loc=$loc, v=$v)",
            "  match Never()",
            "",
        ]
    )
    state = smh.init(text)
    steps = [0, 0]
    for who in case["order"]:
        out = [e for e in smh.feed(state, smh.ev("Step", i=who)) if e["type"].startswith("Echo")]
        steps[who] += 1
        if steps[who] == 1:
            exp = [("EchoA", {"id": who, "loc": v[who], "v": v[who]})]
        elif steps[who] == 2:
            exp = [("EchoB", {"id": who, "loc": "changed", "v": "changed"})]
        else:
            exp = []
        got = [(e["type"], _strip(e)) for e in out]
        if got != exp:
            raise Violation("sibling-leak", f"values {v}, order {case['order']}: after Step(i={who}) #{steps[who]} got {got}, expected {exp}")
    out = [e for e in smh.feed(state, smh.ev("Probe")) if e["type"] == "Res"]
    if [_strip(e) for e in out] != [{"loc": "main-loc", "v": "main-v"}]:
        raise Violation("caller-variables-changed", f"caller's variables after the siblings ran: {[_strip(e) for e in out]}")
    nt = any(isinstance(x, (list, dict, bool)) or x is None for x in v)
    return ok(nt=nt, labels=["siblings"], view={"leg": "siblings", "vals": v, "order": case["order"]})


def prop(case):
    if case["leg"] == "siblings":
        return _siblings(case)
    text, payload = _program(case)
    echo_exp, ret_exp = _callee_model(case)
    state = smh.init(text)
    events = list(state.outgoing_events)
    if case["via_event"]:
        events = smh.feed(state, smh.ev("In", **payload))
    call_desc = text.split("flow main")[0].split("\n")[0] + " | " + [l.strip() for l in text.split("\n") if "await " in l or "start " in l][0]
    if case["via_event"]:
        call_desc += f" with $e={payload!r}"
    echos = [_strip(e) for e in events if e["type"] == "Echo"]
    if case.get("override"):
        call_desc = "@override of `" + [l for l in text.split("\n") if l.startswith("flow ")][0 if case["override"]["first"] else 1] + "`: " + call_desc.replace("@override | ", [l for l in text.split("\n") if l.startswith("flow ")][1 if case["override"]["first"] else 0] + " | ")
        if any(e["type"] == "BaseRan" for e in events):
            raise Violation("base-flow-ran", f"{call_desc}: the overridden base flow ran")
    if case.get("repeat"):
        if echos != [echo_exp, echo_exp]:
            kind = "default-not-fresh" if echos[:1] == [echo_exp] else "binding"
            raise Violation(kind, f"{call_desc} called twice (the callee appends to defaulted list parameters in place): callee saw {echos}, expected twice {echo_exp}")
    elif echos != [echo_exp]:
        raise Violation("binding", f"{call_desc}: callee saw {echos}, expected [{echo_exp}]")
    res = [_strip(e) for e in events if e["type"] == "Res"]
    caller_exp = {"x": ret_exp if case["form"] == "assign" else None, "loc": case["caller_loc"]}
    for p in case["sig"]:
        caller_exp[p["name"]] = f"caller-{p['name']}"
    if res != [caller_exp]:
        kind = "return-value" if res and {k: v for k, v in res[0].items() if k != "x"} == {k: v for k, v in caller_exp.items() if k != "x"} else "caller-variables-changed"
        raise Violation(kind, f"{call_desc}: caller observed {res}, expected [{caller_exp}]")
    n = len(case["sig"])
    k = len(case["pos"])
    used_default = any(i >= k and p["name"] not in case["named"] and "default" in p for i, p in enumerate(case["sig"]))
    mix = sum([k > 0, bool(case["named"]), used_default])
    vals = list(case["pos"]) + list(case["named"].values())
    nt = mix >= 2 or any(isinstance(x, (list, dict, bool)) or x is None for x in vals)
    labels = [case["syntax"], case["form"], "via-event" if case["via_event"] else "literal", f"params{n}", f"mix{mix}", "ret-" + case["ret"]["kind"]]
    if used_default:
        labels.append("default-used")
    if any(p["name"] not in case["named"] and i >= k and "default" not in p for i, p in enumerate(case["sig"])):
        labels.append("omitted-no-default")
    if case["assigns"]:
        labels.append("callee-assigns")
    if case.get("override"):
        labels.append("override-with-other-signature")
    if case.get("repeat"):
        labels.append("called-twice")
        if any(isinstance(p.get("default"), list) and i >= k and p["name"] not in case["named"] for i, p in enumerate(case["sig"])):
            labels.append("defaulted-list-mutated-in-place")
    return ok(nt=nt, labels=labels, view={"call": call_desc, "echo": echo_exp, "returned": ret_exp})
