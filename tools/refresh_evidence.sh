#!/bin/bash
# Runs every registered quick command once against /repo (seed 1) and reports exit codes; evidence/*.json is rewritten.
cd /verif
for c in $(python3 -c "import json;print(' '.join(x['property_id'] for x in json.load(open('MANIFEST.json'))['checks']))"); do
  out=$(VERIF_SEED=${VERIF_SEED:-1} ./check $c --tier quick 2>&1); ex=$?
  echo "$c exit=$ex $(echo "$out" | grep -E 'tier=' | cut -c1-150)"
  echo "$out" | grep -E "VIOLATION|HARNESS" | cut -c1-200
done
python3-vt - <<'PY'
import json,jsonschema,glob
sch=json.load(open('/root/.vp/EVIDENCE.schema.json'))
for f in sorted(glob.glob('/verif/evidence/*.json')):
    e=json.load(open(f))
    try: jsonschema.validate(e,sch)
    except Exception as ex: print("INVALID",f,str(ex)[:100])
    if e.get('violations'): print("evidence with violations:",f)
print("evidence validated")
PY
