"""C05 - competing flows: exactly one most-specific action wins per interaction loop.

Domain : 2-6 flows, each `match Ev(<subset of the event's 3 parameters>)` (specificity = #unmentioned), optional
         `priority p`, then `start <action>`; action identities drawn so that equal actions occur; loop per flow
         (parent loop / @loop("L1") / @loop("NEW")); flows whose pattern does not fit; a wrapper variant where the
         match sits one level down (`await inner_i`); a chained variant where every flow has its own depth: direct, or
         behind 1-2 helper flows whose Finished event is matched by flow name / awaited (own helper or one helper shared
         by several competitors), each level with its own `priority`; tie-break outcomes drawn (statemachine.random replaced).
Oracle : per loop, winners = flows whose action equals the action of ONE top-scoring flow (score = 0.9^unmentioned
         x priority; exact ties -> any of them, validity predicate); each winning action started exactly once,
         all other fitting flows of the loop are stopped, winners and non-fitting flows still running.
         Chained variant: a winner is asserted only where 'fewest unmentioned parameters along the whole chain' (product)
         and the element-wise comparison of the chains (missing elements = exact match) name the same top set for every
         value the score of a Finished-match can have; otherwise only 'exactly one action set proceeds' is checked and the
         case is counted as skipped.
"""
import json
from collections import Counter

from hypothesis import strategies as st

from vf import smh
from vf.core import Violation, ok

PID = "C05"
LEVEL = "exploration"
CASE_TIMEOUT = 30
RULE = (
    "n in 2..6 flows started by main; flow i: [@loop(L1|NEW)] [priority p in {1.0,0.5,0.1}] match Ev(subset of a=1,b=2,c=3 "
    "[one value wrong => does not fit]) then start UtteranceBotAction(script=A|B|C) or GestureBotAction(gesture=A|B); "
    "direct or wrapped one level down (all flows of a case use the same depth); some flows start their action through a head fork (`when <Action>`), in a quarter of those cases a supervisor flow in its own loop stops one competitor with `send StopFlow` on the same event; in one direct case of three a second round follows: the co-winners "
    "share one action object, its Finished event is fed and they compete again on `match $a.Finished()` (only priorities differ) with second actions; event Ev(a=1,b=2,c=3); tie-break index list "
    "drawn. About a fifth of the generated cases are CHAINED: every flow has its own depth - direct, or its match on Ev sits in a helper flow (own helper h<i>, or "
    "one of 0-2 helpers hs<k> started by main and shared by several competitors) and the flow reaches its action through 1-2 links, each either "
    "`start X` + `match X.Finished()` by flow name or `await X`, each level (helper, middle flow, competitor) with its own priority from {none,1.0,0.5,0.1}; "
    "forced shapes (2 of 7 each): the chain of flow 1 is a proper prefix of the chain of flow 0 (same loop/specificity/priority, fewer links), or flows differ "
    "from flow 0 only in the priority of one link, i.e. in a flow that matches an internal Finished event; (1 of 7) identical chains. An enumerated family (900 cases) "
    "pairs every long form (6 link patterns x own/shared helper x 3 settings of the external match) with each of its proper prefixes and with a copy whose priority "
    "differs in one link, in both start orders, for both tie-break outcomes, with/without a third less specific direct competitor. "
    "Non-trivial = some loop has >=3 fitting flows with >=2 distinct scores, or an exact tie between different "
    "actions, or >=2 loops with fitting flows; chained: a loop with >=2 different actions where the winner is determined and somebody loses or an exact tie "
    "between different actions exists; distinct by case."
)
ASSUMPTIONS = [
    "scores within 1e-9 are treated as tied and any tied flow may win (validity predicate)",
    "in the wrapped variant the priority statement sits in the inner flow that performs the match, so the first element of the score chain is 0.9^u x p",
    "only action starts compete; the event carries exactly the three parameters a, b, c",
    "chained cases: the score chain of a flow is [0.9^u x p of the match on Ev] followed by one element per link = (score of the match on the helper's "
    "Finished event) x (priority of the flow that performs this match); the score of a Finished-match is NOT taken from the implementation: a match by flow "
    "name is an unknown N in (0,1) (the FlowFinished event has parameters besides flow_id that stay unmentioned), the match behind `await` an unknown A in (0,1], "
    "the same N / A for all helper flows (they are parameterless)",
    "chained cases: a winner is asserted only if 'most specific along the whole chain' (product of all elements) and the element-by-element comparison from the "
    "external event on (missing elements count as exact match 1.0; this is what the interpreter implements) yield the same top set for every admissible N, A; "
    "otherwise the case is counted as skipped after checking only that exactly one action set proceeds, losers are stopped and non-fitting flows untouched",
]
WALL = {"quick": 150, "thorough": 1500}
PARAMS = {"a": 1, "b": 2, "c": 3}
ACTIONS = [("UtteranceBotAction", "script", "A"), ("UtteranceBotAction", "script", "B"), ("UtteranceBotAction", "script", "C"), ("GestureBotAction", "gesture", "A"), ("GestureBotAction", "gesture", "B")]


def budget(tier):
    return 6000 if tier == "quick" else 80000


@st.composite
def _flow(draw):
    mentioned = draw(st.lists(st.sampled_from(["a", "b", "c"]), unique=True, max_size=3).map(sorted))
    wrong = None
    if mentioned and draw(st.integers(0, 5)) == 0:
        wrong = draw(st.sampled_from(mentioned))
    return {
        "mentioned": mentioned,
        "wrong": wrong,
        "priority": draw(st.sampled_from([None, None, 1.0, 0.5, 0.1])),
        "action": draw(st.integers(0, len(ACTIONS) - 1)),
        "loop": draw(st.sampled_from([None, None, None, "L1", "L1", "NEW"])),
    }


LINK_PRIOS = [None, None, 1.0, 0.5, 0.1]


def _cp(x):
    return json.loads(json.dumps(x))


@st.composite
def _links(draw, shared):
    n = draw(st.sampled_from([1, 1, 1, 2]))
    links = [{"how": draw(st.sampled_from(["name", "name", "await"])), "priority": draw(st.sampled_from(LINK_PRIOS))} for _ in range(n)]
    if shared:
        links[0]["how"] = "name"  # a shared helper is started by main; its Finished event can only be matched by flow name
    return links


@st.composite
def _chain_case(draw, flows):
    """Every flow has its own depth: `direct` (matches Ev itself), `own` (a helper flow h<i> matches Ev; the flow reaches its
    action through 1-2 links, each a `start X` + `match X.Finished()` by flow name or an `await X`, each level with its own
    priority) or `shared` (same, but the innermost helper hs<k> is started by main and shared by several competitors)."""
    flows = _cp(flows)
    helpers = [
        {"mentioned": h["mentioned"], "wrong": h["wrong"], "priority": h["priority"]} for h in draw(st.lists(_flow(), max_size=2))
    ]
    forms = []
    for _ in flows:
        kind = draw(st.sampled_from(["direct", "direct", "own", "own", "shared"] if helpers else ["direct", "own"]))
        if kind == "direct":
            forms.append({"kind": "direct"})
        elif kind == "own":
            forms.append({"kind": "own", "links": draw(_links(False))})
        else:
            forms.append({"kind": "shared", "helper": draw(st.integers(0, len(helpers) - 1)), "links": draw(_links(True))})
    shape = draw(st.sampled_from(["free", "free", "tie", "prefix", "prefix", "link-priority", "link-priority"]))
    if shape != "free":
        if shape != "tie" and forms[0]["kind"] == "direct":
            forms[0] = {"kind": "own", "links": draw(_links(False))}
        f0 = flows[0]
        same = {"mentioned": f0["mentioned"], "wrong": f0["wrong"], "priority": f0["priority"], "loop": f0["loop"]}
        if shape == "tie":
            # identical chains (exact tie) unless the actions are equal
            flows[1] = dict(flows[1], **same)
            forms[1] = _cp(forms[0])
        elif shape == "prefix":
            # the chain of flow 1 is a proper prefix of the chain of flow 0 (same first elements, flow 0 has more links)
            keep = draw(st.integers(0, len(forms[0]["links"]) - 1))
            flows[1] = dict(flows[1], **same)
            if keep == 0:
                forms[1] = {"kind": "direct"}
                if forms[0]["kind"] == "shared":
                    h = helpers[forms[0]["helper"]]
                    flows[1] = dict(flows[1], mentioned=h["mentioned"], wrong=h["wrong"], priority=h["priority"])
            else:
                forms[1] = dict(_cp(forms[0]), links=_cp(forms[0]["links"][:keep]))
        else:
            # competitors that differ only in the priority declared in a flow that matches an INTERNAL (Finished) event
            for i in range(1, len(flows)):
                if i == 1 or draw(st.booleans()):
                    flows[i] = dict(flows[i], **same)
                    forms[i] = _cp(forms[0])
                    j = draw(st.integers(0, len(forms[i]["links"]) - 1))
                    forms[i]["links"][j]["priority"] = draw(st.sampled_from([None, 0.5, 0.1]))
    return {
        "flows": flows,
        "wrapped": False,
        "stage2": None,
        "forms": forms,
        "helpers": helpers,
        "choices": draw(st.lists(st.integers(0, 5), min_size=1, max_size=4)),
    }


@st.composite
def _case(draw):
    flows = draw(st.lists(_flow(), min_size=2, max_size=6))
    if draw(st.booleans()):
        # force interesting shapes: copy the specificity of flow 0 to flow 1 (tie) with a different action
        flows[1] = dict(flows[1], mentioned=flows[0]["mentioned"], wrong=flows[0]["wrong"], priority=flows[0]["priority"], loop=flows[0]["loop"])
    if draw(st.integers(0, 3)) == 3:
        return draw(_chain_case(flows))
    wrapped = draw(st.integers(0, 3)) == 0
    stage2 = None
    if not wrapped and draw(st.integers(0, 2)) == 0:
        # second round: the co-winners of round 1 share ONE action object; when it finishes they compete again, now on a match
        # that is bound to the shared reference (`match $a.Finished()`), so only the declared priorities tell them apart
        for f in flows:
            f["loop"] = None
        stage2 = [draw(st.integers(0, len(ACTIONS) - 1)) for _ in flows]
    case = {"flows": flows, "wrapped": wrapped, "stage2": stage2, "choices": draw(st.lists(st.integers(0, 5), min_size=1, max_size=4))}
    if not wrapped and stage2 is None:
        # some flows reach their action through a head fork (`when <Action>`): the forked head must keep the score of the match
        case["via_when"] = [draw(st.integers(0, 2)) == 0 for _ in flows]
        # a supervisor (own loop) reacts to the same event by stopping one flow: a flow stopped in the same processing step
        # no longer takes part in the competition
        if draw(st.integers(0, 3)) == 0:
            case["stop"] = draw(st.integers(0, len(flows) - 1))
    return case


def strategy(tier):
    return _case()


def enumerate_cases(tier):
    """Small systematic family of chained cases: every long form (1-2 links, by name / await, own / shared helper) against
    (a) its own proper prefixes and (b) a copy that differs in the priority of one link; both start orders, both tie-break
    outcomes, three (mentioned, priority) settings of the match on the external event, with and without a third, less
    specific direct competitor."""
    hows = [["name"], ["await"], ["name", "name"], ["name", "await"], ["await", "name"], ["await", "await"]]
    bases = [(["a", "b", "c"], None), (["a"], 0.5), ([], None)]
    for mentioned, p in bases:
        for kind in ("own", "shared"):
            for how in hows:
                if kind == "shared" and how[0] != "name":
                    continue
                long_form = {"kind": kind, "links": [{"how": h, "priority": None} for h in how]}
                if kind == "shared":
                    long_form["helper"] = 0
                pairs = []
                for keep in range(len(how)):
                    pairs.append((long_form, {"kind": "direct"} if keep == 0 else dict(_cp(long_form), links=_cp(long_form["links"][:keep]))))
                for j in range(len(how)):
                    for hi, lo in ((None, 0.5), (0.5, 0.1)):
                        a, b = _cp(long_form), _cp(long_form)
                        a["links"][j]["priority"], b["links"][j]["priority"] = hi, lo
                        pairs.append((a, b))
                for fa, fb in pairs:
                    for order in (0, 1):
                        for third in (False, True):
                            if third and not mentioned:
                                continue
                            forms = [fa, fb][:: 1 - 2 * order] + ([{"kind": "direct"}] if third else [])
                            flows = [{"mentioned": mentioned, "wrong": None, "priority": p, "action": i, "loop": None} for i in range(2)]
                            if third:
                                flows.append({"mentioned": [], "wrong": None, "priority": None, "action": 2, "loop": None})
                            for choice in (0, 1):
                                yield {
                                    "flows": flows,
                                    "wrapped": False,
                                    "stage2": None,
                                    "forms": _cp(forms),
                                    "helpers": [{"mentioned": mentioned, "wrong": None, "priority": p}] if kind == "shared" else [],
                                    "choices": [choice],
                                }


def _base(case, i):
    """The flow statement that matches the external event: the flow itself, or the shared helper it hangs on."""
    form = (case.get("forms") or [None] * (i + 1))[i]
    if form and form["kind"] == "shared":
        return case["helpers"][form["helper"]]
    return case["flows"][i]


def _match_ev(f):
    args = ", ".join(f"{k}={PARAMS[k] + (10 if k == f['wrong'] else 0)}" for k in f["mentioned"])
    return ([f"  priority {f['priority']}"] if f["priority"] is not None else []) + [f"  match Ev({args})"]


def _chain_program(case):
    lines = []
    for k, h in enumerate(case["helpers"]):
        lines += [f"flow hs{k}"] + _match_ev(h) + [""]
    for i, (f, form) in enumerate(zip(case["flows"], case["forms"])):
        typ, key, val = ACTIONS[f["action"]]
        deco = [f'@loop("{f["loop"]}")'] if f["loop"] else []
        tail = [f'  start {typ}({key}="{val}")', f"  match Never{i}()", ""]
        if form["kind"] == "direct":
            lines += deco + [f"flow c{i}"] + _match_ev(f) + tail
            continue
        if form["kind"] == "own":
            lines += [f"flow h{i}"] + _match_ev(f) + [""]
            below, started = f"h{i}", False
        else:
            below, started = f"hs{form['helper']}", True
        for j, link in enumerate(form["links"]):
            last = j == len(form["links"]) - 1
            name = f"c{i}" if last else f"m{i}"
            body = [f"  priority {link['priority']}"] if link["priority"] is not None else []
            if link["how"] == "await":
                body += [f"  await {below}"]
            else:
                body += ([] if started else [f"  start {below}"]) + [f"  match {below}.Finished()"]
            lines += (deco if last else []) + [f"flow {name}"] + body + (tail if last else [""])
            below, started = name, False
    lines.append("flow main")
    for k in range(len(case["helpers"])):
        lines.append(f"  start hs{k}")
    for i in range(len(case["flows"])):
        lines.append(f"  start c{i}")
    lines += ["  match Never()", ""]
    return "\n".join(lines)


def _chain(case, i):
    """Score chain of flow i as list of (known factor, #unknown name-match factors, #unknown await-match factors)."""
    b = _base(case, i)
    els = [(score(b), 0, 0)]
    for link in case["forms"][i].get("links", []):
        els.append((link["priority"] or 1.0, 1 if link["how"] == "name" else 0, 1 if link["how"] == "await" else 0))
    return els


def _cmp(x, y):
    """Compare k*N^n*A^a for unknown N in (0,1) (a Finished-match by flow name leaves parameters unmentioned) and unknown
    A in (0,1] (the match behind `await`): '>', '<', '=' or '?' (depends on the unknown values)."""
    (k, n, a), (k2, n2, a2) = x, y
    if (n, a) == (n2, a2):
        return "=" if abs(k - k2) <= 1e-9 else (">" if k > k2 else "<")
    if n <= n2 and a <= a2:
        if k > k2 + 1e-9 or (abs(k - k2) <= 1e-9 and n < n2):
            return ">"
        return "?"
    if n >= n2 and a >= a2:
        if k2 > k + 1e-9 or (abs(k - k2) <= 1e-9 and n2 < n):
            return "<"
        return "?"
    return "?"


def _cmp_product(c1, c2):
    """Reading 1: unmentioned parameters (and priorities) accumulated along the whole chain."""
    tot = lambda c: (_prod([e[0] for e in c]), sum(e[1] for e in c), sum(e[2] for e in c))  # noqa: E731
    return _cmp(tot(c1), tot(c2))


def _cmp_elementwise(c1, c2):
    """Reading 2: element by element from the external event on; a missing element counts as an exact match (1.0)."""
    for j in range(max(len(c1), len(c2))):
        r = _cmp(c1[j] if j < len(c1) else (1.0, 0, 0), c2[j] if j < len(c2) else (1.0, 0, 0))
        if r != "=":
            return r
    return "="


def _prod(xs):
    p = 1.0
    for x in xs:
        p *= x
    return p


def _top(cmp, chains, fit):
    for i in fit:
        rel = {j: cmp(chains[i], chains[j]) for j in fit}
        if all(r in "=>" for r in rel.values()):
            return sorted(j for j in fit if rel[j] == "=")
    return None


def _chain_desc(case, i):
    b = _base(case, i)
    form = case["forms"][i]
    s = ("hs%d:" % form["helper"] if form["kind"] == "shared" else "") + f"{score(b):.4g}"
    for link in form.get("links", []):
        s += f" > {link['how']}*{link['priority'] or 1.0}"
    return s


def program(case):
    if case.get("forms"):
        return _chain_program(case)
    lines = []
    for i, f in enumerate(case["flows"]):
        args = ", ".join(f"{k}={PARAMS[k] + (10 if k == f['wrong'] else 0)}" for k in f["mentioned"])
        typ, key, val = ACTIONS[f["action"]]
        deco = [f'@loop("{f["loop"]}")'] if f["loop"] else []
        prio = [f"  priority {f['priority']}"] if f["priority"] is not None else []
        if case["wrapped"]:
            lines += [f"flow inner{i}"] + prio + [f"  match Ev({args})", ""]
            lines += deco + [f"flow c{i}", f"  await inner{i}", f'  start {typ}({key}="{val}")', f"  match Never{i}()", ""]
        else:
            second = []
            if case.get("stage2"):
                t2, k2, v2 = ACTIONS[case["stage2"][i]]
                second = ["  match $a.Finished()", f'  start {t2}({k2}="{v2}2")']
            if (case.get("via_when") or [False] * len(case["flows"]))[i]:
                lines += deco + [f"flow c{i}"] + prio + [f"  match Ev({args})", f'  when {typ}({key}="{val}")', f"    send ActionDone{i}()", f"  match Never{i}()", ""]
            else:
                lines += deco + [f"flow c{i}"] + prio + [f"  match Ev({args})", f'  start {typ}({key}="{val}") as $a'] + second + [f"  match Never{i}()", ""]
    if case.get("stop") is not None:
        lines += ['@loop("supervision")', "flow supervisor", "  match Ev()", f'  send StopFlow(flow_id="c{case["stop"]}")', "  match NeverSup()", ""]
    lines.append("flow main")
    for i in range(len(case["flows"])):
        lines.append(f"  start c{i}")
    if case.get("stop") is not None:
        lines.append("  start supervisor")
    lines += ["  match Never()", ""]
    return "\n".join(lines)


def score(f):
    if f["wrong"]:
        return 0.0
    s = 1.0
    s *= 0.9 ** (3 - len(f["mentioned"]))
    if f["priority"]:
        s *= f["priority"]
    return s


def prop(case):
    flows = case["flows"]
    text = program(case)
    smh.install()
    smh.CHOOSER.reset(case["choices"])
    state = smh.init(text)
    smh.CHOOSER.reset(case["choices"])
    out = smh.feed(state, smh.ev("Ev", **PARAMS))
    starts = Counter()
    for e in out:
        if e["type"].startswith("Start") and e["type"].endswith("BotAction"):
            typ = e["type"][5:]
            key = "script" if typ == "UtteranceBotAction" else "gesture"
            starts[(typ, e.get(key))] += 1
    status = {}
    for fs in state.flow_states.values():
        if fs.flow_id.startswith("c") and fs.flow_id[1:].isdigit():
            status.setdefault(int(fs.flow_id[1:]), []).append(fs.status.value)
    # loop groups
    groups = {}
    for i, f in enumerate(flows):
        key = f["loop"] if f["loop"] != "NEW" else f"NEW{i}"
        groups.setdefault(key or "main", []).append(i)
    chained = bool(case.get("forms"))
    sc = [score(_base(case, i)) for i in range(len(flows))]  # score of the match on the external event
    chains = [_chain(case, i) for i in range(len(flows))] if chained else None
    if chained:
        desc = "; ".join(
            f"c{i}[loop={f['loop'] or 'main'} chain={_chain_desc(case, i)} action={ACTIONS[f['action']][0][:3]}:{ACTIONS[f['action']][2]}]" for i, f in enumerate(flows)
        ) + " chained (name/await = score of the match on the helper's Finished event, times the priority of the matching flow)"
    else:
        desc = "; ".join(
            f"c{i}[loop={f['loop'] or 'main'} score={score(f):.4g} action={ACTIONS[f['action']][0][:3]}:{ACTIONS[f['action']][2]}]" for i, f in enumerate(flows)
        ) + (" wrapped" if case["wrapped"] else "")
    ambiguous = False
    chain_labels = set()
    observed = {i: (status.get(i) or ["missing"])[-1] for i in range(len(flows))}
    for i in observed:
        if len(status.get(i, [])) != 1:
            raise Violation("instances", f"{desc}: flow c{i} has instances {status.get(i)}")
    expected_starts_options = []  # per group: list of (action, winners)
    nt = False
    fitting_groups = 0
    stopped_by_supervisor = case.get("stop")
    if stopped_by_supervisor is not None:
        desc += f" | supervisor stops c{stopped_by_supervisor} on the same event"
        if observed[stopped_by_supervisor] != "stopped":
            raise Violation("stopflow-ignored", f"{desc}: c{stopped_by_supervisor} is {observed[stopped_by_supervisor]}")
    for g, members in groups.items():
        fit = [i for i in members if sc[i] > 0 and i != stopped_by_supervisor]
        for i in members:
            if i not in fit and i != stopped_by_supervisor and observed[i] != "started":
                raise Violation("nonfitting-touched", f"{desc}: c{i} did not fit the event but is {observed[i]}")
        if not fit:
            continue
        fitting_groups += 1
        if chained:
            top_product = _top(_cmp_product, chains, fit)
            top_elementwise = _top(_cmp_elementwise, chains, fit)
            if top_product is not None and top_product == top_elementwise:
                tied = top_product
            else:
                # the statement does not say who is most specific here: only 'exactly one action set proceeds' is checked
                tied = list(fit)
                ambiguous = True
            if len({len(chains[i]) for i in fit}) >= 2:
                chain_labels.add("chain-mixed-depth")
            if any(len(chains[i]) < len(chains[j]) and _cmp_elementwise(chains[i], chains[j][: len(chains[i])]) == "=" and flows[i]["action"] != flows[j]["action"] for i in fit for j in fit):
                chain_labels.add("chain-prefix-of-longer-competitor")
            if any(
                i < j and len(chains[i]) == len(chains[j]) and _cmp(chains[i][0], chains[j][0]) == "=" and _cmp_elementwise(chains[i], chains[j]) in "<>" and flows[i]["action"] != flows[j]["action"]
                for i in fit
                for j in fit
            ):
                chain_labels.add("differ-only-on-internal-match")
        else:
            top = max(score(flows[i]) for i in fit)
            tied = [i for i in fit if abs(score(flows[i]) - top) <= 1e-9]
        options = []
        for w in tied:
            a = flows[w]["action"]
            winners = sorted(i for i in fit if flows[i]["action"] == a)
            if (a, winners) not in options:
                options.append((a, winners))
        # which option does the observation correspond to?
        running = sorted(i for i in fit if observed[i] == "started")
        match = [o for o in options if o[1] == running]
        if not match:
            raise Violation(
                "wrong-winners",
                f"{desc}: loop {g}: flows still running {['c%d' % i for i in running]}, statuses {observed}; allowed winner sets {[['c%d' % i for i in o[1]] for o in options]}",
            )
        for i in fit:
            if i not in running and observed[i] != "stopped":
                raise Violation("loser-not-stopped", f"{desc}: loop {g}: losing flow c{i} is {observed[i]}")
        expected_starts_options.append(match[0][0])
        if chained:
            if not ambiguous and len({flows[i]["action"] for i in fit}) >= 2 and (len(tied) < len(fit) or len(options) >= 2):
                nt = True
        elif (len(fit) >= 3 and len({round(score(flows[i]), 9) for i in fit}) >= 2) or len(options) >= 2:
            nt = True
    exp = Counter()
    for a in expected_starts_options:
        typ, key, val = ACTIONS[a]
        exp[(typ, val)] += 1
    if exp != starts:
        raise Violation("wrong-actions", f"{desc}: started actions {dict(starts)}, expected {dict(exp)} (each winning action exactly once per loop)")
    if fitting_groups >= 2 and not ambiguous:
        nt = True
    stage2_done = False
    if case.get("stage2") and fitting_groups == 1:
        # round 2: finish the (single, shared) action of round 1
        (g, members), = [(g, m) for g, m in groups.items() if any(score(flows[i]) > 0 for i in m)]
        winners1 = sorted(i for i in members if observed[i] == "started" and score(flows[i]) > 0)
        start_ev = [e for e in out if e["type"].startswith("Start") and e["type"].endswith("BotAction")]
        if len(start_ev) == 1 and winners1:
            e0 = start_ev[0]
            smh.CHOOSER.reset(case["choices"][::-1])
            out2 = smh.feed(state, smh.ev(e0["type"][5:] + "Finished", action_uid=e0["action_uid"], is_success=True))
            prio = lambda i: flows[i]["priority"] if flows[i]["priority"] else 1.0  # noqa: E731
            top = max(prio(i) for i in winners1)
            tied = [i for i in winners1 if abs(prio(i) - top) <= 1e-9]
            options = []
            for w in tied:
                a2 = case["stage2"][w]
                ws = sorted(i for i in winners1 if case["stage2"][i] == a2)
                if (a2, ws) not in options:
                    options.append((a2, ws))
            status2 = {}
            for fs in state.flow_states.values():
                if fs.flow_id.startswith("c") and fs.flow_id[1:].isdigit():
                    status2[int(fs.flow_id[1:])] = fs.status.value
            running2 = sorted(i for i in winners1 if status2.get(i) == "started")
            match2 = [o for o in options if o[1] == running2]
            d2 = desc + " | round 2 on the shared action's Finished event: " + "; ".join(f"c{i}[priority={prio(i)} action2={ACTIONS[case['stage2'][i]][0][:3]}:{ACTIONS[case['stage2'][i]][2]}2]" for i in winners1)
            if not match2:
                raise Violation("wrong-winners-round2", f"{d2}: still running {['c%d' % i for i in running2]}, allowed winner sets {[['c%d' % i for i in o[1]] for o in options]}")
            starts2 = Counter()
            for e in out2:
                if e["type"].startswith("Start") and e["type"].endswith("BotAction"):
                    typ = e["type"][5:]
                    starts2[(typ, e.get("script" if typ == "UtteranceBotAction" else "gesture"))] += 1
            t2, _, v2 = ACTIONS[match2[0][0]]
            if starts2 != Counter({(t2, v2 + "2"): 1}):
                raise Violation("wrong-actions-round2", f"{d2}: started {dict(starts2)}, expected exactly one {t2}:{v2}2")
            stage2_done = True
            if len(winners1) >= 2:
                nt = True
    labels = [f"n{len(flows)}", f"loops{len(groups)}", "chained" if chained else "wrapped" if case["wrapped"] else "direct"]
    if chained:
        labels += sorted(chain_labels)
        links = [link for form in case["forms"] for link in form.get("links", [])]
        labels += [lab for lab, on in [
            ("shared-helper", sum(1 for form in case["forms"] if form["kind"] == "shared") >= 2),
            ("chain-depth3", any(len(form.get("links", [])) == 2 for form in case["forms"])),
            ("link-by-name", any(link["how"] == "name" for link in links)),
            ("link-await", any(link["how"] == "await" for link in links)),
            ("priority-on-internal-match", any(link["priority"] not in (None, 1.0) for link in links)),
            ("chain-winner-ambiguous", ambiguous),
        ] if on]
    if any(_base(case, i)["priority"] not in (None, 1.0) for i in range(len(flows))):
        labels.append("priority")
    if any(_base(case, i)["wrong"] for i in range(len(flows))):
        labels.append("has-nonfitting")
    if smh.CHOOSER.used:
        labels.append("tie-break-used")
    if stage2_done:
        labels.append("round2-on-shared-reference")
    if any(case.get("via_when") or []):
        labels.append("action-behind-head-fork")
    if case.get("stop") is not None:
        labels.append("competitor-stopped-in-same-step")
    if any(len([1 for o in [flows[i]["action"] for i in m]]) != len({flows[i]["action"] for i in m}) for m in groups.values()):
        labels.append("equal-actions")
    view = {"flows": desc, "started": {f"{k[0]}:{k[1]}": v for k, v in starts.items()}, "status": {f"c{i}": s for i, s in observed.items()}}
    if ambiguous:
        return ok(nt=False, labels=labels, view=view, skip="chained: the two readings of 'most specific' disagree or depend on the score of a Finished-match")
    return ok(nt=nt, labels=labels, view=view)
