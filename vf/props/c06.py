"""C06 - flow and action lifetimes are bounded by the parent flow.

Domain : generated Colang 2 programs (vf/co2.py: start/await/activate of flows and actions, when/or when, and/or groups of
         awaits, abort, return, loops) x histories mixing alphabet events (incl. co-simulated 'hit' events) with Started /
         Finished of running actions arriving late, early or never x tie-break outcomes; optionally 2-3 'sharer' flows that
         co-win one identical action on a common event and end at different times (shared Action object) - the sharers may
         also be two heads of ONE flow ('twin' statements: await-groups / when-cases listing the identical action in two
         or-branches), ended from outside while the flow waits in its group; enumerated families: no-wait activated flows,
         same-event races, restart races, shared actions, twin heads, activations with arguments;
         optionally a parametrised flow activated 2-4 times with drawn argument spellings (several configurations of one flow,
         several activators of one configuration) by main and by wrapper flows that end at different times.
Oracle : history invariants checked after every processed event, from the outgoing events and a read-only look at State:
         (a) no Stop for an action that was never started, already stopped or already finished;
         (b) when a flow instance leaves the running set, every unfinished action it started that no still-running flow
             shares has received exactly one Stop by the end of that processing step;
         (c) no running non-activated flow has a non-running parent; every running activated flow has a running flow that
             contains an `activate` statement for its configuration (flow + parameter values: omitted parameter = its default,
             None without one; positional = named);
         (d) while the flow that first activated configuration X (the parent of X's restart chain) is running, some instance
             of X with these parameter values is listening after every step; the same for every running flow whose FIRST
             statement is `activate X ...` (a running instance has executed it);
         (e) is (c) applied to activated flows: after the last activator of a configuration ended no instance of it is running.
"""
from hypothesis import strategies as st

from vf import co2, smh
from vf.core import Violation, jdump, ok

PID = "C06"
LEVEL = "exploration"
CASE_TIMEOUT = 40
RULE = (
    "enumerated: activated flows without any waiting statement (must run exactly once; 16 programs); a same-event race family (flow p queues start/activate/await of b, an action or a send while its parent q finishes/aborts/returns on the same "
    "event; both advancing orders; b pre-activated or not; p and q started or activated; 640 programs x 2 histories incl. idle time) and a restart-race family (an activated flow already restarted 0-2 times ends on the very event that ends its last activator; 36 programs) and a shared-action family (flows a, b and optionally c reach the identical action - start as $ref / anonymous start / await, "
    "in 5 pairings - on the same event in the same loop, so one Action object is shared; a more specific, b more specific, or equal scores with both tie-break outcomes; a started, started-and-aborting or activated; "
    "b and c ending in one step; every order of {a ends, b ends, Started, Finished} with and without idle time, then the common event again; 80 programs x 64 histories in the quick tier, 120 x 88 in the thorough tier) and a "
    "twin-head family (ONE flow p reaches the identical action through two of its own heads in the same processing cycle, so p alone holds two references to one shared Action: 10 forms - `await A and (m1 or m2)` (normalised to (A and m1) or (A and m2)), "
    "`await (A and m1) or (A and m2)`, `await A or A`, `await (A and m1) or A`, `await A or A or B`, `await A and (m1 or m2 or B)`, `when A and m1 / or when A and m2`, `when A / or when A`, `when A and m1 / or when A`, `when A and Em1() / or when A and Em2()`; "
    "p is ended from outside while it waits in its group in 5 ways - its parent q finishes, q aborts, q had activated p, a when-scope of q that started p is left, q itself activated by main; with no rival or with a rival flow b that reaches the same action on the same event "
    "by `start ... as` / `await` (three references, two in one flow; equal scores with each tie-break outcome, or p / b more specific); every order of {q ends, member flow m1 finishes, Started, Finished} with the rival's end inserted at three positions "
    "(quick tier: one position per order), with and without idle time before the last item, then the common event and the ending events again; 5400 cases in the quick tier, 40800 in the thorough tier) and an "
    "activation-argument family (flow b with one parameter without default / one with default / two parameters; flows a and c whose first statement is `activate b <arguments>`, over every ordered pair of spellings from "
    "{omitted, positional, named, the default spelled out, None, another value; for two parameters also partly omitted / mixed}: different configurations, or one configuration with two activators; c started together with a, or later "
    "when b may already have been restarted, or a executes both activations and c holds the second one too, or a third activator d with a's arguments arrives after a has ended and stayed idle for more than 5 s (ended flows are then dropped "
    "from the state) and ends before or after c; a started or activated; b reacting with a send or an action (two configurations then conflict), or b activating a parameterless flow h of its own as its first statement (every configuration "
    "of b is an activator of the one h, which is deactivated and activated anew whenever the instances of b end and restart); four histories (two for the third-activator shape) ending the activators "
    "in either order with b reacting, restarting and idle time in between; 2576 cases in the quick tier, 6992 in the thorough tier); generated: "
    "program from the co2 grammar (hierarchies up to depth 4 through start/await/activate, when/or when, await groups, abort/return, "
    "actions with references); history of 1-30 items (events, guided 'hit' events, Started/Finished of the k-th running action - so "
    "Finished may arrive before the flow waits for it, late, or never); tie-break choices drawn; in about a third of the cases 2-3 extra 'sharer' flows are added to the program: each has its own drawn prefix, then the same "
    "`match Ev<e>` (with or without a parameter, i.e. equal or different matching scores) followed by the identical action (start as $ref / await), then a tail drawn from the same grammar (may call every helper, abort, return, wait for "
    "the shared reference or end at once); they are started or activated by main (at the top or at a drawn position) or by a wrapper flow that ends at some point, all in one loop - so one event makes them co-win one shared action and the "
    "history decides in which order the sharers end relative to its Started / Finished (labels sharer-flows-added, shared-action-observed, sharer-ended-while-shared, finished-after-a-sharer-ended, last-sharer-ended-after-finished / -unfinished); "
    "in a third of the sharer cases the sharers are (also) heads of ONE flow: 1-3 sharer flows of which the first (and every further one with probability 1/3) reaches the action through a twin statement drawn from the 10 forms above, over member flows drawn from "
    "the parameterless helpers of the program and two small member flows added for the purpose (one event, then nothing / a send / abort - a failing member fails and-branches), when-case bodies drawn from the grammar; the twin statement follows the common `match` "
    "or (started flows, 1 in 4) is the flow's first statement; these sharers mostly (2 in 3) sit below the wrapper flow, whose drawn tail ends them from outside while they wait in their group - or the group completes first, or the action finishes first "
    "(labels twin-statements-added, twin-form-*, one-flow-holds-action-twice, twin-flow-ended-action-unfinished, twin-flow-ended-action-still-shared-with-other-flow, twin-flow-ended-after-action-finished); "
    "independently, in about a third of the cases a parametrised target flow (parameter without default, with default 0 / 1, or two parameters; body drawn from the grammar, may test its parameters) is added together with 2-4 "
    "`activate target <arguments>` statements whose arguments are drawn per parameter (omitted / positional / named, values 0, 1, None): each statement sits in main at a drawn position or is the first statement of a wrapper flow of its own "
    "with a drawn tail, started or activated by main - so one flow runs in several configurations, or one configuration has several activators, which end at different times (labels arg-activations-added, "
    "flow-activated-in-several-configurations, configuration-with-several-activators, several-configurations-of-one-flow-running, activator-ended-while-other-configuration-lives, several-running-instances-of-one-configuration). Non-trivial = during the history a flow "
    "instance that had a running child flow or an unfinished action left the running set; distinct by (program, history)."
)
ASSUMPTIONS = [
    "activators of X are approximated statically: a running flow whose body contains `activate X` with arguments that name the same configuration (reference counts are not observable); only for flows whose first statement is the activation a running instance is known to have executed it",
    "flow configuration = flow + parameter values after binding (positional = named; omitted = the declared default, None without one), per docs/colang_2 'Activate a Flow' ('a specific flow configuration (with identical flow parameters) can only be activated once'); arguments are literals; how MANY instances serve one configuration is not asserted (label several-running-instances-of-one-configuration), only that one is listening while an activator runs and none runs afterwards",
    "all activations of one configuration within a case use the same number of positional arguments (later ones are re-spelled; such pairs are left out of the enumerated family): activating an already activated configuration with a positional argument its first activation did not spell positionally leaves the activator waiting forever at its activate statement on the unchanged tree (reported; no lifetime is broken, not part of the statement) - named vs omitted-default and all spellings across DIFFERENT configurations stay in",
    "every generated helper flow starts with a waiting statement; the 'finishes without ever waiting' exception is covered by the enumerated nowait family only",
    "actions are identified by the action_uid of their Start event; Finished events are only ever sent for started actions",
    "a history is cut (label history-cut-at-150-flow-instances, everything up to the cut is checked) once more than 150 flow instances exist (ordinary cases stay below 50; the cost per event grows quadratically): recursive programs in which every instance starts several new ones grow exponentially and would only run into the case timeout",
    "an action is 'shared with a still-running flow' when its uid is in the action list of a running flow (read-only look at FlowState.action_uids); which of the sharers the interpreter regards as the owner is not used by the oracle - both tie-break outcomes and both orders of ending are generated instead",
    "a flow whose two heads co-won one action counts as ONE holder of it (however often the interpreter lists the uid): when that flow ends and no OTHER running flow lists the action, exactly one Stop is due; the duplicate entry is only read for labels (one-flow-holds-action-twice, twin-*)",
    "twin statements are await-groups and when-cases only: a `start` group that reaches one action through two or-branches (`start A and (m1 or m2)`, `start (A as $r and m1) or (A as $r and m2)`) is left out - on the unchanged tree the action whose Start event was sent is dropped from State.actions and every later event raises KeyError out of run_to_completion (reported as an observation; the statement says nothing about exceptions and the crash hides the lifetimes)",
]
WALL = {"quick": 170, "thorough": 1500}
MAX_FLOW_INSTANCES = 150  # ordinary cases stay below 50; only self-multiplying recursive programs get here


def budget(tier):
    return 16000 if tier == "quick" else 200000


PROFILE = {"recursion": True, "boost": ["startact", "startact", "awaitact", "startflow", "startflow", "awaitflow", "activate", "return", "abort"]}
SHARE_REF = 90  # reference number of the common action / of the sharer flows (the grammar counts its own from 0)


# 'Twin' statements: ONE flow reaches the identical action through TWO of its own heads in the same processing cycle (an
# await-group whose normal form lists the action in two or-branches, or two cases of one when-block), so the flow itself holds
# two references to one shared Action. {A} = the action, {B} = another action, {f} / {g} = member flows, {e} / {d} = events;
# the lines after the first one of a when-form are the `or when` cases (bodies are filled in by the caller).
TWIN_FORMS = {
    "and-or": ["await {A} and ({f} or {g})"],  # normalised to (A and f) or (A and g)
    "or-and": ["await ({A} and {f}) or ({A} and {g})"],
    "or-same": ["await {A} or {A}"],
    "or-and-bare": ["await ({A} and {f}) or {A}"],
    "or-same-3": ["await {A} or {A} or {B}"],
    "and-or-3": ["await {A} and ({f} or {g} or {B})"],
    "when-and": ["when {A} and {f}", "or when {A} and {g}"],
    "when-same": ["when {A}", "or when {A}"],
    "when-mixed": ["when {A} and {f}", "or when {A}"],
    "when-event": ["when {A} and {e}", "or when {A} and {d}"],
}


def _twin_lines(form, subst, bodies):
    """Lines (relative to the indentation of the statement) of a twin statement; bodies = one list of lines per when-case."""
    out = []
    for i, line in enumerate(TWIN_FORMS[form]):
        for key, val in subst.items():
            line = line.replace("{" + key + "}", val)
        out.append(line)
        if form.startswith("when"):
            out += ["  " + b for b in bodies[i]]
    return out


@st.composite
def _twin_stmt(draw, ctx, helper_params, act, members):
    """A twin statement over the action `act` for a generated flow (rendered as one raw statement at flow-body level; the
    bodies of when-cases are drawn from the grammar and kept under "cases" for the walkers over the program)."""
    form = draw(st.sampled_from(sorted(TWIN_FORMS)))
    f, g = draw(st.lists(st.sampled_from(members), min_size=2, max_size=2, unique=True))
    e, d = draw(st.lists(st.integers(0, co2.EVENTS - 1), min_size=2, max_size=2, unique=True))
    other = draw(st.sampled_from([a for a in range(len(co2.ACTIONS)) if a != act]))
    text = lambda a: f"{co2.ACTIONS[a][0]}({co2.ACTIONS[a][1]})"  # noqa: E731
    subst = {"A": text(act), "B": text(other), "f": f"h{f}", "g": f"h{g}", "e": f"Ev{e}()", "d": f"Ev{d}()"}
    cases, bodies = [], []
    if form.startswith("when"):
        for _ in TWIN_FORMS[form]:
            stmts = draw(co2._stmts(ctx, 0, helper_params, 1, 2))
            lines = []
            co2._body(stmts, 0, lines)
            cases.append({"body": stmts})
            bodies.append(lines)
    lines = _twin_lines(form, subst, bodies)
    return {"k": "raw", "text": "\n  ".join(lines), "twin": form, "cases": cases}


@st.composite
def _with_sharers(draw, prog):
    """Adds 2-3 'sharer' flows to a generated program: each reaches, after its own drawn prefix, the same `match Ev<e>` followed by
    the identical action (start ... as $ref / await ...), so that one event makes them co-win ONE shared action; what follows
    (drawn from the same grammar, may call every helper of the program, abort, return, finish at once) decides when each of them
    ends. They are started / activated by main or by a wrapper flow that ends itself at some point (all sharers end in one step).
    In a third of these cases the sharers are (also) heads of ONE flow: 1-3 sharer flows of which the first (and each further one
    with probability 1/3) reaches the action through a 'twin' statement (TWIN_FORMS: await-groups / when-cases that list the
    identical action in two or-branches, over member flows of the program or two small member flows added for the purpose)."""
    flows = prog["flows"]
    main = flows[-1]
    nh = len(flows) - 1
    helper_params = [bool(f["params"]) for f in flows[:-1]]
    prof = dict(co2.DEFAULT_PROFILE)
    prof.update(PROFILE)
    k = draw(st.sampled_from([2, 2, 3]))
    twin_mode = draw(st.integers(0, 2)) == 0
    if twin_mode:
        k = draw(st.sampled_from([1, 1, 2, 3]))
    ev = draw(st.integers(0, co2.EVENTS - 1))
    act = draw(st.integers(0, len(co2.ACTIONS) - 1))
    loop = draw(st.sampled_from([None, None, None, "L1"]))
    # a flow that holds the action twice has to be ended from outside while it waits in its group: mostly below a wrapper
    host = draw(st.sampled_from(["main", "wrapper", "wrapper"] if twin_mode else ["main", "main", "wrapper"]))
    how = [draw(st.sampled_from(["startflow", "startflow", "startflow", "activate"])) for _ in range(k)]
    inits = [{"k": "assign", "var": v, "expr": 0} for v in co2.VARS]
    new = []
    twins = []
    # member flows of the twin groups: the parameterless helpers of the program and two small flows added below
    first_member = nh + k + (1 if host == "wrapper" else 0)
    members = [j for j in range(nh) if not helper_params[j]] + [first_member, first_member + 1]
    for i in range(k):
        ctx = co2.Ctx(-1, nh, [], prof)
        pre = draw(st.sampled_from([[], [], [], [{"k": "send", "n": 7}], [{"k": "match", "ev": (ev + 1) % co2.EVENTS, "v": None}]]))
        pre = pre + [{"k": "match", "ev": ev, "v": draw(st.sampled_from([None, None, 1]))}]
        if twin_mode and (i == 0 or draw(st.integers(0, 2)) == 0):
            common = draw(_twin_stmt(ctx, helper_params, act, members))
            twins.append(f"h{nh + i}")
            if how[i] == "startflow" and draw(st.integers(0, 3)) == 0:
                pre = []  # the twin statement is the first (waiting) statement of the flow
        elif draw(st.integers(0, 2)) == 0:
            common = {"k": "awaitact", "a": act}
        else:
            common = {"k": "startact", "a": act, "ref": SHARE_REF}
            ctx.vis_a = [SHARE_REF]
        tail = draw(co2._stmts(ctx, 1, helper_params, 0, 3, need_wait_first=draw(st.sampled_from([True, True, False]))))
        new.append({"name": f"h{nh + i}", "params": [], "loop": loop, "body": inits + pre + [common] + tail})
    calls = [{"k": "activate", "f": nh + i} if how[i] == "activate" else {"k": "startflow", "f": nh + i, "arg": None, "ref": SHARE_REF + i} for i in range(k)]
    if host == "wrapper":
        ctx = co2.Ctx(-1, nh, [], prof)
        tail = draw(co2._stmts(ctx, 1, helper_params, 0, 2, need_wait_first=True))
        new.append({"name": f"h{nh + k}", "params": [], "loop": None, "body": inits + calls + tail})
        calls = [{"k": draw(st.sampled_from(["startflow", "startflow", "activate"])), "f": nh + k, "arg": None, "ref": SHARE_REF + k}]
    if twin_mode:
        for j in (0, 1):
            wait = {"k": "match", "ev": draw(st.integers(0, co2.EVENTS - 1)), "v": draw(st.sampled_from([None, None, 0, 1]))}
            tail = draw(st.sampled_from([[], [], [{"k": "send", "n": 8}], [{"k": "abort"}]]))
            new.append({"name": f"h{first_member + j}", "params": [], "loop": loop, "body": inits + [wait] + tail})
    at = draw(st.sampled_from([len(co2.VARS), len(co2.VARS), None]))
    if at is None:
        at = draw(st.integers(len(co2.VARS), len(main["body"]) - 1))
    body = main["body"][:at] + calls + main["body"][at:]
    info = {"n": k, "host": host, "activated": how.count("activate")}
    if twins:
        info["twins"] = twins
    return {"flows": flows[:-1] + new + [dict(main, body=body)]}, info


# Activations with arguments. A flow configuration = flow + values of its parameters (docs, "Activate a Flow": "a specific flow
# configuration (with identical flow parameters) can only be activated once"); different values are different activations with
# activators of their own. Parameters are [name, has_default, default]; an activation spells its arguments as a list of
# ["pos", value] | ["named", name, value]; omitted parameters take their default (None without one).
ARG_SIGNATURES = {
    "nodefault": [["p", False, None]],
    "default0": [["p", True, 0]],
    "default1": [["p", True, 1]],
    "two": [["p", False, None], ["q", True, 0]],
}


def _resolve(params, spelled):
    """Reference model of the configuration an `activate X <arguments>` statement names."""
    cfg = {p[0]: (p[2] if p[1] else None) for p in params}
    i = 0
    for item in spelled:
        if item[0] == "pos":
            cfg[params[i][0]] = item[1]
            i += 1
        else:
            cfg[item[1]] = item[2]
    return cfg


def _spell(spelled):
    return "".join(" " + smh.lit(a[1]) if a[0] == "pos" else f" ${a[1]}={smh.lit(a[2])}" for a in spelled)


def _param_text(params):
    return "".join(f" ${n}={smh.lit(d)}" if has else f" ${n}" for n, has, d in params)


@st.composite
def _spelling(draw, params):
    """Arguments of one activation: every parameter omitted / positional / named (positional ones first, as the grammar wants)."""
    val = st.sampled_from([0, 0, 1, 1, 1, None])
    out = []
    positional = True
    for name, _has, _d in params:
        how = draw(st.sampled_from(["omit", "pos", "pos", "named"]))
        if how == "pos" and positional:
            out.append(["pos", draw(val)])
        else:
            positional = False
            if how != "omit":
                out.append(["named", name, draw(val)])
    return out


def _positionals(spelled):
    return sum(1 for a in spelled if a[0] == "pos")


def _respell(params, spelled, k):
    """The same configuration with exactly the first k parameters spelled positionally (values filled in from the resolved
    configuration), the others as drawn (a positional one becomes a named one)."""
    cfg = _resolve(params, spelled)
    out = [["pos", cfg[params[i][0]]] for i in range(k)]
    names = [p[0] for p in params]
    i = 0
    for item in spelled:
        if item[0] == "pos":
            name, value = names[i], item[1]
            i += 1
        else:
            name, value = item[1], item[2]
        if names.index(name) >= k:
            out.append(["named", name, value])
    return out


@st.composite
def _with_arg_activations(draw, prog):
    """Adds a parametrised target flow (parameter with / without default, or two parameters) and 2-4 `activate target <arguments>`
    statements with drawn argument spellings: each sits in main (at a drawn position) or at the top of a wrapper flow of its own
    whose drawn tail decides when that activator ends; wrappers are started or activated by main. So one flow is activated in
    several configurations (or one configuration by several activators, spelled alike or differently) whose activators end at
    different times."""
    flows = prog["flows"]
    main = flows[-1]
    nh = len(flows) - 1
    helper_params = [bool(f["params"]) for f in flows[:-1]]
    prof = dict(co2.DEFAULT_PROFILE)
    prof.update(PROFILE)
    inits = [{"k": "assign", "var": v, "expr": 0} for v in co2.VARS]
    sig = draw(st.sampled_from(["nodefault", "nodefault", "default0", "default1", "two"]))
    params = ARG_SIGNATURES[sig]
    ctx = co2.Ctx(-1, nh, [p[0] for p in params], prof)
    body = draw(co2._stmts(ctx, 1, helper_params, 1, 3, need_wait_first=True))
    target = {"name": f"h{nh}", "params": [_param_text([p])[2:] for p in params], "loop": draw(st.sampled_from([None, None, None, "L1"])), "body": inits + body}
    n = draw(st.integers(2, 4))
    new = [target]
    calls = []  # (statement for main, position None = top)
    positional = {}  # configuration -> number of positional arguments all its activations use (see ASSUMPTIONS)
    for i in range(n):
        spelled = draw(_spelling(params))
        k = positional.setdefault(_cfg_key(_resolve(params, spelled)), _positionals(spelled))
        if k != _positionals(spelled):
            spelled = _respell(params, spelled, k)
        stmt = {"k": "raw", "text": f"activate h{nh}" + _spell(spelled), "act": {"f": nh, "args": spelled, "params": params}}
        if draw(st.integers(0, 9)) < 7:
            ctx = co2.Ctx(-1, nh, [], prof)
            tail = draw(co2._stmts(ctx, 1, helper_params, 0, 2, need_wait_first=True))
            name = nh + len(new)
            new.append({"name": f"h{name}", "params": [], "loop": None, "body": inits + [dict(stmt, first=True)] + tail})
            if draw(st.integers(0, 3)) == 0:
                stmt = {"k": "activate", "f": name}
            else:
                stmt = {"k": "startflow", "f": name, "arg": None, "ref": 80 + i}
        calls.append(stmt)
    body = list(main["body"])
    for stmt in calls:
        at = len(co2.VARS) if draw(st.integers(0, 2)) else draw(st.integers(len(co2.VARS), len(body) - 1))
        body.insert(at, stmt)
    return {"flows": flows[:-1] + new + [dict(main, body=body)]}, {"sig": sig, "n": n}


@st.composite
def _case(draw):
    prog = draw(co2.programs(profile=PROFILE, max_helpers=4, depth=2))
    case = {}
    if draw(st.integers(0, 9)) < 3:
        prog, case["argact"] = draw(_with_arg_activations(prog))
    if draw(st.integers(0, 9)) < 3:
        prog, case["share"] = draw(_with_sharers(prog))
    case.update({"prog": prog, "hist": draw(co2.histories(30)), "choices": draw(st.lists(st.integers(0, 3), max_size=3))})
    return case


def strategy(tier):
    return _case()


# Same-event races (enumerated): flow p advances on an event and queues an internal event (start / activate / await of b, an
# action, a plain send) while, on the very same external event, its parent q ends (finish / abort / return). Both orders of
# advancing (p more specific than q, or less), b already activated by main or not, p/q started or activated.
RACE_X = ["activate b", "start b as $rb", "await b", 'start UtteranceBotAction(script="x") as $ax', "send OutP()"]
RACE_EXIT = ["", "  abort\n", "  return\n", "  send OutQ()\n"]


def _race_text(x, p_specific, exit_stmt, main_activates_b, start_p, start_q):
    pm, qm = ("match E(v=1)", "match E()") if p_specific else ("match E()", "match E(v=1)")
    lines = ["flow b", "  match Eb()", "  send OutB()", "", "flow p", f"  {pm}", f"  {x}", "  match NeverP()", ""]
    lines += ["flow q", f"  {start_p} p", f"  {qm}"] + ([exit_stmt.rstrip("\n")] if exit_stmt else []) + [""]
    lines += ["flow keeper", "  activate b", "  match StopKeeper()", ""]
    lines += ["flow main"] + (["  start keeper"] if main_activates_b else []) + [f"  {start_q} q", "  match Other()", "  match Never()", ""]
    return "\n".join(lines)


NOWAIT_BODIES = {
    "send": ["send OnceOut()"],
    "assign-send": ["$k = 1", "send OnceOut()"],
    "action": ['start UtteranceBotAction(script="once")', "send OnceOut()"],
    "if-send": ["$k = 1", "if $k == 1", "  send OnceOut()"],
}


def _nowait_cases():
    """An activated flow that finishes without ever waiting runs once and stays activated (statement, second sentence)."""
    for name, body in NOWAIT_BODIES.items():
        for twice in (False, True):
            for other in (False, True):
                lines = ["flow once"] + ["  " + b for b in body] + [""]
                lines += ["flow keeper2", "  activate once", "  match StopKeeper2()", ""]
                lines += ["flow main", "  activate once"] + (["  activate once"] if twice else []) + (["  start keeper2"] if other else [])
                lines += ["  match Ev0()", "  send MainOut()", "  match Never()", ""]
                hist = [["raw", "Ev1", None], ["raw", "Ev0", None], ["raw", "StopKeeper2", None], ["age"], ["raw", "Ev0", None], ["raw", "Ev1", None]]
                yield {"leg": "nowait", "text": "\n".join(lines), "hist": hist, "choices": [], "body": name}


def _restart_race_cases():
    """An activated flow that has already been restarted r times ends (more specific match) on the very event that also ends
    its last activator: the restart it queues must not survive the deactivation."""
    for r in (0, 1, 2):
        for b_mid in ("send OutB()", 'start UtteranceBotAction(script="b reacted")'):
            for a_exit in ("", "  abort\n", "  send OutA()\n"):
                for b_more_specific in (True, False):
                    bm, am = ('match Msg(text="bye", lang="en")', 'match Msg(speaker="alice")') if b_more_specific else ('match Msg(text="bye")', 'match Msg(speaker="alice", lang="en")')
                    text = "\n".join(["flow b", "  match Ping()", f"  {b_mid}", f"  {bm}", "", "flow a", "  activate b", f"  {am}"] + ([a_exit.rstrip("\n")] if a_exit else []) + ["", "flow main", "  start a", "  match Never()", ""])
                    msg = lambda who: ["rawkw", "Msg", {"text": "bye", "lang": "en", "speaker": who}]  # noqa: E731
                    hist = []
                    for _ in range(r):
                        hist += [["raw", "Ping", None], msg("bob")]
                    hist += [["raw", "Ping", None], msg("alice"), ["raw", "Ping", None], ["age"], ["raw", "Ping", None], msg("bob"), ["raw", "Ping", None]]
                    yield {"leg": "race", "text": text, "hist": hist, "choices": [], "activators": {"b": ["a"], "a": []}}


# Shared actions (enumerated): flows a and b (optionally c) reach the identical action on the same event in the same loop, so the
# interpreter starts it once and all of them hold the one Action; which flow's action object survives depends on the order of
# the matching scores and, for equal scores, on the tie-break. Then the sharers end at different times (or b and c in one
# step), in every order relative to the Started / Finished events of the action.
SHARE_FORMS = {
    "as": 'start UtteranceBotAction(script="same") as $x',
    "anon": 'start UtteranceBotAction(script="same")',
    "await": 'await UtteranceBotAction(script="same")',
}
SHARE_PAIRS = [("as", "as"), ("anon", "anon"), ("await", "as"), ("as", "await"), ("await", "await")]
# (match of a, match of b, tie-break choices): a more specific, b more specific, equal scores with either outcome of the tie-break
SHARE_SCORES = [("E(v=1)", "E()", []), ("E()", "E(v=1)", []), ("E()", "E()", []), ("E()", "E()", [1])]
SHARE_A = [("start", ""), ("start", "  abort"), ("activate", "")]


def _shared_text(fa, fb, ma, mb, a_mode, a_exit, third):
    lines = ["flow a", f"  match {ma}", "  " + SHARE_FORMS[fa], "  match Ea()"] + ([a_exit] if a_exit else []) + [""]
    lines += ["flow b", f"  match {mb}", "  " + SHARE_FORMS[fb], "  match Eb()", "  send OutB()", ""]
    if third:
        lines += ["flow c", "  match E()", "  " + SHARE_FORMS[fb], "  match Eb()", ""]
    lines += ["flow main", f"  {a_mode} a", "  start b"] + (["  start c"] if third else []) + ["  match Never()", ""]
    return "\n".join(lines)


def _shared_cases(tier):
    import itertools

    items = [["raw", "Ea", None], ["raw", "Eb", None], ["finished", 0], ["started", 0]]
    hists = []
    # the invariants are checked after every step, so a history also covers its prefixes: short orders are only listed for the
    # sake of what follows them (the common event again), in the quick tier up to length 2
    for n in range(1, len(items) + 1):
        for perm in itertools.permutations(items, n):
            if n == len(items):
                hists.append(list(perm))
                hists.append(list(perm[:-1]) + [["age"], perm[-1]])
            elif n <= 2 or tier != "quick":
                hists.append(list(perm))
    for fa, fb in SHARE_PAIRS:
        for ma, mb, choices in SHARE_SCORES:
            for a_mode, a_exit in SHARE_A:
                for third in (False, True):
                    if third and tier == "quick" and (a_mode, a_exit) != SHARE_A[0]:
                        continue
                    text = _shared_text(fa, fb, ma, mb, a_mode, a_exit, third)
                    for h in hists:
                        # the same event again at the end: a restarted (activated) sharer starts a fresh action of its own
                        hist = [["raw", "E", 1]] + [list(x) for x in h] + [["raw", "E", 1], ["raw", "Ea", None], ["finished", 0]]
                        yield {"leg": "race", "family": "shared", "text": text, "hist": hist, "choices": list(choices), "activators": {"a": ["main"], "b": [], "c": []}}


# Twin heads (enumerated): flow p reaches the identical action through two of its own heads (TWIN_FORMS) on the event E, so p
# alone holds two references to one shared Action - optionally a rival flow b reaches the same action on the same event too
# (three references, two of them in one flow). Then p is ended FROM OUTSIDE while it waits in its group - its parent q finishes,
# aborts, q had activated p, or a when-scope of q that started p is left - in every order relative to a member flow finishing
# (m1: an and-branch / a when-case is half done), the action's Started / Finished (Finished completes or-groups normally) and
# the rival ending; then the common event and the ending event again.
TWIN_ENDS = {
    "finish": (["start p", "match Kill()"], "start"),
    "abort": (["start p", "match Kill()", "abort"], "start"),
    "activate": (["activate p", "match Kill()"], "start"),
    "scope": (["when p", "  send Q1()", "or when Kill()", "  send Q2()", "match Kq()"], "start"),
    "q-activated": (["start p", "match Kill()"], "activate"),
}
TWIN_RIVALS = {"none": None, "as": 'start {A} as $x', "await": 'await {A}'}
TWIN_ACTION = 'UtteranceBotAction(script="same")'


def _twin_text(form, end, rival, p_match, b_match):
    subst = {"A": TWIN_ACTION, "B": 'GestureBotAction(gesture="other")', "f": "m1", "g": "m2", "e": "Em1()", "d": "Em2()"}
    lines = ["flow m1", "  match Em1()", "", "flow m2", "  match Em2()", "  send OutM2()", "", "flow p", f"  match {p_match}"]
    lines += ["  " + x for x in _twin_lines(form, subst, [["send W1()"], ["send W2()", "match Ew()"]])] + ["  send OutP()", "  match Ep()", ""]
    if TWIN_RIVALS[rival]:
        lines += ["flow b", f"  match {b_match}", "  " + TWIN_RIVALS[rival].replace("{A}", TWIN_ACTION), "  match Eb()", "  send OutB()", ""]
    q_body, q_mode = TWIN_ENDS[end]
    lines += ["flow q"] + ["  " + x for x in q_body] + [""]
    lines += ["flow main", f"  {q_mode} q"] + (["  start b"] if TWIN_RIVALS[rival] else []) + ["  match Never()", ""]
    return "\n".join(lines)


def _twin_cases(tier):
    import itertools

    quick = tier == "quick"
    base = [["raw", "Kill", None], ["raw", "Em1", None], ["finished", 0], ["started", 0]]
    # the invariants are checked after every step, so a history covers its prefixes: only full orders are listed
    plain = [list(p) for p in itertools.permutations(base)]
    with_rival = []
    for n, p in enumerate(plain):
        for at in [0, 2, 4] if not quick else [n % (len(p) + 1)]:
            with_rival.append(list(p[:at]) + [["raw", "Eb", None]] + list(p[at:]))
    closing = [["raw", "E", 1], ["raw", "Kill", None], ["raw", "Em2", None], ["finished", 0], ["raw", "Kq", None]]
    for fi, form in enumerate(sorted(TWIN_FORMS)):
        for ei, end in enumerate(TWIN_ENDS):
            rivals = list(TWIN_RIVALS)
            if quick:
                rivals = ["none", rivals[1 + (fi + ei) % 2]]
            for rival in rivals:
                # scores: p and the rival equal (tie-break among three heads), or one of them more specific; both heads of p always tie
                scores = [("E()", "E()", []), ("E()", "E()", [1]), ("E()", "E()", [2]), ("E(v=1)", "E()", [1]), ("E()", "E(v=1)", [])] if rival != "none" else [("E()", "E()", []), ("E()", "E()", [1])]
                if quick and rival != "none":
                    scores = scores[(fi + ei) % 2 :: 2]
                for p_match, b_match, choices in scores:
                    text = _twin_text(form, end, rival, p_match, b_match)
                    hs = plain if rival == "none" else with_rival
                    for hi, h in enumerate(hs):
                        for aged in [hi % 3 == 0] if quick or rival != "none" else [False, True]:
                            hist = [["raw", "E", 1]] + [list(x) for x in h]
                            if aged:
                                hist = hist[:-1] + [["age"], hist[-1]]
                            hist += [list(x) for x in closing]
                            yield {"leg": "race", "family": "twin", "text": text, "hist": hist, "choices": list(choices), "activators": {"p": ["q"], "q": ["main"]}, "twins": ["p"], "form": form, "end": end, "rival": rival}


# Activations with arguments (enumerated): flow b with a parameter without default / with default / two parameters; flows a and c
# each execute `activate b <arguments>` as their first statement (so a running instance of a / c HAS activated its configuration),
# in every ordered pair of spellings (omitted, positional, named, the default spelled out, None, another value); c is started
# together with a or later (after b may already have been restarted); a started or activated; or a executes both activations
# and c keeps the second one; then the activators end in either order with Ping events (b reacts and restarts) and idle time
# between.
ARGS_FAMILY = {
    "nodefault": ([["tag", False, None]], [[], [["pos", "x"]], [["named", "tag", "x"]], [["pos", "y"]], [["pos", None]]]),
    "default": ([["tag", True, "d"]], [[], [["pos", "d"]], [["named", "tag", "d"]], [["pos", "x"]], [["named", "tag", "x"]]]),
    "two": (
        [["tag", False, None], ["n", True, 1]],
        [[], [["pos", "x"]], [["pos", "x"], ["named", "n", 1]], [["pos", "x"], ["pos", 1]], [["named", "tag", "x"], ["named", "n", 1]], [["pos", "x"], ["named", "n", 2]], [["named", "n", 2]], [["pos", "x"], ["pos", 2]]],
    ),
}
# body of b: reacts with a send / an action / activates a parameterless flow h of its own first (every configuration of b is
# then an activator of the one h; h is deactivated and activated anew whenever the instances of b end and restart)
ARGS_B_MID = {
    "send": ["match Ping()", "send OutB(tag=$tag)"],
    "action": ["match Ping()", 'start UtteranceBotAction(script="pong {$tag}")'],
    "nested": ["activate h", "match Ping()", "send OutB(tag=$tag)"],
}
ARGS_HISTS = {
    "a-first": ["Go", "Ping", "StopA", "Ping", "StopC", "Ping"],
    "c-first-restarted": ["Ping", "Go", "Ping", "StopC", "Ping", "StopA", "Ping"],
    "a-first-idle": ["Ping", "Go", "StopA", "age", "Ping", "StopC", "age", "Ping"],
    "c-first": ["Go", "StopC", "Ping", "StopA", "Ping", "Go"],
}
# shape "third": a third activator d (arguments of a) arrives after a has ended and been idle for more than 5 s (ended flows are
# then dropped from the state), while c may still hold the same configuration; then d and c end in either order
ARGS_HISTS_THIRD = {
    "third-after-idle": ["Go", "StopA", "age", "Tick", "Go2", "Ping", "StopD", "Ping", "StopC", "Ping"],
    "third-after-idle-restarted": ["Ping", "Go", "Ping", "StopA", "age", "Tick", "Go2", "Ping", "StopC", "age", "Ping", "StopD", "Ping"],
}


def _args_text(params, first, second, b_mid, shape, a_mode):
    lines = ["flow h", "  match Hx()", "  send OutH()", ""] if b_mid == "nested" else []
    lines += ["flow b" + _param_text(params)] + ["  " + x for x in ARGS_B_MID[b_mid]] + [""]
    lines += ["flow a", "  activate b" + _spell(first)] + (["  activate b" + _spell(second)] if shape == "both-in-a" else []) + ["  match StopA()", ""]
    lines += ["flow c", "  activate b" + _spell(second), "  match StopC()", ""]
    if shape == "third":
        lines += ["flow d", "  activate b" + _spell(first), "  match StopD()", ""]
    lines += ["flow main", f"  {a_mode} a"] + (["  match Go()"] if shape != "together" else []) + ["  start c"] + (["  match Go2()", "  start d"] if shape == "third" else []) + ["  match Never()", ""]
    return "\n".join(lines)


def _args_cases(tier):
    for sig, (params, pool) in ARGS_FAMILY.items():
        for first in pool:
            for second in pool:
                if _resolve(params, first) == _resolve(params, second) and _positionals(first) != _positionals(second):
                    continue  # one configuration spelled with different numbers of positional arguments: see ASSUMPTIONS
                for shape in ("together", "later", "both-in-a", "third"):
                    for a_mode in ("start", "activate"):
                        for b_mid in ARGS_B_MID:
                            if tier == "quick" and (b_mid == "send") != (a_mode == "activate"):
                                continue  # quick tier: half of the (a_mode, b_mid) grid
                            if b_mid == "nested" and shape == "both-in-a":
                                continue
                            text = _args_text(params, first, second, b_mid, shape, a_mode)
                            acts = [["a", "b", _resolve(params, first), True], ["c", "b", _resolve(params, second), True]]
                            if shape == "both-in-a":
                                acts.append(["a", "b", _resolve(params, second), False])
                            if shape == "third":
                                acts.append(["d", "b", _resolve(params, first), True])
                            if b_mid == "nested":
                                acts.append(["b", "h", {}, True])
                            for hname, h in (ARGS_HISTS_THIRD if shape == "third" else ARGS_HISTS).items():
                                if tier == "quick" and shape == "both-in-a" and hname in ("a-first-idle", "c-first"):
                                    continue
                                if tier == "quick" and b_mid == "nested" and "idle" not in hname:
                                    continue  # the nested variant is about instances dropped from the state after idle time
                                hist = [["age"] if x == "age" else ["raw", x, None] for x in h]
                                yield {"leg": "race", "family": "args", "text": text, "hist": hist, "choices": [], "activators": {"a": ["main"], "c": [], "d": []}, "activations": acts, "sig": sig}


def enumerate_cases(tier):
    yield from _nowait_cases()
    yield from _restart_race_cases()
    yield from _shared_cases(tier)
    yield from _twin_cases(tier)
    yield from _args_cases(tier)
    hists = [
        [["raw", "E", 1], ["raw", "Eb", None], ["raw", "StopKeeper", None], ["raw", "Eb", None], ["raw", "E", 1], ["raw", "Eb", None]],
        [["raw", "E", 1], ["age"], ["raw", "Eb", None], ["raw", "Other", None], ["raw", "StopKeeper", None], ["raw", "Eb", None], ["raw", "E", 1]],
    ]
    for x in RACE_X:
        for p_specific in (True, False):
            for ex in RACE_EXIT:
                for mab in (False, True):
                    for sp in ("start", "activate"):
                        for sq in ("start", "activate"):
                            for h in hists:
                                yield {"leg": "race", "text": _race_text(x, p_specific, ex, mab, sp, sq), "hist": h, "choices": [], "activators": {"b": ["keeper", "p"] if mab else ["p"], "p": ["q"], "q": ["main"]}}


def _activators(prog):
    """flow name -> list of [activator flow name, configuration (dict parameter -> value), sure]: the flows that contain an
    `activate <name> <arguments>` statement; sure = it is the activator's first statement (every running instance has executed it)."""
    out = {}

    def walk(stmts, owner):
        for s in stmts:
            if s["k"] == "activate":
                out.setdefault(f"h{s['f']}", []).append([owner, {}, False])
            elif s["k"] == "raw" and "act" in s:
                a = s["act"]
                out.setdefault(f"h{a['f']}", []).append([owner, _resolve(a["params"], a["args"]), bool(s.get("first"))])
            for key in ("then", "else", "body"):
                if isinstance(s.get(key), list):
                    walk(s[key], owner)
            for c in s.get("cases", []):
                walk(c["body"], owner)

    for fl in prog["flows"]:
        walk(fl["body"], fl["name"])
    return out


def _case_activators(case):
    """Enumerated families list their activators by hand: {flow: [activator, ...]} (any configuration) and, for activations
    with arguments, [activator, flow, configuration, sure]."""
    out = {k: [[by, None, False] for by in v] for k, v in case["activators"].items()}
    for by, fid, cfg, sure in case.get("activations", []):
        out.setdefault(fid, []).append([by, cfg, sure])
    return out


def _cfg_key(cfg):
    return jdump(cfg)


def _allowed(activators, fid, cfg):
    """Names of the flows that contain an activation of exactly this configuration of fid."""
    return {by for by, c, _sure in activators.get(fid, []) if c is None or c == cfg}


class Ledger:
    def __init__(self):
        self.started = {}  # action uid -> type
        self.stops = {}  # action uid -> count
        self.finished = set()
        self.activation_pairs = set()  # (activator uid, flow id)
        self.shared = set()  # action uids seen in the action list of two running flows at once
        self.lost_sharer = set()  # shared, unfinished action uids of which one holder ended while another one kept running
        self.flags = set()  # which shapes of the shared-action life cycle the history went through (labels only)
        self.twins = set()  # names of the flows that contain a twin statement (labels only)


_NO_PARAMETERS = {}


def _snapshot(state):
    s = smh.sm()
    snap = {}
    for fs in state.flow_states.values():
        params = state.flow_configs[fs.flow_id].parameters
        cfg = {p.name: fs.arguments.get(p.name) for p in params} if params else _NO_PARAMETERS
        snap[fs.uid] = {
            "flow_id": fs.flow_id,
            "cfg": cfg,
            "cfg_key": _cfg_key(cfg) if params else "{}",
            "running": s.is_active_flow(fs),
            "listening": s.is_listening_flow(fs),
            "status": fs.status.value,
            "parent": fs.parent_uid,
            "loop": fs.loop_id,
            "children": list(fs.child_flow_uids),
            "actions": list(fs.action_uids),
            "activated": fs.activated,
        }
    return snap


def _check_step(prev, cur, ledger, outs, activators, text, where):
    # (a) Stop events
    for e in outs:
        t = e["type"]
        if t.startswith("Start") and t.endswith("Action") and "action_uid" in e:
            ledger.started[e["action_uid"]] = t[5:]
        elif t.startswith("Stop") and t.endswith("Action") and "action_uid" in e:
            uid = e["action_uid"]
            if uid not in ledger.started:
                raise Violation("stop-for-unstarted-action", f"{where}: {t} for an action that was never started\n{text}")
            if uid in ledger.finished:
                raise Violation("stop-for-finished-action", f"{where}: {t} for an action whose Finished event was already processed\n{text}")
            ledger.stops[uid] = ledger.stops.get(uid, 0) + 1
            if ledger.stops[uid] > 1:
                raise Violation("double-stop", f"{where}: {t} sent {ledger.stops[uid]} times for the same action\n{text}")
    running_now = {u for u, f in cur.items() if f["running"]}
    started_now = {e["action_uid"] for e in outs if e["type"].startswith("Start") and e["type"].endswith("Action") and "action_uid" in e}
    # (b) flows that left the running set
    ended_with_dependants = False
    for uid, f in prev.items():
        if not f["running"] or uid in running_now:
            continue
        acts = set(f["actions"]) | set(cur.get(uid, {}).get("actions", []))
        kids = [k for k in f["children"] if prev.get(k, {}).get("running")]
        live_acts = [a for a in acts if a in ledger.started and a not in ledger.finished]
        if kids or live_acts:
            ended_with_dependants = True
        if f["flow_id"] in ledger.twins and len(f["actions"]) != len(set(f["actions"])):
            twice = {a for a in f["actions"] if f["actions"].count(a) > 1}
            if twice & set(live_acts):
                ledger.flags.add("twin-flow-ended-action-unfinished")
                if any(a in cur[r]["actions"] for r in running_now for a in twice):
                    ledger.flags.add("twin-flow-ended-action-still-shared-with-other-flow")
            elif twice & ledger.finished:
                ledger.flags.add("twin-flow-ended-after-action-finished")
        for a in live_acts:
            shared = any(a in cur[r]["actions"] for r in running_now)
            if shared:
                ledger.lost_sharer.add(a)
            elif a in ledger.shared:
                ledger.flags.add("last-sharer-ended-unfinished")
            if not shared and ledger.stops.get(a, 0) != 1:
                kind = "action-not-stopped"
                if ledger.stops.get(a, 0) == 0 and a in started_now and _crosses_loops(uid, prev):
                    # root-cause bucket of its own: the Start was emitted in the very step in which the flow (a flow in another
                    # interaction loop than one of its ancestors) was ended - same clause of the statement, same verdict
                    kind = "action-started-for-flow-ended-in-same-step-other-loop"
                raise Violation(
                    kind,
                    f"{where}: flow {f['flow_id']} ended ({cur.get(uid, {}).get('status', 'removed')}) but its unfinished action {ledger.started[a]} got {ledger.stops.get(a, 0)} Stop events\n{text}",
                )
        for a in acts:
            if a in ledger.finished and a in ledger.lost_sharer and not any(a in cur[r]["actions"] for r in running_now):
                ledger.flags.add("last-sharer-ended-after-finished")
    holders = {}
    for uid in running_now:
        for a in set(cur[uid]["actions"]):  # a flow may list one action twice (two of its heads co-won it): one holder
            holders[a] = holders.get(a, 0) + 1
    ledger.shared.update(a for a, n in holders.items() if n > 1 and a in ledger.started)
    for uid in running_now:
        acts = cur[uid]["actions"]
        if len(acts) != len(set(acts)):
            ledger.flags.add("one-flow-holds-action-twice")
            if any(ledger.stops.get(a, 0) and acts.count(a) > 1 for a in acts):
                ledger.flags.add("twin-action-stopped-while-its-flow-runs")
    # (c)/(e) orphans
    per_config = {}  # labels only: running activated instances per configuration
    for uid in running_now:
        f = cur[uid]
        if f["flow_id"] == "main" or f["parent"] is None:
            continue
        if f["activated"] > 0:
            acts = _allowed(activators, f["flow_id"], f["cfg"])
            if not any(cur[r]["flow_id"] in acts for r in running_now):
                what = f"{f['flow_id']} {f['cfg']}" if f["cfg"] else f["flow_id"]
                raise Violation("activated-flow-outlives-activators", f"{where}: activated flow {what} is running but no flow containing an `activate` statement for this configuration is (flows with such a statement: {sorted(acts)})\n{text}")
            # remember the activator that is observable: the parent of the first instance of the restart chain (for d);
            # further activators only increase a reference count and cannot be told apart from flows that merely
            # contain an `activate` statement they have not executed yet
            anc = f["parent"]
            while anc in cur and cur[anc]["flow_id"] == f["flow_id"]:
                anc = cur[anc]["parent"]
            if anc in cur and cur[anc]["running"] and cur[anc]["flow_id"] in acts:
                ledger.activation_pairs.add((anc, f["flow_id"], f["cfg_key"]))
            key = (f["flow_id"], f["cfg_key"])
            per_config[key] = per_config.get(key, 0) + 1
        else:
            p = cur.get(f["parent"])
            if p is None or not p["running"]:
                raise Violation(
                    "orphan-flow",
                    f"{where}: flow {f['flow_id']} is still running but its parent {p['flow_id'] if p else '<gone>'} is {p['status'] if p else 'gone'}\n{text}",
                )
    if any(n > 1 for n in per_config.values()):
        ledger.flags.add("several-running-instances-of-one-configuration")
    if len({fid for fid, _ in per_config}) < len(per_config):
        ledger.flags.add("several-configurations-of-one-flow-running")
        # the shape that tells configurations apart: an activator of one configuration ended while another configuration lives on
        gone = {f["flow_id"] for uid, f in prev.items() if f["running"] and uid not in running_now}
        for fid, entries in activators.items():
            if any(by in gone and c for by, c, _sure in entries) and sum(1 for k in per_config if k[0] == fid) > 1:
                ledger.flags.add("activator-ended-while-other-configuration-lives")
    return ended_with_dependants


def _check_sure_activations(cur, activators, text, where):
    """(d) for activators whose FIRST statement is the activation: a running instance has executed it, so its configuration of
    the activated flow must have a listening instance (started for it, or shared with an earlier activator of the same
    configuration, and restarted whenever it ended)."""
    running_ids = {f["flow_id"] for f in cur.values() if f["running"]}
    for fid, entries in activators.items():
        for by, cfg, sure in entries:
            if not sure or by not in running_ids:
                continue
            key = _cfg_key(cfg)
            if not any(f["flow_id"] == fid and f["cfg_key"] == key and f["listening"] for f in cur.values()):
                others = sorted({f["cfg_key"] for f in cur.values() if f["flow_id"] == fid and f["listening"]})
                raise Violation(
                    "activation-without-listening-instance",
                    f"{where}: flow {by} is running and has executed `activate {fid}` with configuration {cfg}, but no instance of {fid} with these parameter values is listening (listening configurations: {others})\n{text}",
                )


def _crosses_loops(uid, snap):
    """The flow runs in another interaction loop than one of its ancestors (diagnosis only)."""
    loop = snap[uid]["loop"]
    anc = snap[uid]["parent"]
    while anc in snap:
        if snap[anc]["loop"] != loop:
            return True
        anc = snap[anc]["parent"]
    return False


def _check_activation_liveness(cur, ledger, confirmed, text, where):
    for act_uid, fid, key in confirmed:
        a = cur.get(act_uid)
        if a is None or not a["running"]:
            continue
        if not any(f["flow_id"] == fid and f["cfg_key"] == key and f["listening"] for f in cur.values()):
            what = fid if key == "{}" else f"{fid} {key}"
            raise Violation("activated-flow-not-restarted", f"{where}: flow {a['flow_id']} activated {what} and is still running, but no instance of {what} is listening\n{text}")


class _StepBudget(BaseException):
    pass


_budget = {"n": 0, "installed": False}


def _install_budget():
    if _budget["installed"]:
        return
    m = smh.sm()
    orig = m._get_all_head_candidates

    def counted(*a, **k):
        _budget["n"] += 1
        if _budget["n"] > 5000:
            raise _StepBudget()
        return orig(*a, **k)

    m._get_all_head_candidates = counted
    _budget["installed"] = True


def _nowait_prop(case):
    text = case["text"]
    _install_budget()
    _budget["n"] = 0
    try:
        return _nowait_run(case, text)
    except _StepBudget:
        raise Violation("nowait-activated-flow-ran-again", f"more than 5000 internal events for one external event: the activated flow without a waiting statement keeps restarting\n{text}")
    finally:
        _budget["n"] = -10**12  # never trips outside this leg


def _nowait_run(case, text):
    try:
        s = smh.Session(text, case["choices"])
    except Exception as e:
        raise Violation("exception-at-start:" + type(e).__name__, f"{e!r}"[:300] + "\n" + text)
    events = list(s.start_events)
    for i, item in enumerate(case["hist"]):
        if item[0] == "age":
            smh.Clock.virtual += 6.0
            continue
        ev = {"type": item[1]}
        _budget["n"] = 0
        try:
            events += smh.feed(s.state, ev)
        except Exception as e:
            raise Violation("exception-escaped:" + type(e).__name__, f"event #{i} {ev}: {e!r}"[:300] + "\n" + text)
    n = sum(1 for e in events if e["type"] == "OnceOut")
    if n != 1:
        raise Violation("nowait-activated-flow-ran-%s" % ("never" if n == 0 else "again"), f"activated flow without any waiting statement emitted its marker {n} times over the history (expected exactly once)\n{text}")
    if sum(1 for e in events if e["type"] == "MainOut") != 1:
        raise Violation("nowait-activator-disturbed", f"main did not continue normally after activating a flow that finishes immediately\n{text}")
    return ok(nt=True, labels=["nowait-family", "body-" + case["body"]], view={"program": text})


def prop(case):
    if case.get("leg") == "nowait":
        return _nowait_prop(case)
    if case.get("leg") == "race":
        text = case["text"]
        activators = _case_activators(case)
    else:
        text = co2.render(case["prog"])
        activators = _activators(case["prog"])
    try:
        s = smh.Session(text, case["choices"])
    except Exception as e:
        raise Violation("exception-at-start:" + type(e).__name__, f"{e!r}"[:300] + "\n" + text)
    ledger = Ledger()
    ledger.twins = set(case.get("twins") or (case.get("share") or {}).get("twins") or [])
    prev = {}
    cur = _snapshot(s.state)
    nt = _check_step(prev, cur, ledger, s.start_events, activators, text, "after start")
    # pairs (activator instance, X) for which X was seen running while the activator ran
    confirmed = set()

    def confirm():
        confirmed.update(ledger.activation_pairs)

    confirm()
    _check_sure_activations(cur, activators, text, "after start")
    fed = 0
    cut = False
    for i, item in enumerate(case["hist"]):
        if item[0] == "rawkw":
            ev = dict(item[2], type=item[1])
        elif item[0] == "raw":
            ev = {"type": item[1]}
            if item[2] is not None:
                ev["v"] = item[2]
        else:
            ev = s.concrete(item)
        if ev is None:
            continue
        if ev["type"].endswith("ActionFinished") and "action_uid" in ev:
            ledger.finished.add(ev["action_uid"])
            if ev["action_uid"] in ledger.lost_sharer and ledger.stops.get(ev["action_uid"], 0) == 0:
                ledger.flags.add("finished-after-a-sharer-ended")
        try:
            outs = smh.feed(s.state, ev)
        except Exception as e:
            raise Violation("exception-escaped:" + type(e).__name__, f"event #{i} {ev}: {e!r}"[:300] + "\n" + text)
        s._ledger(outs)
        fed += 1
        prev, cur = cur, _snapshot(s.state)
        where = f"after event #{i} {ev['type']} of {case['hist'][: i + 1]}"
        # only activators that were already confirmed BEFORE this step are required to still have a listening instance
        _check_activation_liveness(cur, ledger, set(confirmed), text, where)
        if _check_step(prev, cur, ledger, outs, activators, text, where):
            nt = True
        _check_sure_activations(cur, activators, text, where)
        confirm()
        if len(cur) > MAX_FLOW_INSTANCES:
            cut = True  # a recursive program that multiplies itself on every event: the rest of the history would only time out
            break
    from collections import Counter

    kinds = co2.count_kinds(case["prog"]) if case.get("leg") != "race" else Counter()
    labels = [{"shared": "shared-family", "args": "args-family", "twin": "twin-family"}.get(case.get("family"), "race-family")] if case.get("leg") == "race" else []
    if case.get("family") == "twin":
        labels += ["twin-form-" + case["form"], "twin-end-" + case["end"], "twin-rival-" + case["rival"]]
    if case.get("family") == "args":
        labels.append("args-signature-" + case["sig"])
    if case.get("argact"):
        labels.append("arg-activations-added")
    configs = {fid: {_cfg_key(c) for _by, c, _sure in entries if c} for fid, entries in activators.items()}
    if any(len(v) > 1 for v in configs.values()):
        labels.append("flow-activated-in-several-configurations")
    if any(sum(1 for _by, c, _sure in entries if c and _cfg_key(c) == k) > 1 for fid, entries in activators.items() for k in configs[fid]):
        labels.append("configuration-with-several-activators")
    if case.get("share"):
        labels.append("sharer-flows-added")
        if case["share"].get("twins"):
            labels.append("twin-statements-added")
            for fl in case["prog"]["flows"]:
                labels += ["twin-form-" + s["twin"] for s in fl["body"] if s.get("twin")]
    if ledger.shared:
        labels.append("shared-action-observed")
    if ledger.lost_sharer:
        labels.append("sharer-ended-while-shared")
    labels += sorted(ledger.flags)
    if nt:
        labels.append("flow-ended-with-dependants")
    if ledger.stops:
        labels.append("stop-events-seen")
    if confirmed:
        labels.append("activation-observed")
    if kinds["when"]:
        labels.append("when")
    if kinds["awaitg"]:
        labels.append("await-group")
    if kinds["abort"] + kinds["return"]:
        labels.append("abort/return")
    if ledger.finished:
        labels.append("action-finished-events")
    if cut:
        labels.append("history-cut-at-%d-flow-instances" % MAX_FLOW_INSTANCES)
    labels.append("len>=10" if fed >= 10 else "len<10")
    return ok(nt=nt, labels=labels, view={"program": text, "history": case["hist"][:12], "stops": len(ledger.stops)}, counters={"events_fed": fed, "stop_events": sum(ledger.stops.values())})
